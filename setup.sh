#!/bin/sh
# Builds the overlay interpreter used by every check: python 3.12 = /venv (repo deps: numpy, scipy,
# networkx, matplotlib) + z3-solver, sympy, cvc5, jsonschema from the offline wheelhouse.
# Offline, idempotent, ~25 s.  Nothing is fetched.
set -e
cd "$(dirname "$0")"
V=.venv
if [ -x "$V/bin/python" ] && "$V/bin/python" -c "import z3, sympy, jsonschema, networkx, numpy, scipy" 2>/dev/null; then
  echo "setup: overlay venv already usable"; exit 0
fi
rm -rf "$V"
/venv/bin/python -m venv "$V"
PIP_NO_INDEX=1 "$V/bin/pip" install -q --no-index --find-links /opt/veriftools/wheels z3-solver sympy cvc5 jsonschema
SP=$("$V/bin/python" -c "import sysconfig; print(sysconfig.get_paths()['purelib'])")
echo "import site; site.addsitedir('/venv/lib/python3.12/site-packages')" > "$SP/_repo_deps.pth"
"$V/bin/python" -c "import z3, sympy, jsonschema, networkx, numpy, scipy, matplotlib; print('setup: ok, z3', z3.get_version_string())"
