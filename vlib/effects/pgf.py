"""Term-wise verification conditions for get_PGF / get_PGFPrime / get_PGFDPrime (EoN/analytic.py), property C20.

The three functions are straight-line numpy code ending in `lambda x: <coefficients>.dot(<elementwise expr>)`.
A small abstract interpreter over the REAL ast (re-read on every run) derives, for a symbolic integer k,
the k-th summand  c(k) * x**e(k)  of the returned function; z3 then decides for ALL integers k >= 0
    spec      : (c, e) = (1, k), (k, k-1), (k(k-1), k-2)        [psi, psi', psi'']
    derivative: c' = c*e and e' = e-1 between consecutive functions (own rule d x^e = e x^(e-1))
    index set : the summation runs over k = 0..max(Pk.keys()) with coefficient Pk.get(k, 0)
Assumed numpy contract: np.linspace(0, m, m+1) = [0, 1, ..., m]; a.dot(b) = sum_k a[k] b[k]; ** and * elementwise.
Unbounded in maxk (the obligations are per term, k symbolic)."""
import ast
import time
import z3
from z3 import And, Or, Not, Implies, Int, Real, ToReal, RealVal
from ..common import Ob
from ..pyvc.verify import Source

F = 'EoN/analytic.py'
SPEC = {'get_PGF': (lambda k: RealVal(1), lambda k: k),
        'get_PGFPrime': (lambda k: k, lambda k: k - 1),
        'get_PGFDPrime': (lambda k: k * (k - 1), lambda k: k - 2)}


class Bad(Exception):
    pass


class Term:
    """c * x**e  (c, e real-valued z3 terms in k)"""

    def __init__(self, c, e):
        self.c, self.e = c, e


def interp(fnode, k):
    """returns dict(index_ok, coef_ok, term=Term) or raises Bad(reason)"""
    env = {}
    pk = fnode.args.args[0].arg
    ret = None
    for st in fnode.body:
        if isinstance(st, ast.Expr) and isinstance(st.value, ast.Constant):
            continue
        if isinstance(st, ast.Assign) and len(st.targets) == 1 and isinstance(st.targets[0], ast.Name):
            env[st.targets[0].id] = absval(st.value, env, pk)
            continue
        if isinstance(st, ast.Return):
            ret = st.value
            continue
        raise Bad('unsupported statement at line %d' % st.lineno)
    if not isinstance(ret, ast.Lambda) or len(ret.args.args) != 1:
        raise Bad('does not return a one-argument lambda')
    xname = ret.args.args[0].arg
    body = ret.body
    if not (isinstance(body, ast.Call) and isinstance(body.func, ast.Attribute) and body.func.attr == 'dot'
            and len(body.args) == 1):
        raise Bad('returned function is not <array>.dot(<expr>)')
    coefs = absval(body.func.value, env, pk)
    if coefs != ('COEF',):
        raise Bad('the summation coefficients are not [Pk.get(k,0) for k in 0..maxk] (got %r)' % (coefs,))
    return term(body.args[0], env, xname, k)


def absval(e, env, pk):
    if isinstance(e, ast.Name):
        return env.get(e.id, ('UNKNOWN', e.id))
    if isinstance(e, ast.Call):
        fn = ast.unparse(e.func)
        if fn == 'max' and len(e.args) == 1 and ast.unparse(e.args[0]) in ('%s.keys()' % pk, pk):
            return ('MAXK',)
        if fn in ('np.linspace', 'numpy.linspace') and len(e.args) == 3:
            a0 = e.args[0]
            if isinstance(a0, ast.Constant) and a0.value == 0 and absval(e.args[1], env, pk) == ('MAXK',):
                a2 = e.args[2]
                if (isinstance(a2, ast.BinOp) and isinstance(a2.op, ast.Add)
                        and ((absval(a2.left, env, pk) == ('MAXK',) and isinstance(a2.right, ast.Constant) and a2.right.value == 1)
                             or (absval(a2.right, env, pk) == ('MAXK',) and isinstance(a2.left, ast.Constant) and a2.left.value == 1))):
                    return ('RANGE',)
            return ('UNKNOWN', ast.unparse(e))
        if fn in ('np.arange', 'numpy.arange') and len(e.args) == 1:
            a = e.args[0]
            if isinstance(a, ast.BinOp) and isinstance(a.op, ast.Add) and absval(a.left, env, pk) == ('MAXK',) \
                    and isinstance(a.right, ast.Constant) and a.right.value == 1:
                return ('RANGE',)
        if fn in ('np.array', 'numpy.array') and len(e.args) == 1:
            return absval(e.args[0], env, pk)
        return ('UNKNOWN', ast.unparse(e))
    if isinstance(e, ast.ListComp) and len(e.generators) == 1 and not e.generators[0].ifs:
        g = e.generators[0]
        if absval(g.iter, env, pk) == ('RANGE',) and isinstance(g.target, ast.Name):
            v = g.target.id
            if ast.unparse(e.elt) in ('%s.get(%s, 0)' % (pk, v), '%s.get(%s, 0.0)' % (pk, v)):
                return ('COEF',)
        return ('UNKNOWN', ast.unparse(e))
    return ('UNKNOWN', ast.unparse(e))


def term(e, env, xname, k):
    if isinstance(e, ast.Name):
        if e.id == xname:
            return Term(RealVal(1), RealVal(1))
        v = env.get(e.id)
        if v == ('RANGE',):
            return Term(ToReal(k), RealVal(0))
        raise Bad('name %s in the summand is neither x nor the index array' % e.id)
    if isinstance(e, ast.Constant) and isinstance(e.value, (int, float)):
        return Term(RealVal(repr(e.value)), RealVal(0))
    if isinstance(e, ast.BinOp):
        l, r = term(e.left, env, xname, k), term(e.right, env, xname, k)
        if isinstance(e.op, ast.Mult):
            return Term(l.c * r.c, l.e + r.e)
        if isinstance(e.op, (ast.Add, ast.Sub)):
            if not (z3.is_true(z3.simplify(l.e == 0)) and z3.is_true(z3.simplify(r.e == 0))):
                raise Bad('sum of non-constant powers in the summand')
            return Term(l.c + r.c if isinstance(e.op, ast.Add) else l.c - r.c, RealVal(0))
        if isinstance(e.op, ast.Pow):
            if not z3.is_true(z3.simplify(r.e == 0)):
                raise Bad('exponent depends on x')
            if not z3.is_true(z3.simplify(l.c == 1)):
                raise Bad('power of a scaled base')
            return Term(RealVal(1), l.e * r.c)
        if isinstance(e.op, ast.Div):
            if not z3.is_true(z3.simplify(r.e == 0)):
                raise Bad('division by x-dependent term')
            return Term(l.c / r.c, l.e)
    if isinstance(e, ast.UnaryOp) and isinstance(e.op, ast.USub):
        t = term(e.operand, env, xname, k)
        return Term(-t.c, t.e)
    raise Bad('unsupported summand expression %s' % ast.unparse(e))


def decide(name, goal_builder):
    k = Int('k')
    s = z3.Solver()
    s.set('timeout', 20000)
    s.add(k >= 0)
    t0 = time.time()
    try:
        goal = goal_builder(k)
    except Bad as b:
        return 'bad', str(b), None, time.time() - t0
    s.add(Not(goal))
    r = s.check()
    model = None
    if r == z3.sat:
        model = {'k': str(s.model()[k])}
    return str(r), '', model, time.time() - t0


def obligations():
    out = []
    terms = {}
    backend = 'z3-%s (QF nonlinear arithmetic over an integer k; unbounded in maxk)' % z3.get_version_string()
    for fn, (c_spec, e_spec) in SPEC.items():
        node, sha = Source.find(F, fn)
        fid = '%s:%s' % (F, fn)
        if node is None:
            out.append(Ob('pgf:%s:bind' % fn, fid, 'binding', 'undecided', backend, 0.0, replay_note='function not found'))
            continue

        def goal(k, node=node, c_spec=c_spec, e_spec=e_spec, fn=fn):
            t = interp(node, k)
            terms[fn] = node
            kr = ToReal(k)
            return And(t.c == c_spec(kr), Implies(c_spec(kr) != 0, t.e == e_spec(kr)))
        r, why, model, dt = decide(fn, goal)
        st = {'unsat': 'discharged', 'sat': 'refuted', 'bad': 'refuted'}.get(r, 'undecided')
        out.append(Ob('pgf:%s:summand-is-spec' % fn, fid, 'post', st, backend, round(dt, 3),
                      detail=('summand differs from %s at %s' % (fn, model)) if r == 'sat' else why,
                      site='%s line %d' % (fid, node.lineno), witness=model, replay_note='solver: %s %s' % (r, why)))
    # derivative relations between the code-extracted summands
    for lo, hi in (('get_PGF', 'get_PGFPrime'), ('get_PGFPrime', 'get_PGFDPrime')):
        nl, _ = Source.find(F, lo)
        nh, _ = Source.find(F, hi)
        fid = '%s:%s' % (F, hi)
        if nl is None or nh is None:
            continue

        def goal(k, nl=nl, nh=nh):
            a, b = interp(nl, k), interp(nh, k)
            return And(b.c == a.c * a.e, Implies(b.c != 0, b.e == a.e - 1))
        r, why, model, dt = decide(hi, goal)
        st = {'unsat': 'discharged', 'sat': 'refuted', 'bad': 'refuted'}.get(r, 'undecided')
        out.append(Ob('pgf:%s:is-derivative-of:%s' % (hi, lo), fid, 'post', st, backend, round(dt, 3),
                      detail=('not the term-wise derivative at %s' % model) if r == 'sat' else why,
                      site='%s line %d' % (fid, nh.lineno), witness=model, replay_note='solver: %s %s' % (r, why)))
    return out


def native_replay(ob):
    """evaluate the real helpers on single-degree distributions and compare with x**k, k x**(k-1), k(k-1) x**(k-2)"""
    import EoN
    bad = []
    ks = list(range(0, 7))
    if ob.witness and 'k' in ob.witness:
        try:
            ks = [int(ob.witness['k'])] + ks
        except Exception:
            pass
    for k in ks:
        for x in (0.5, 1.0, 0.25):
            Pk = {k: 1.0}
            exp = {'get_PGF': x ** k, 'get_PGFPrime': k * x ** (k - 1) if k >= 1 else 0.0,
                   'get_PGFDPrime': k * (k - 1) * x ** (k - 2) if k >= 2 else 0.0}
            for fn, want in exp.items():
                try:
                    got = float(getattr(EoN, fn)(Pk)(x))
                except Exception as e:
                    bad.append(dict(function=fn, Pk=Pk, x=x, observed='%s: %s' % (type(e).__name__, e), expected=want))
                    continue
                if abs(got - want) > 1e-9:
                    bad.append(dict(function=fn, Pk={str(k): 1.0}, x=x, observed=got, expected=want))
        if bad:
            break
    if bad:
        return dict(failure_exhibited=True, how='native evaluation of the real helper on a single-degree distribution', input=bad[0], more=bad[1:4])
    return dict(failure_exhibited=False, how='native evaluation on single-degree distributions k=0..6 agreed with the spec')
