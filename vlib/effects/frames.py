"""E2 frame analysis (DESIGN 3.2, property C19): for every function, which of its PARAMETERS may have an object
reachable from them mutated.  Forward, flow-sensitive may-alias analysis over the real AST with callee summaries
(computed to a fixpoint over the three modules); one obligation per (public entry point, parameter):

        modifies(f)  ∩  reachable(parameter) = ∅

Mutating operations: subscript / attribute stores (x[i] = v, x.shape = ...), augmented assignment on a subscript
or attribute, mutating methods (append, pop, add, update, remove, sort, fill, ..., networkx add_*/remove_*),
tabulated mutating library calls (heapq.heappush/heappop, random.shuffle), reading a parameter documented as a
possibly-default dict by subscript (defaultdict.__missing__ inserts), and passing an alias to a repository
function whose summary says it mutates that parameter.
Alias sources: assignment, subscripting/slicing/attribute access (numpy views, container elements), .T / reshape /
ravel / asarray / view, tuples and lists that contain an alias.  Fresh results: arithmetic, np.array, list(), set(),
dict(), sorted(), .copy(), comprehensions, any call not tabulated as alias-returning.
Assumption (reported): `name += e` on a bare name acts on an immutable number when the name aliases a parameter."""
import ast
from ..common import Ob
from ..pyvc.verify import Source

FILES = ['EoN/simulation.py', 'EoN/analytic.py', 'EoN/auxiliary.py']
MUT_METHODS = {'append', 'extend', 'pop', 'remove', 'add', 'update', 'sort', 'clear', 'insert', 'discard', 'popitem',
               'setdefault', 'reverse', 'fill', 'resize', 'itemset', 'put', 'sort',
               'add_node', 'add_edge', 'remove_node', 'remove_edge', 'add_nodes_from', 'add_edges_from',
               'remove_nodes_from', 'remove_edges_from', 'add_weighted_edges_from', 'clear_edges',
               'random_removal', 'update_total_weight'}
VIEW_ATTRS = {'T', 'flat', 'real', 'imag', 'adj', 'nodes', 'edges', 'node', 'edge', 'succ', 'pred'}
VIEW_METHODS = {'reshape', 'ravel', 'view', 'transpose', 'squeeze', 'swapaxes', 'items', 'values', 'keys', 'neighbors',
                'successors', 'predecessors', '__getitem__', 'get'}
ALIAS_FUNCS = {'np.asarray', 'numpy.asarray', 'np.ravel', 'np.reshape', 'np.transpose', 'np.atleast_1d', 'iter', 'zip', 'enumerate',
               'reversed', 'np.squeeze'}
MUT_LIB = {'heapq.heappush': [0], 'heapq.heappop': [0], 'random.shuffle': [0], 'np.put': [0], 'np.fill_diagonal': [0],
           'np.copyto': [0], 'np.place': [0]}
DEFAULTDICT_PARAMS = {'IC'}          # documented as dict "or defaultdict": reading by subscript may insert keys


class Summary:
    def __init__(self):
        self.mutates = {}            # param -> list of (lineno, what)
        self.augassign_sites = []


def params_of(fn):
    a = fn.args
    out = [x.arg for x in a.posonlyargs + a.args + a.kwonlyargs]
    if a.vararg:
        out.append(a.vararg.arg)
    if a.kwarg:
        out.append(a.kwarg.arg)
    return out


class Analyzer:
    def __init__(self, defs, summaries):
        self.defs, self.summaries = defs, summaries

    def analyze(self, fn):
        self.fn = fn
        self.sum = Summary()
        # parameters used like arrays / containers somewhere in the function (subscripted, .shape/.T/..., len())
        self.arraylike = set()
        ps = set(params_of(fn))
        for x in ast.walk(fn):
            if isinstance(x, ast.Subscript) and isinstance(x.value, ast.Name) and x.value.id in ps:
                self.arraylike.add(x.value.id)
            if isinstance(x, ast.Attribute) and isinstance(x.value, ast.Name) and x.value.id in ps:
                self.arraylike.add(x.value.id)
            if isinstance(x, ast.Call) and ast.unparse(x.func) == 'len' and x.args and isinstance(x.args[0], ast.Name) and x.args[0].id in ps:
                self.arraylike.add(x.args[0].id)
            if isinstance(x, ast.For) and isinstance(x.iter, ast.Name) and x.iter.id in ps:
                self.arraylike.add(x.iter.id)
        env = {p: (frozenset([p]), frozenset()) for p in params_of(fn)}
        self.block(fn.body, env)
        return self.sum

    # ---------------------------------------------------------------- expressions -> (alias set, content set)
    # alias  : parameters whose object this value may BE (or be a view of)
    # content: parameters whose objects this (fresh) container may hold references to
    def al2(self, e, env):
        E = (frozenset(), frozenset())
        if e is None:
            return E
        if isinstance(e, ast.Name):
            return env.get(e.id, E)
        if isinstance(e, (ast.Subscript, ast.Attribute)):
            A, C = self.al2(e.value, env)
            return (A | C, C)
        if isinstance(e, (ast.Tuple, ast.List, ast.Set)):
            C = frozenset()
            for x in e.elts:
                a, c = self.al2(x, env)
                C |= a | c
            return (frozenset(), C)
        if isinstance(e, ast.Starred):
            return self.al2(e.value, env)
        if isinstance(e, ast.IfExp):
            a1, c1 = self.al2(e.body, env)
            a2, c2 = self.al2(e.orelse, env)
            return (a1 | a2, c1 | c2)
        if isinstance(e, ast.BoolOp):
            A, C = frozenset(), frozenset()
            for x in e.values:
                a, c = self.al2(x, env)
                A |= a
                C |= c
            return (A, C)
        if isinstance(e, ast.NamedExpr):
            return self.al2(e.value, env)
        if isinstance(e, ast.Call):
            f = e.func
            name = ast.unparse(f)
            if isinstance(f, ast.Attribute) and f.attr in VIEW_METHODS:
                A, C = self.al2(f.value, env)
                return (A | C, C) if f.attr in ('get', '__getitem__') else (A, C)
            if name in ALIAS_FUNCS:
                A, C = frozenset(), frozenset()
                for x in e.args:
                    a, c = self.al2(x, env)
                    A |= a
                    C |= c
                return (A, C)
            return E
        return E

    def al(self, e, env):
        return self.al2(e, env)[0]

    def callee_of(self, f):
        if isinstance(f, ast.Name) and f.id in self.defs:
            return f.id
        if isinstance(f, ast.Attribute) and isinstance(f.value, ast.Name) and f.value.id == 'EoN' and f.attr in self.defs:
            return f.attr
        return None

    def mutate(self, roots, lineno, what):
        for r in roots:
            self.sum.mutates.setdefault(r, []).append((lineno, what))

    # ---------------------------------------------------------------- effects inside expressions
    def effects(self, e, env):
        for x in ast.walk(e):
            if isinstance(x, ast.Call):
                self.call_effects(x, env)
            elif isinstance(x, ast.Subscript) and isinstance(x.ctx, ast.Load):
                if isinstance(x.value, ast.Name) and x.value.id in DEFAULTDICT_PARAMS:
                    roots = env.get(x.value.id, (frozenset(), frozenset()))[0]
                    if x.value.id in roots:
                        self.mutate([x.value.id], x.lineno, 'subscript read `%s` of a possibly-default dict inserts the missing key' % ast.unparse(x))
            elif isinstance(x, (ast.Lambda,)):
                pass

    def call_effects(self, c, env):
        f = c.func
        name = ast.unparse(f)
        if isinstance(f, ast.Attribute) and f.attr in MUT_METHODS:
            roots = self.al(f.value, env)
            if roots:
                self.mutate(roots, c.lineno, 'mutating method call `%s`' % ast.unparse(c)[:80])
        if name in MUT_LIB:
            for i in MUT_LIB[name]:
                if i < len(c.args):
                    roots = self.al(c.args[i], env)
                    if roots:
                        self.mutate(roots, c.lineno, 'mutating library call `%s`' % name)
        callee = self.callee_of(f)
        if callee is not None and callee in self.summaries:
            cs = self.summaries[callee]
            cfn = self.defs[callee][1]
            pos = [x.arg for x in cfn.args.posonlyargs + cfn.args.args]
            bound = {}
            for i, a in enumerate(c.args):
                if isinstance(a, ast.Starred):
                    continue
                if i < len(pos):
                    bound[pos[i]] = a
            for k in c.keywords:
                if k.arg is not None:
                    bound[k.arg] = k.value
            for p, sites in cs.mutates.items():
                if p in bound:
                    roots = self.al(bound[p], env)
                    if roots:
                        self.mutate(roots, c.lineno, 'passed as `%s` to %s, which modifies it (%s)' % (p, callee, sites[0][1][:60]))

    # ---------------------------------------------------------------- statements
    def block(self, stmts, env):
        for s in stmts:
            self.stmt(s, env)

    def assign_target(self, t, roots, env):
        if isinstance(t, ast.Name):
            env[t.id] = roots
        elif isinstance(t, (ast.Tuple, ast.List)):
            for x in t.elts:
                self.assign_target(x, roots, env)
        elif isinstance(t, ast.Starred):
            self.assign_target(t.value, roots, env)
        elif isinstance(t, (ast.Subscript, ast.Attribute)):
            base = self.al(t.value, env)
            if base:
                self.mutate(base, t.lineno, 'store `%s = ...`' % ast.unparse(t)[:60])

    def stmt(self, s, env):
        if isinstance(s, (ast.FunctionDef, ast.AsyncFunctionDef)):
            inner = dict(env)
            for p in params_of(s):
                inner[p] = (frozenset(), frozenset())
            self.block(s.body, inner)
            return
        if isinstance(s, ast.Assign):
            self.effects(s.value, env)
            roots = self.al2(s.value, env)
            for t in s.targets:
                if isinstance(t, (ast.Subscript, ast.Attribute)):
                    self.effects(t, env) if False else None
                self.assign_target(t, roots, env)
            return
        if isinstance(s, ast.AnnAssign):
            if s.value is not None:
                self.effects(s.value, env)
                self.assign_target(s.target, self.al2(s.value, env), env)
            return
        if isinstance(s, ast.AugAssign):
            self.effects(s.value, env)
            t = s.target
            if isinstance(t, ast.Name):
                roots = env.get(t.id, (frozenset(), frozenset()))[0]
                if roots:
                    arr = [r for r in roots if r in self.arraylike]
                    if arr:
                        # in-place operator on a numpy array / list that is (a view of) a parameter
                        self.mutate(arr, s.lineno, 'in-place operator `%s` on an array-like parameter' % ast.unparse(s)[:60])
                    else:
                        self.sum.augassign_sites.append((s.lineno, ast.unparse(s)[:60], sorted(roots)))
                return
            base = self.al(t.value, env)
            if base:
                self.mutate(base, s.lineno, 'augmented store `%s`' % ast.unparse(s)[:60])
            return
        if isinstance(s, ast.Delete):
            for t in s.targets:
                if isinstance(t, (ast.Subscript, ast.Attribute)):
                    base = self.al(t.value, env)
                    if base:
                        self.mutate(base, s.lineno, 'del `%s`' % ast.unparse(t)[:60])
            return
        if isinstance(s, ast.Expr):
            self.effects(s.value, env)
            return
        if isinstance(s, ast.Return):
            if s.value is not None:
                self.effects(s.value, env)
            return
        if isinstance(s, ast.If):
            self.effects(s.test, env)
            e1, e2 = dict(env), dict(env)
            self.block(s.body, e1)
            self.block(s.orelse, e2)
            self.join(env, e1, e2)
            return
        if isinstance(s, (ast.For, ast.AsyncFor)):
            self.effects(s.iter, env)
            for _ in range(2):
                e1 = dict(env)
                A, C = self.al2(s.iter, env)
                self.assign_target(s.target, (A | C, C), e1)
                self.block(s.body, e1)
                self.join(env, env, e1)
            self.block(s.orelse, env)
            return
        if isinstance(s, ast.While):
            for _ in range(2):
                self.effects(s.test, env)
                e1 = dict(env)
                self.block(s.body, e1)
                self.join(env, env, e1)
            self.block(s.orelse, env)
            return
        if isinstance(s, ast.Try):
            self.block(s.body, env)
            for h in s.handlers:
                e1 = dict(env)
                self.block(h.body, e1)
                self.join(env, env, e1)
            self.block(s.orelse, env)
            self.block(s.finalbody, env)
            return
        if isinstance(s, ast.With):
            for it in s.items:
                self.effects(it.context_expr, env)
            self.block(s.body, env)
            return
        if isinstance(s, (ast.Raise, ast.Assert)):
            for x in ast.iter_child_nodes(s):
                if isinstance(x, ast.expr):
                    self.effects(x, env)
            return
        # Pass, Break, Continue, Import, Global ...

    def join(self, out, a, b):
        keys = set(a) | set(b)
        res = {}
        E = (frozenset(), frozenset())
        for k in keys:
            x, y = a.get(k, E), b.get(k, E)
            res[k] = (x[0] | y[0], x[1] | y[1])
        out.clear()
        out.update(res)


def analyze_all():
    defs = {}
    for rel in FILES:
        src, tree = Source.get(rel)
        for n in tree.body:
            if isinstance(n, ast.FunctionDef):
                defs[n.name] = (rel, n)
    summaries = {name: Summary() for name in defs}
    for _ in range(6):
        changed = False
        for name, (rel, fn) in defs.items():
            s = Analyzer(defs, summaries).analyze(fn)
            if set(s.mutates) != set(summaries[name].mutates):
                changed = True
            summaries[name] = s
        if not changed:
            break
    return defs, summaries


def obligations():
    defs, summaries = analyze_all()
    out = []
    aug = []
    for name, (rel, fn) in sorted(defs.items()):
        if name.startswith('_'):
            continue
        s = summaries[name]
        for p in params_of(fn):
            sites = s.mutates.get(p)
            oid = 'frame:%s:%s' % (name, p)
            out.append(Ob(oid, '%s:%s' % (rel, name), 'frame', 'refuted' if sites else 'discharged',
                          backend='frame / may-alias analysis over the AST with callee summaries (all inputs)', seconds=0.0,
                          detail='; '.join('line %d: %s' % x for x in (sites or [])[:4]),
                          site='%s:%s line %d' % (rel, name, (sites[0][0] if sites else fn.lineno)),
                          witness=dict(parameter=p, sites=[dict(line=l, what=w) for l, w in (sites or [])[:6]]) if sites else None,
                          replay_note='flow analysis: parameter %s %s' % (p, 'may be modified' if sites else 'is never modified'), engine='E2'))
        for l, txt, roots in s.augassign_sites:
            aug.append('%s line %d `%s` (aliases %s)' % (name, l, txt, ','.join(roots)))
    return out, aug


def rhs_obligations():
    """the right-hand-side functions handed to odeint (_d*_) must not write into the state vector they are given
    (the odeint contract assumes a pure dfunc).  `.shape = ...` on a slice VIEW of the state only reshapes the view
    object and is not a data mutation."""
    defs, summaries = analyze_all()
    out = []
    for name, (rel, fn) in sorted(defs.items()):
        if not (name.startswith('_d') and name.endswith('_')):
            continue
        # the state vector AND every extra argument (they are the caller's objects handed through odeint's `args`: degree arrays,
        # rate functions, index maps ...) are only read
        for i, p0 in enumerate(params_of(fn)):
            sites = [(l, w) for (l, w) in summaries[name].mutates.get(p0, []) if '.shape = ' not in w]
            out.append(Ob('frame-rhs:%s:%s' % (name, p0), '%s:%s' % (rel, name), 'frame', 'refuted' if sites else 'discharged',
                          backend='frame / may-alias analysis over the AST (all inputs)', seconds=0.0,
                          detail='; '.join('line %d: %s' % x for x in sites[:3]), site='%s:%s line %d' % (rel, name, sites[0][0] if sites else fn.lineno),
                          witness=dict(parameter=p0, sites=[dict(line=l, what=w) for l, w in sites[:5]]) if sites else None, engine='E2',
                          replay_note='flow analysis: %s %s' % ('state vector' if i == 0 else 'argument ' + p0, 'may be written' if sites else 'is only read')))
    return out


if __name__ == '__main__':
    for o in rhs_obligations():
        if o.status != 'discharged':
            print(o.id, '|', o.detail[:300])
    obs, aug = obligations()
    for o in obs:
        if o.status != 'discharged':
            print(o.id, '|', o.detail[:300])
    print(len(obs), 'frame obligations;', len(aug), 'augmented assignments on parameter aliases:')
    for a in aug:
        print('   ', a)
