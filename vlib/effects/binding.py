"""E2 delegation-binding analysis (DESIGN 3.2): every internal call site of the repository is bound onto the
callee's CURRENT signature by Python's rules and checked against the forwarding contract

    a wrapper parameter named one of FWD reaches the callee parameter of the SAME name, unchanged, and is not dropped

plus well-formedness of the binding (arity, unknown/duplicate keywords) and "a wrapper parameter passed positionally
does not land on a differently named callee parameter when the callee has a parameter of that name".
Decided for all inputs (it is a statement about the program text); one obligation per call site."""
import ast
import os
import time
from ..common import Ob
from ..pyvc.verify import Source

FILES = {'simulation': 'EoN/simulation.py', 'analytic': 'EoN/analytic.py', 'auxiliary': 'EoN/auxiliary.py'}
FWD = ('initial_infecteds', 'initial_recovereds', 'rho', 'tmin', 'tmax', 'tcount', 'return_full_data', 'sim_kwargs',
       'transmission_weight', 'recovery_weight', 'nodelist', 'tau', 'gamma', 'SIR', 'trans_time_args', 'rec_time_args',
       'xi', 'zeta', 'transmission', 'weights', 'p', 'spont_kwargs', 'nbr_kwargs', 'IC', 'return_statuses')
# G is deliberately not in FWD: percolation_based_discrete_SIR / get_infected_nodes pass the percolated graph H
# forwarding that is intentionally different (documented in the code)
ALLOWED = {
    # (caller, callee, callee-param): reason
}


def all_defs():
    defs = {}
    for key, rel in FILES.items():
        src, tree = Source.get(rel)
        for n in tree.body:
            if isinstance(n, ast.FunctionDef):
                defs[n.name] = (rel, n)
    return defs


def sig(fn):
    a = fn.args
    pos = [x.arg for x in a.posonlyargs + a.args]
    kwo = [x.arg for x in a.kwonlyargs]
    ndef = len(a.defaults)
    required = pos[:len(pos) - ndef] + [x.arg for x, d in zip(a.kwonlyargs, a.kw_defaults) if d is None]
    return pos, kwo, a.vararg is not None, a.kwarg is not None, required


def rebinds(fn, name):
    """names to which the wrapper re-assigns a normalised form of its own parameter (x = set(x), x = [x] ...)"""
    for n in ast.walk(fn):
        if isinstance(n, ast.Assign):
            for t in n.targets:
                if isinstance(t, ast.Name) and t.id == name:
                    return True
    return False


def check_site(caller, call, callee_name, callee):
    problems = []
    pos, kwo, has_var, has_kw, required = sig(callee)
    own = set(sig(caller)[0] + sig(caller)[1])
    bind = {}
    star = any(isinstance(a, ast.Starred) for a in call.args)
    dstar = [k for k in call.keywords if k.arg is None]
    if not star:
        for i, a in enumerate(call.args):
            if i < len(pos):
                bind[pos[i]] = ('pos', a)
            elif not has_var:
                problems.append('too many positional arguments (%d > %d)' % (len(call.args), len(pos)))
                break
    for k in call.keywords:
        if k.arg is None:
            continue
        if k.arg in bind:
            problems.append('parameter %s bound twice (positionally and by keyword)' % k.arg)
        if k.arg not in pos + kwo and not has_kw:
            problems.append('unknown keyword %s' % k.arg)
        bind[k.arg] = ('kw', k.value)
    if not star and not dstar:
        for p in required:
            if p not in bind:
                problems.append('required parameter %s not supplied' % p)
    for p, (how, a) in bind.items():
        if isinstance(a, ast.Name) and a.id in own and a.id != p and a.id in pos + kwo and how == 'pos' and a.id in FWD:
            problems.append('wrapper parameter %s is passed positionally into callee parameter %s although the callee has a parameter %s'
                            % (a.id, p, a.id))
        if p in own and p in FWD and (caller.name, callee_name, p) not in ALLOWED:
            if not (isinstance(a, ast.Name) and a.id == p):
                problems.append('callee parameter %s receives `%s` instead of the wrapper parameter %s' % (p, ast.unparse(a), p))
    if not dstar and not star:
        for p in own:
            if p in FWD and p in pos + kwo and p not in bind and (caller.name, callee_name, p) not in ALLOWED:
                problems.append('wrapper parameter %s is not forwarded (callee has a parameter of that name)' % p)
    for k in dstar:
        # **name : name must not be None-able without a guard
        if isinstance(k.value, ast.Name):
            nm = k.value.id
            guarded = False
            for n in ast.walk(caller):
                if isinstance(n, ast.If) and isinstance(n.test, ast.Compare) and ast.unparse(n.test) in ('%s is None' % nm,):
                    guarded = True
            default_none = False
            a = caller.args
            names = [x.arg for x in a.posonlyargs + a.args]
            for nmx, d in zip(names[len(names) - len(a.defaults):], a.defaults):
                if nmx == nm and isinstance(d, ast.Constant) and d.value is None:
                    default_none = True
            if default_none and not guarded:
                problems.append('**%s is expanded although %s defaults to None and is never replaced by {}' % (nm, nm))
    return problems


def obligations(only=None):
    t0 = time.time()
    defs = all_defs()
    out = []
    for key, rel in FILES.items():
        if only is not None and key not in only:
            continue
        src, tree = Source.get(rel)
        for fn in [n for n in tree.body if isinstance(n, ast.FunctionDef)]:
            counter = {}
            for call in [c for c in ast.walk(fn) if isinstance(c, ast.Call)]:
                f = call.func
                name = None
                if isinstance(f, ast.Name) and f.id in defs:
                    name = f.id
                elif isinstance(f, ast.Attribute) and isinstance(f.value, ast.Name) and f.value.id == 'EoN' and f.attr in defs:
                    name = f.attr
                if name is None or name == fn.name:
                    continue
                k = counter.get(name, 0)
                counter[name] = k + 1
                probs = check_site(fn, call, name, defs[name][1])
                oid = 'binding:%s->%s#%d' % (fn.name, name, k)
                out.append(Ob(oid, '%s:%s' % (rel, fn.name), 'binding', 'refuted' if probs else 'discharged',
                              backend='delegation-binding analysis over the AST (all inputs)', seconds=0.0,
                              detail='; '.join(probs), site='%s:%s line %d' % (rel, fn.name, call.lineno),
                              witness=dict(call=ast.unparse(call)[:300], problems=probs) if probs else None,
                              replay_note='flow analysis: %s' % ('; '.join(probs) if probs else 'binds as contracted'), engine='E2'))
    return out


if __name__ == '__main__':
    for o in obligations():
        if o.status != 'discharged':
            print(o.id, o.site, o.detail)
    print(len(obligations()), 'call sites')


def ctor_obligations():
    """every `EoN.Simulation_Investigation(...)` call in simulation.py binds, on the constructor's CURRENT signature,
    G to the contact network, node_history to the local of that name and transmissions to the recorded list
    (Gillespie_complex_contagion has no single-neighbour transmissions by design and is the only allowed omission)"""
    src, tree = Source.get('EoN/simulation.py')
    isrc, itree = Source.get('EoN/simulation_investigation.py')
    init = None
    for n in itree.body:
        if isinstance(n, ast.ClassDef) and n.name == 'Simulation_Investigation':
            for m in n.body:
                if isinstance(m, ast.FunctionDef) and m.name == '__init__':
                    init = m
    out = []
    if init is None:
        return [Ob('ctor-binding:Simulation_Investigation', 'EoN/simulation_investigation.py:Simulation_Investigation.__init__', 'binding', 'undecided',
                   'delegation-binding analysis', 0.0, replay_note='constructor not found')]
    pos = [a.arg for a in init.args.args][1:]
    for fn in [n for n in tree.body if isinstance(n, ast.FunctionDef)]:
        k = 0
        for call in [c for c in ast.walk(fn) if isinstance(c, ast.Call) and ast.unparse(c.func) in ('EoN.Simulation_Investigation', 'Simulation_Investigation')]:
            bind = {}
            probs = []
            for i, a in enumerate(call.args):
                if i < len(pos):
                    bind[pos[i]] = a
                else:
                    probs.append('too many positional arguments')
            for kw in call.keywords:
                if kw.arg is None:
                    continue
                if kw.arg in bind:
                    probs.append('%s bound twice' % kw.arg)
                if kw.arg not in pos:
                    probs.append('unknown keyword %s' % kw.arg)
                bind[kw.arg] = kw.value
            want = {'G': ('G', 'H'), 'node_history': ('node_history',), 'transmissions': ('transmissions',)}
            for p, names in want.items():
                if p not in bind:
                    if p == 'transmissions' and fn.name == 'Gillespie_complex_contagion':
                        continue
                    probs.append('constructor parameter %s is not supplied' % p)
                elif not (isinstance(bind[p], ast.Name) and bind[p].id in names):
                    probs.append('constructor parameter %s receives `%s`' % (p, ast.unparse(bind[p])))
            if 'possible_statuses' not in bind:
                probs.append('possible_statuses not supplied')
            out.append(Ob('ctor-binding:%s#%d' % (fn.name, k), 'EoN/simulation.py:%s' % fn.name, 'binding', 'refuted' if probs else 'discharged',
                          backend='delegation-binding analysis over the AST (all inputs)', seconds=0.0, detail='; '.join(probs),
                          site='EoN/simulation.py:%s line %d' % (fn.name, call.lineno), witness=dict(call=ast.unparse(call)[:200], problems=probs) if probs else None,
                          engine='E2', replay_note='flow analysis: %s' % ('; '.join(probs) or 'binds as contracted')))
            k += 1
    return out
