"""E2 opacity analysis (DESIGN 3.2, C14): node labels are opaque hashables - they may be compared for equality, hashed
into dicts/sets and passed to call-backs, but never used as a position in an array.  For every function of
EoN/analytic.py: a name bound by iterating over nodes (G, G.nodes(), nodelist, G.neighbors(.), G.edges(), initial sets)
must not subscript an array-typed value (numpy constructor results, slices / arithmetic of arrays, the state vector
of a right-hand side).  A function that passes can only use equality and hashing of node labels, so a bijective
relabelling commutes with it (parametricity); iteration ORDER is covered by the bounded relational check."""
import ast
from ..common import Ob
from ..pyvc.verify import Source

F = 'EoN/analytic.py'
NODE_ITER_CALLS = ('neighbors', 'nodes', 'successors', 'predecessors')
NODE_ITER_NAMES = ('nodelist', 'G', 'initial_infecteds', 'initial_recovereds')
ARRAY_PARAMS = ('Y', 'X', 'V', 'Y0', 'X0', 'XY', 'XX', 'XY0', 'XX0', 'YX', 'dY', 'dX', 'dXY', 'dXX', 'Xinv', 'Yinv')


def node_names(fn):
    out = set()

    def iter_is_nodes(it):
        if isinstance(it, ast.Name) and it.id in NODE_ITER_NAMES:
            return 'node'
        if isinstance(it, ast.Call) and isinstance(it.func, ast.Attribute):
            if it.func.attr in NODE_ITER_CALLS:
                return 'node'
            if it.func.attr == 'edges':
                return 'edge'
        if isinstance(it, ast.Call) and ast.unparse(it.func) in ('enumerate',) and it.args:
            k = iter_is_nodes(it.args[0])
            return ('enum-' + k) if k else None
        if isinstance(it, ast.Call) and ast.unparse(it.func) == 'zip' and it.args:
            k = iter_is_nodes(it.args[0])
            return ('zip-' + k) if k else None
        return None

    def bind(target, kind):
        if kind == 'node' and isinstance(target, ast.Name):
            out.add(target.id)
        elif kind == 'edge' and isinstance(target, ast.Tuple):
            for e in target.elts:
                if isinstance(e, ast.Name):
                    out.add(e.id)
        elif kind and kind.startswith('enum-') and isinstance(target, ast.Tuple) and len(target.elts) == 2:
            bind(target.elts[1], kind[5:])
        elif kind and kind.startswith('zip-') and isinstance(target, ast.Tuple) and target.elts:
            bind(target.elts[0], kind[4:])
    for x in ast.walk(fn):
        if isinstance(x, ast.For):
            bind(x.target, iter_is_nodes(x.iter))
        if isinstance(x, ast.comprehension):
            bind(x.target, iter_is_nodes(x.iter))
    return out


def array_names(fn):
    arr = set(a.arg for a in fn.args.args if a.arg in ARRAY_PARAMS)
    if fn.name.startswith('_d') and fn.args.args:
        arr.add(fn.args.args[0].arg)
    for _ in range(3):
        for x in ast.walk(fn):
            if isinstance(x, ast.Assign):
                v = x.value
                is_arr = False
                if isinstance(v, ast.Call) and ast.unparse(v.func).startswith(('np.', 'numpy.')):
                    is_arr = True
                if isinstance(v, ast.Subscript) and isinstance(v.value, ast.Name) and v.value.id in arr:
                    is_arr = True
                if isinstance(v, ast.Attribute) and isinstance(v.value, ast.Name) and v.value.id in arr:
                    is_arr = True
                if isinstance(v, ast.BinOp) and any(isinstance(s, ast.Name) and s.id in arr for s in ast.walk(v)):
                    is_arr = True
                if is_arr:
                    for t in x.targets:
                        if isinstance(t, ast.Name):
                            arr.add(t.id)
                        if isinstance(t, ast.Tuple):
                            for e in t.elts:
                                if isinstance(e, ast.Name):
                                    arr.add(e.id)
    return arr


def obligations():
    src, tree = Source.get(F)
    out = []
    for fn in [n for n in tree.body if isinstance(n, ast.FunctionDef)]:
        nodes, arrs = node_names(fn), array_names(fn)
        bad = []
        for x in ast.walk(fn):
            if isinstance(x, ast.Subscript) and isinstance(x.value, ast.Name) and x.value.id in arrs:
                idx = x.slice
                parts = idx.elts if isinstance(idx, ast.Tuple) else [idx]
                for p in parts:
                    if isinstance(p, ast.Name) and p.id in nodes:
                        bad.append('line %d: node label `%s` used as an index of the array `%s`' % (x.lineno, p.id, x.value.id))
        out.append(Ob('opacity:%s' % fn.name, '%s:%s' % (F, fn.name), 'typing', 'refuted' if bad else 'discharged',
                      backend='opacity (node labels are not array positions) analysis over the AST (all inputs)', seconds=0.0,
                      detail='; '.join(sorted(set(bad))[:4]), site='%s:%s line %d' % (F, fn.name, fn.lineno),
                      witness=dict(sites=sorted(set(bad))) if bad else None, engine='E2',
                      replay_note='flow analysis: %s' % ('node label indexes an array' if bad else 'node labels only hashed / compared')))
    return out


if __name__ == '__main__':
    for o in obligations():
        if o.status != 'discharged':
            print(o.id, '|', o.detail)
    print(len(obligations()))
