"""E2 definite-assignment (never-bound names) analysis: a name that is loaded in a function but bound nowhere
(no assignment, parameter, import, def, comprehension/loop target, module-level name or builtin) raises NameError
whenever that line is executed.  One obligation per function of the scanned modules ("accepted rather than crashing")."""
import ast
import builtins
from ..common import Ob
from ..pyvc.verify import Source

FILES = ['EoN/analytic.py', 'EoN/simulation.py', 'EoN/auxiliary.py', 'EoN/simulation_investigation.py']


def module_names(tree):
    names = set(dir(builtins))
    for n in tree.body:
        if isinstance(n, (ast.FunctionDef, ast.ClassDef)):
            names.add(n.name)
        elif isinstance(n, (ast.Import, ast.ImportFrom)):
            for a in n.names:
                names.add((a.asname or a.name).split('.')[0])
        elif isinstance(n, ast.Assign):
            for x in ast.walk(n):
                if isinstance(x, ast.Name) and isinstance(x.ctx, ast.Store):
                    names.add(x.id)
    return names


def bound_in(fn):
    local = set()
    a = fn.args
    for x in a.posonlyargs + a.args + a.kwonlyargs:
        local.add(x.arg)
    if a.vararg:
        local.add(a.vararg.arg)
    if a.kwarg:
        local.add(a.kwarg.arg)
    for x in ast.walk(fn):
        if isinstance(x, ast.Name) and isinstance(x.ctx, (ast.Store, ast.Del)):
            local.add(x.id)
        if isinstance(x, (ast.FunctionDef, ast.ClassDef)) and x is not fn:
            local.add(x.name)
        if isinstance(x, ast.ExceptHandler) and x.name:
            local.add(x.name)
        if isinstance(x, (ast.Import, ast.ImportFrom)):
            for al in x.names:
                local.add((al.asname or al.name).split('.')[0])
        if isinstance(x, ast.arg):
            local.add(x.arg)
    return local


def obligations(files=None):
    out = []
    for rel in files or FILES:
        src, tree = Source.get(rel)
        mod = module_names(tree)
        fns = []
        for n in tree.body:
            if isinstance(n, ast.FunctionDef):
                fns.append((n.name, n))
            elif isinstance(n, ast.ClassDef):
                for m in ast.walk(n):
                    if isinstance(m, ast.FunctionDef):
                        fns.append(('%s.%s' % (n.name, m.name), m))
        for name, fn in fns:
            local = bound_in(fn)
            bad = []
            for x in ast.walk(fn):
                if isinstance(x, ast.Name) and isinstance(x.ctx, ast.Load) and x.id not in local and x.id not in mod:
                    bad.append((x.lineno, x.id))
            bad = sorted(set(bad))
            out.append(Ob('names-bound:%s:%s' % (rel.split('/')[-1], name), '%s:%s' % (rel, name), 'safety',
                          'refuted' if bad else 'discharged', backend='never-bound-name analysis over the AST (all inputs)', seconds=0.0,
                          detail='; '.join('line %d: name `%s` is never bound' % b for b in bad[:5]),
                          site='%s:%s line %d' % (rel, name, bad[0][0] if bad else fn.lineno),
                          witness=dict(names=[dict(line=l, name=nm) for l, nm in bad]) if bad else None, engine='E2',
                          replay_note='flow analysis: %s' % ('NameError when the line is reached' if bad else 'every loaded name is bound somewhere')))
    return out


if __name__ == '__main__':
    for o in obligations():
        if o.status != 'discharged':
            print(o.id, '|', o.detail)
