"""E2 determinism / non-interference analysis (DESIGN 3.2, property C18) over EoN/simulation.py.

(i)   sources of nondeterminism are exactly calls into `random` and `np.random` (no time/os/uuid/id/hash/secrets,
      no re-seeding, no private Random instances)
(ii)  no global / nonlocal statements and no mutation of module-level objects: repeated calls start from the same state
(iii) in every continuous-time simulator (and everything it calls) no draw site is control-dependent on return_full_data
(iv)  in the same functions every loop with an order-sensitive effect (draw, append, insertion into a candidate set,
      queue insertion, user call-back) iterates a list / dict / G.neighbors / sorted(...) -- never a set
One obligation per (function, clause); decided for all inputs (statements about the program text)."""
import ast
from ..common import Ob
from ..pyvc.verify import Source

F = 'EoN/simulation.py'
CONTINUOUS = ['fast_SIR', 'fast_nonMarkov_SIR', 'fast_SIS', 'fast_nonMarkov_SIS', 'Gillespie_SIR', 'Gillespie_SIS',
              'Gillespie_simple_contagion', 'Gillespie_complex_contagion', 'Gillespie_Arbitrary']
BANNED_MODULES = {'time', 'os', 'uuid', 'secrets', 'datetime', 'socket', 'threading', 'multiprocessing'}
BANNED_CALLS = {'id', 'hash', 'random.seed', 'np.random.seed', 'numpy.random.seed', 'random.Random', 'random.SystemRandom',
                'np.random.RandomState', 'np.random.default_rng', 'random.setstate', 'np.random.set_state', 'input'}
BANNED_ATTRS = {'default_rng', 'RandomState', 'SystemRandom', 'Generator', 'urandom', 'getrandbits', 'token_bytes', 'perf_counter', 'time_ns', 'getpid'}
RNG_METHODS = {'random', 'choice', 'choices', 'sample', 'expovariate', 'uniform', 'randint', 'randrange', 'shuffle', 'gauss', 'normalvariate', 'betavariate',
               'gammavariate', 'binomial', 'geometric', 'integers', 'normal', 'exponential', 'poisson', 'permutation', 'rand', 'randn', 'random_sample',
               'multinomial', 'standard_normal', 'triangular', 'weibullvariate', 'paretovariate', 'lognormvariate', 'vonmisesvariate', 'bytes'}
NON_RNG_RECEIVERS = set()
DRAWS = ('random.', 'np.random.', 'numpy.random.')
ORDER_SENSITIVE_METHODS = {'append', 'add', 'insert', 'update', 'remove', 'pop', 'random_removal', 'choose_random', 'extend'}


def functions():
    src, tree = Source.get(F)
    out = {}
    for n in tree.body:
        if isinstance(n, ast.FunctionDef):
            out[n.name] = n
        elif isinstance(n, ast.ClassDef):
            for m in n.body:
                if isinstance(m, ast.FunctionDef):
                    out['%s.%s' % (n.name, m.name)] = m
    return tree, out


def module_level_names(tree):
    names = {}
    for n in tree.body:
        if isinstance(n, ast.Assign):
            for t in n.targets:
                if isinstance(t, ast.Name):
                    names[t.id] = n.value
    return names


def callees(fn, fns):
    out = set()
    for c in ast.walk(fn):
        if isinstance(c, ast.Call):
            f = c.func
            if isinstance(f, ast.Name) and f.id in fns:
                out.add(f.id)
            if isinstance(f, ast.Name) and f.id in ('_ListDict_', 'myQueue'):
                out |= {k for k in fns if k.startswith(f.id + '.')}
        if isinstance(c, ast.Name) and c.id in fns and isinstance(c.ctx, ast.Load):
            out.add(c.id)            # handlers passed as values (queued events, default arguments)
    return out


def closure(roots, fns):
    seen = set()
    todo = list(roots)
    while todo:
        x = todo.pop()
        if x in seen or x not in fns:
            continue
        seen.add(x)
        todo += list(callees(fns[x], fns))
    return seen


def is_draw(c):
    if not isinstance(c, ast.Call):
        return False
    nm = ast.unparse(c.func)
    return nm.startswith(DRAWS)


def set_valued_names(fn):
    """names assigned a set-valued expression somewhere in the function"""
    out = set()

    def is_set_expr(e):
        if isinstance(e, (ast.Set, ast.SetComp)):
            return True
        if isinstance(e, ast.Call):
            nm = ast.unparse(e.func)
            if nm in ('set', 'frozenset'):
                return True
            if isinstance(e.func, ast.Attribute) and e.func.attr in ('union', 'intersection', 'difference', 'symmetric_difference'):
                return True
            # a sequence built from a set inherits the set's (hash-dependent) order; sorted(...) does not
            if nm in ('list', 'tuple', 'iter', 'reversed', 'enumerate', 'np.array', 'numpy.array', 'np.asarray', 'deque', 'collections.deque') and e.args and is_set_expr(e.args[0]):
                return True
            if nm == 'zip' and any(is_set_expr(a) for a in e.args):
                return True
        if isinstance(e, (ast.ListComp, ast.GeneratorExp)) and any(is_set_expr(g.iter) for g in e.generators):
            return True
        if isinstance(e, ast.IfExp):
            return is_set_expr(e.body) or is_set_expr(e.orelse)
        if isinstance(e, ast.BinOp) and isinstance(e.op, (ast.BitOr, ast.BitAnd, ast.Sub, ast.BitXor)) and (is_set_expr(e.left) or is_set_expr(e.right)):
            return True
        if isinstance(e, ast.Name):
            return e.id in out
        return False
    for _ in range(4):
        for n in ast.walk(fn):
            if isinstance(n, ast.Assign) and is_set_expr(n.value):
                for t in n.targets:
                    if isinstance(t, ast.Name):
                        out.add(t.id)
    return out, is_set_expr


def order_sensitive(body_nodes):
    for top in body_nodes:
        for x in ast.walk(top):
            if isinstance(x, ast.Call):
                if is_draw(x):
                    return 'draw `%s`' % ast.unparse(x)[:60]
                f = x.func
                if isinstance(f, ast.Attribute) and f.attr in ORDER_SENSITIVE_METHODS:
                    return 'order-sensitive call `%s`' % ast.unparse(x)[:60]
                if isinstance(f, ast.Name) and f.id not in ('len', 'int', 'float', 'round', 'min', 'max', 'abs', 'print', 'sum', 'range',
                                                            'list', 'set', 'tuple', 'sorted', 'enumerate', 'zip', 'isinstance'):
                    return 'call `%s` (user call-back or simulator function)' % ast.unparse(x)[:60]
    return None


def obligations():
    tree, fns = functions()
    modnames = module_level_names(tree)
    out = []
    backend = 'determinism / non-interference analysis over the AST (all inputs)'

    def ob(oid, fn, ok, detail, line=0):
        out.append(Ob(oid, '%s:%s' % (F, fn), 'determinism', 'discharged' if ok else 'refuted', backend, 0.0,
                      detail=detail, site='%s:%s line %d' % (F, fn, line), witness=None if ok else dict(detail=detail),
                      replay_note='flow analysis: %s' % (detail or 'clause holds'), engine='E2'))

    # (i) + (ii) for every function of the module
    def banned_in(node):
        bad, line = [], getattr(node, 'lineno', 0)
        for x in ast.walk(node):
            if isinstance(x, ast.Call):
                nm = ast.unparse(x.func)
                root = nm.split('.')[0]
                recv = nm.rsplit('.', 1)[0] if '.' in nm else ''
                if root in BANNED_MODULES or nm in BANNED_CALLS or nm.split('.')[-1] in BANNED_ATTRS:
                    bad.append('line %d: `%s`' % (x.lineno, ast.unparse(x)[:60]))
                    line = x.lineno
                elif isinstance(x.func, ast.Attribute) and x.func.attr in RNG_METHODS and recv not in ('random', 'np.random', 'numpy.random') \
                        and not (x.func.attr in ('choice', 'sample', 'random') and recv in NON_RNG_RECEIVERS):
                    bad.append('line %d: `%s` draws from a generator other than the two seeded module-level ones' % (x.lineno, ast.unparse(x)[:60]))
                    line = x.lineno
        return bad, line
    top = ast.Module(body=[n for n in tree.body if not isinstance(n, (ast.FunctionDef, ast.ClassDef))], type_ignores=[])
    bad, line = banned_in(top)
    for n in tree.body:
        if isinstance(n, ast.ClassDef):
            b2, l2 = banned_in(ast.Module(body=[m for m in n.body if not isinstance(m, ast.FunctionDef)], type_ignores=[]))
            bad += b2
    ob('nondet-sources:<module level>', '<module>', not bad, '; '.join(bad), line)
    for name, fn in sorted(fns.items()):
        bad, line = banned_in(fn)
        ob('nondet-sources:%s' % name, name, not bad, '; '.join(bad), line)
        bad = []
        for x in ast.walk(fn):
            if isinstance(x, (ast.Global, ast.Nonlocal)):
                bad.append('line %d: %s' % (x.lineno, ast.unparse(x)))
            if isinstance(x, (ast.Subscript, ast.Attribute)) and isinstance(x.ctx, (ast.Store, ast.Del)):
                b = x.value
                while isinstance(b, (ast.Subscript, ast.Attribute)):
                    b = b.value
                if isinstance(b, ast.Name) and b.id in modnames and not any(
                        isinstance(y, ast.Name) and isinstance(y.ctx, ast.Store) and y.id == b.id for y in ast.walk(fn)) \
                        and b.id not in [a.arg for a in fn.args.args]:
                    bad.append('line %d: store into module-level object `%s`' % (x.lineno, ast.unparse(x)[:50]))
        ob('no-global-state:%s' % name, name, not bad, '; '.join(bad))
    # class-level mutable attributes are shared by every instance (and every call): state would survive from one simulation to the next
    for n in tree.body:
        if isinstance(n, ast.ClassDef):
            bad = []
            for m in n.body:
                tgts = []
                if isinstance(m, ast.Assign):
                    tgts, val = m.targets, m.value
                elif isinstance(m, ast.AnnAssign) and m.value is not None:
                    tgts, val = [m.target], m.value
                else:
                    continue
                mutable = isinstance(val, (ast.List, ast.Dict, ast.Set, ast.ListComp, ast.DictComp, ast.SetComp)) or (
                    isinstance(val, ast.Call) and ast.unparse(val.func).split('.')[-1] in ('list', 'dict', 'set', 'defaultdict', 'deque', 'Counter', 'OrderedDict', 'array', 'zeros'))
                if mutable:
                    bad.append('line %d: class attribute `%s` of %s is a mutable object shared by all instances' % (m.lineno, ast.unparse(tgts[0]), n.name))
            ob('no-global-state:class %s' % n.name, n.name, not bad, '; '.join(bad), n.lineno)
    # mutable default arguments that are mutated would also carry state between calls
    for name, fn in sorted(fns.items()):
        bad = []
        a = fn.args
        names = [x.arg for x in a.posonlyargs + a.args]
        for nm, d in zip(names[len(names) - len(a.defaults):], a.defaults):
            if isinstance(d, (ast.List, ast.Dict, ast.Set)) or (isinstance(d, ast.Call) and ast.unparse(d.func) in ('list', 'dict', 'set', 'defaultdict')):
                for x in ast.walk(fn):
                    if isinstance(x, ast.Call) and isinstance(x.func, ast.Attribute) and isinstance(x.func.value, ast.Name) \
                            and x.func.value.id == nm and x.func.attr in ORDER_SENSITIVE_METHODS:
                        bad.append('mutable default `%s` is mutated at line %d' % (nm, x.lineno))
                    # ... or escapes: stored in an attribute / container / other name, returned, or handed to a call (whoever receives
                    # it may mutate the one object shared by all calls)
                    if isinstance(x, ast.Assign) and any(isinstance(y, ast.Name) and y.id == nm for y in ast.walk(x.value)) \
                            and not all(isinstance(t, ast.Name) and t.id == nm for t in x.targets):
                        bad.append('mutable default `%s` escapes through the assignment at line %d' % (nm, x.lineno))
                    if isinstance(x, ast.Return) and x.value is not None and any(isinstance(y, ast.Name) and y.id == nm for y in ast.walk(x.value)):
                        bad.append('mutable default `%s` is returned at line %d' % (nm, x.lineno))
                    if isinstance(x, ast.Call) and any(isinstance(a, ast.Name) and a.id == nm for a in list(x.args) + [k.value for k in x.keywords]) \
                            and ast.unparse(x.func) not in ('len', 'isinstance', 'list', 'tuple', 'set', 'dict', 'sorted', 'iter', 'enumerate', 'zip', 'sum', 'min', 'max', 'any', 'all'):
                        bad.append('mutable default `%s` is handed to `%s` at line %d' % (nm, ast.unparse(x.func)[:30], x.lineno))
        ob('no-mutable-default-state:%s' % name, name, not bad, '; '.join(bad))

    # (iii) + (iv) for the continuous-time simulators and everything they reach
    reach = closure([c for c in CONTINUOUS if c in fns], fns)
    for name in sorted(reach):
        fn = fns[name]
        # (iii)
        bad = []

        def walk(nodes, under_flag):
            for s in nodes:
                for child in ast.iter_child_nodes(s):
                    pass
                if isinstance(s, ast.If):
                    flag = under_flag or ('return_full_data' in {y.id for y in ast.walk(s.test) if isinstance(y, ast.Name)})
                    for x in ast.walk(s.test):
                        if is_draw(x) and under_flag:
                            bad.append('line %d: draw in a test under return_full_data' % x.lineno)
                    walk(s.body, flag)
                    walk(s.orelse, flag)
                    continue
                if isinstance(s, (ast.For, ast.While, ast.With, ast.Try)):
                    for fld in ('body', 'orelse', 'finalbody'):
                        walk(getattr(s, fld, []) or [], under_flag)
                    for h in getattr(s, 'handlers', []) or []:
                        walk(h.body, under_flag)
                    if under_flag:
                        hdr = s.iter if isinstance(s, ast.For) else getattr(s, 'test', None)
                        if hdr is not None and any(is_draw(x) for x in ast.walk(hdr)):
                            bad.append('line %d: draw under return_full_data' % s.lineno)
                    continue
                if isinstance(s, ast.FunctionDef):
                    walk(s.body, under_flag)
                    continue
                if under_flag:
                    for x in ast.walk(s):
                        if is_draw(x):
                            bad.append('line %d: `%s` executes only when return_full_data is set' % (x.lineno, ast.unparse(x)[:50]))
        walk(fn.body, False)
        ob('flag-noninterference:%s' % name, name, not bad, '; '.join(bad))
        # (iv)
        bad = []
        setnames, is_set_expr = set_valued_names(fn)
        for x in ast.walk(fn):
            if isinstance(x, ast.For) and is_set_expr(x.iter):
                why = order_sensitive(x.body)
                if why:
                    bad.append('line %d: loop over the set `%s` contains %s' % (x.lineno, ast.unparse(x.iter)[:40], why))
            if isinstance(x, (ast.ListComp, ast.GeneratorExp)):
                for g in x.generators:
                    if is_set_expr(g.iter):
                        bad.append('line %d: comprehension over the set `%s` builds an ordered result' % (x.lineno, ast.unparse(g.iter)[:40]))
            if isinstance(x, ast.Call) and ast.unparse(x.func) in ('random.choice', 'random.sample') and x.args:
                a0 = x.args[0]
                if is_set_expr(a0) or (isinstance(a0, ast.Call) and ast.unparse(a0.func) == 'list' and a0.args and is_set_expr(a0.args[0])):
                    bad.append('line %d: `%s` draws from a set-ordered population' % (x.lineno, ast.unparse(x)[:60]))
        ob('no-set-iteration:%s' % name, name, not bad, '; '.join(bad))
    return out


if __name__ == '__main__':
    obs = obligations()
    for o in obs:
        if o.status != 'discharged':
            print(o.id, '|', o.detail[:300])
    print(len(obs), 'obligations')
