"""C06 (bounded stand-in, E3): every graph-based ODE entry point is run UNMODIFIED on small graphs with the odeint
contract stub and exact symbolic values; checked per entry point:
   accepted      every consistent initial condition is accepted (no exception)
   time-grid     times == linspace(tmin, tmax, tcount)   (discrete EBCM: tmin, tmin+1, ...)
   row0          S, I(, R) at tmin equal the requested initial sets, or ((1-rho)N, rho N, 0)
   conservation  S+I(+R) == N in every row: either identically (closing subtraction) or because the gradient of
                 S+I(+R) w.r.t. the integrated state annihilates the model's own right-hand side (flow argument)
Bounds: the graphs of GRAPHS, tcount = 3; exact in tau, gamma, rho (symbols; rational fallbacks where the code
branches on them)."""
import inspect
import time
import traceback
import numpy as np
import sympy as sp
import networkx as nx
from ..common import Ob
from . import harness as Hn


def graphs(tier):
    gs = []
    G = nx.Graph(); G.add_edges_from([(0, 1), (1, 2), (2, 3), (1, 3), (3, 4)]); gs.append(('tailed-triangle', G))
    G = nx.Graph(); G.add_edges_from([(0, 1), (0, 2), (0, 3)]); G.add_node(4); gs.append(('star+isolated', G))
    G = nx.Graph(); G.add_edges_from([('a', 'b'), ('b', 'c'), ('c', 'd'), ('d', 'a'), ('x', 'y')]); gs.append(('cycle+edge, string labels', G))
    G = nx.Graph(); G.add_edges_from([(0, 1), (1, 2), (2, 0), (2, 3), (0, 0), (3, 3), (3, 4)]); gs.append(('triangle with self-loops and a tail', G))
    if tier != 'quick':
        G = nx.Graph(); G.add_edges_from([(3, 1), (1, 0), (0, 2), (2, 3), (3, 0), (4, 5)]); gs.append(('permuted labels', G))
        G = nx.complete_graph(4); gs.append(('K4', G))
        G = nx.path_graph(6); gs.append(('P6', G))
    return gs


def wrappers():
    import EoN
    names = [n for n in dir(EoN) if (n.endswith('_from_graph') and not n.startswith('Attack')) or n.endswith('_pure_IC')]
    return sorted(names)


def name_is_pure_ic(sig):
    """the *_pure_IC entry points document `initial_infecteds` as "list or set" (required positional): no bare-node spelling promised"""
    return sig.parameters['initial_infecteds'].default is inspect._empty


def modes(sig, G):
    nodes = list(G.nodes())
    out = []
    has = lambda p: p in sig.parameters
    if has('rho'):
        out.append(('rho', dict(rho=Hn.sym('rho', positive=True))))
        if not (has('initial_infecteds') and sig.parameters['initial_infecteds'].default is inspect._empty):
            out.append(('default', dict()))
    if has('initial_infecteds'):
        out.append(('sets', dict(initial_infecteds=[nodes[0], nodes[2]])))
        if has('initial_recovereds'):
            out.append(('sets+recovered', dict(initial_infecteds=[nodes[0]], initial_recovereds=[nodes[-1], nodes[1]])))
        out.append(('single-node-list', dict(initial_infecteds=[nodes[1]])))
        if not name_is_pure_ic(sig):
            # the documented spelling "a single node": the bare node, not wrapped in a list
            out.append(('single-node-bare', dict(initial_infecteds=nodes[1])))
    return out


def expected_row0(mode, kw, G, sir):
    N = G.order()
    if mode == 'rho':
        r = kw['rho']
        return (N * (1 - r), N * r, 0)
    if mode == 'default':
        return (N - 1, 1, 0)
    ii = kw['initial_infecteds']
    k = len(ii) if isinstance(ii, (list, tuple, set)) else 1
    r0 = len(kw.get('initial_recovereds') or [])
    return (N - k - r0, k, r0)


def run_one(name, G, mode, kw0, tier, full=False):
    """returns dict clause -> (ok, detail) ; raises nothing"""
    import EoN
    f = getattr(EoN, name)
    sig = inspect.signature(f)
    if full:
        kw0 = dict(kw0, return_full_data=True)
    tau, gamma, p = Hn.sym('tau', positive=True), Hn.sym('gamma', positive=True), Hn.sym('p', positive=True)
    kw = dict(kw0)
    if 'tau' in sig.parameters:
        kw.update(tau=tau, gamma=gamma)
    if 'p' in sig.parameters:
        kw['p'] = p
    discrete = 'tcount' not in sig.parameters
    tmin, tmax, tcount = 1, 3, 3
    kw.update(tmin=tmin, tmax=tmax) if discrete else kw.update(tmin=tmin, tmax=tmax, tcount=tcount)
    sir = ('SIR' in name) or ('EBCM' in name)
    res = {}
    attempts = [kw]
    if 'rho' in kw0:
        for val in (sp.Rational(1, 5), sp.Rational(2, 5)):
            k2 = dict(kw); k2['rho'] = val
            attempts.append(k2)
    last_err = None
    for kwx in attempts:
        calls = []
        try:
            with Hn.stubbed(calls):
                r = f(G, **kwx)
        except TypeError as e:
            # the code branches on / converts a symbolic value: retry with an exact rational (bounded in that value)
            last_err = e
            if any(s in str(e) for s in ('truth value', 'convert expression to float', "can't convert expression")):
                continue
            return dict(accepted=(False, '%s: %s' % (type(e).__name__, str(e)[:200])))
        except Exception as e:
            tb = traceback.extract_tb(e.__traceback__)[-1]
            return dict(accepted=(False, '%s: %s (at %s line %d)' % (type(e).__name__, str(e)[:160], tb.name, tb.lineno)))
        res['accepted'] = (True, '')
        t = list(r[0])
        if discrete:
            okt = all(float(t[i]) == tmin + i for i in range(len(t))) and len(t) >= 1
        else:
            want = list(np.linspace(tmin, tmax, tcount))
            okt = len(t) == tcount and all(abs(float(a) - float(b)) < 1e-12 for a, b in zip(t, want))
        res['time-grid'] = (okt, 'times = %s' % t[:5])
        def tot1(a):
            a = np.asarray(a, dtype=object)
            return a.sum(axis=0) if a.ndim == 2 else a
        S, I_ = tot1(r[1]), tot1(r[2])
        R_ = tot1(r[3]) if sir and len(r) > 3 else None
        exp = expected_row0(mode, kwx, G, sir)
        got = [Hn.rat(S[0]), Hn.rat(I_[0])] + ([Hn.rat(R_[0])] if R_ is not None else [])
        if R_ is None:
            exp = (exp[0] + exp[2], exp[1]) if not sir else exp[:2]
        ok0 = all(Hn.zero(g - e) for g, e in zip(got, exp))
        res['row0'] = (ok0, 'got %s expected %s' % ([str(sp.simplify(x)) for x in got], [str(x) for x in exp]))
        N = G.order()
        okc, why = True, ''
        for i in range(len(t)):
            tot = Hn.rat(S[i]) + Hn.rat(I_[i]) + (Hn.rat(R_[i]) if R_ is not None else 0)
            if Hn.zero(tot - N):
                continue
            if i == 0:
                okc, why = False, 'row 0: S+I+R = %s but N = %d' % (sp.simplify(tot), N)
                break
            # flow argument for this row
            if len(calls) != 1:
                okc, why = False, 'row %d: S+I+R-N = %s and no single ODE call to justify it' % (i, sp.simplify(tot - N))
                break
            call = calls[0]
            syms = Hn.state_symbols(call, i)
            grad = Hn.linear_gradient(tot, syms)
            const = sp.expand(Hn.rat(tot) - sum(g * s for g, s in zip(grad, syms)))
            if const.free_symbols & set(syms) or any(g.free_symbols & set(syms) for g in grad):
                okc, why = False, 'row %d: total is not linear in the integrated state' % i
                break
            try:
                fvals = Hn.rhs_at(call, syms)
                flow = sum(g * fv for g, fv in zip(grad, fvals))
                # value of the total along the flow is constant, and equals N at row 0
                tot0 = sum(g * x0 for g, x0 in zip(grad, call.X0)) + const
                if not Hn.zero(flow):
                    okc, why = False, 'row %d: d(S+I+R)/dt = %s along the model\'s own right-hand side' % (i, sp.simplify(flow))
                    break
                if not Hn.zero(tot0 - N):
                    okc, why = False, 'row 0 total %s != N' % sp.simplify(tot0)
                    break
            except Exception as e:
                okc, why = None, 'right-hand side could not be evaluated symbolically (%s: %s)' % (type(e).__name__, str(e)[:80])
                break
        res['conservation'] = (okc, why)
        res['_bounded_value'] = (kwx is not kw)
        return res
    return dict(accepted=(False, 'could not be run even with rational rho: %s' % last_err))


def obligations(tier='quick'):
    t0 = time.time()
    gs = graphs(tier)
    out = []
    clauses = ('accepted', 'time-grid', 'row0', 'conservation')
    import EoN
    bound = 'graphs: %s; tcount=3; symbolic tau, gamma, rho (rational fallback 1/5, 2/5 where the code branches on rho)' % ', '.join(n for n, _ in gs)
    for name in wrappers():
        f = getattr(EoN, name)
        sig = inspect.signature(f)
        agg = {c: [] for c in clauses}
        und = {c: [] for c in clauses}
        n_runs = 0
        t1 = time.time()
        for gname, G in gs:
            runs = [(mode, kw, False) for mode, kw in modes(sig, G)]
            if 'return_full_data' in sig.parameters:
                runs += [(mode + ', full data', kw, True) for mode, kw in modes(sig, G)[:2]]
            for mode, kw, full in runs:
                n_runs += 1
                res = run_one(name, G, mode.split(',')[0], kw, tier, full=full)
                for c in clauses:
                    if c in res:
                        ok, why = res[c]
                        if ok is False:
                            agg[c].append(dict(graph=gname, edges=[list(map(str, e)) for e in G.edges()], mode=mode,
                                               arguments={k: str(v) for k, v in kw.items()}, observed=why))
                        elif ok is None:
                            und[c].append('%s/%s: %s' % (gname, mode, why))
        for c in clauses:
            bad = agg[c]
            status = 'bounded-refuted' if bad else ('undecided' if und[c] and c != 'conservation' else 'bounded-ok')
            detail = bad[0]['observed'] if bad else ''
            if c == 'conservation' and und[c] and not bad:
                detail = 'flow argument not evaluable symbolically for: ' + '; '.join(und[c][:3])
            out.append(Ob('E3:%s:%s' % (name, c), 'EoN/analytic.py:%s' % name, 'post', status,
                          backend='real code on sympy reals with odeint contract stub (CPython)', seconds=round((time.time() - t1) / 4, 2),
                          detail=detail, site='EoN/analytic.py:%s' % name, bounded=bound, witness=bad[0] if bad else None,
                          replayed=True if bad else None, engine='E3',
                          replay_note='%d runs; %d failing' % (n_runs, len(bad))))
    return out


# ---------------------------------------------------------------------------------------------------------
# direct model functions: the auxiliary full-data series start from the inputs of the same name
# ---------------------------------------------------------------------------------------------------------
DIRECT = ['SIS_homogeneous_pairwise', 'SIR_homogeneous_pairwise', 'SIS_heterogeneous_meanfield', 'SIR_heterogeneous_meanfield',
          'SIS_heterogeneous_pairwise', 'SIR_heterogeneous_pairwise', 'SIS_compact_pairwise', 'SIR_compact_pairwise',
          'SIS_super_compact_pairwise', 'SIR_super_compact_pairwise', 'SIS_effective_degree', 'SIR_effective_degree',
          'SIS_compact_effective_degree', 'SIR_compact_effective_degree', 'SIS_homogeneous_meanfield', 'SIR_homogeneous_meanfield']


def direct_inputs(sig):
    R = sp.Rational
    K = 3
    vals = {}
    x = sp.Symbol('x')
    pk = [R(1, 6), R(1, 2), R(1, 3)]
    for p in sig.parameters:
        if p in ('tau', 'gamma'):
            vals[p] = Hn.sym(p, positive=True)
        elif p in ('tmin',):
            vals[p] = 1
        elif p == 'tmax':
            vals[p] = 3
        elif p == 'tcount':
            vals[p] = 3
        elif p == 'return_full_data':
            vals[p] = True
        elif p == 'Ks':
            continue
        elif p in ('S0',):
            vals[p] = R(7)
        elif p == 'I0':
            vals[p] = R(2)
        elif p == 'R0':
            vals[p] = R(1)
        elif p == 'SI0':
            vals[p] = R(3)
        elif p == 'SS0':
            vals[p] = R(5)
        elif p == 'II0':
            vals[p] = R(2)
        elif p == 'n':
            vals[p] = R(4)
        elif p == 'N':
            vals[p] = R(10)
        elif p == 'k_ave':
            vals[p] = R(2)
        elif p == 'ksquare_ave':
            vals[p] = R(5)
        elif p == 'kcube_ave':
            vals[p] = R(14)
        elif p in ('Sk0',):
            vals[p] = np.array([R(1), R(3), R(4)], dtype=object)
        elif p == 'Ik0':
            vals[p] = np.array([R(0), R(1), R(1)], dtype=object)
        elif p == 'Rk0':
            vals[p] = np.array([R(0), R(1), R(0)], dtype=object)
        elif p == 'Skappa0':
            vals[p] = np.array([R(1), R(3), R(4)], dtype=object)
        elif p in ('SkSl0', 'IkIl0'):
            base = 11 if p == 'SkSl0' else 31
            vals[p] = np.array([[R(base + min(i, j) * 3 + max(i, j)) for j in range(K)] for i in range(K)], dtype=object)
        elif p == 'SkIl0':
            vals[p] = np.array([[R(51 + 3 * i + j) for j in range(K)] for i in range(K)], dtype=object)
        elif p in ('Ssi0', 'S_si0'):
            vals[p] = np.array([[R(1 + i + 2 * j) if i + j < K else R(0) for j in range(K)] for i in range(K)], dtype=object)
        elif p == 'Isi0':
            vals[p] = np.array([[R(2 + 2 * i + j) if i + j < K else R(0) for j in range(K)] for i in range(K)], dtype=object)
        elif p == 'psihat':
            vals[p] = lambda v: R(9, 10) * sum(c * v ** k for k, c in enumerate(pk))
        elif p == 'psihatPrime':
            vals[p] = lambda v: R(9, 10) * sum(k * c * v ** (k - 1) for k, c in enumerate(pk) if k >= 1)
        elif p == 'psihatDPrime':
            vals[p] = lambda v: R(9, 10) * sum(k * (k - 1) * c * v ** (k - 2) for k, c in enumerate(pk) if k >= 2)
        else:
            return None
    return vals


def full_return_names(fn_node):
    """names in the return tuple of the full-data branch (the longest return tuple of plain names)"""
    import ast
    best = []
    for x in ast.walk(fn_node):
        if isinstance(x, ast.Return) and isinstance(x.value, ast.Tuple) and all(isinstance(e, ast.Name) for e in x.value.elts):
            names = [e.id for e in x.value.elts]
            if len(names) > len(best):
                best = names
    return best


def direct_obligations(tier='quick'):
    import ast
    import EoN
    from ..pyvc.verify import Source
    out = []
    for name in DIRECT:
        f = getattr(EoN, name, None)
        node, _ = Source.find('EoN/analytic.py', name)
        if f is None or node is None:
            continue
        sig = inspect.signature(f)
        t1 = time.time()
        vals = direct_inputs(sig)
        oid = 'E3:%s:full-data-series-start-from-their-inputs' % name
        fid = 'EoN/analytic.py:%s' % name
        bound = 'one exact rational input per parameter, 3 degree classes, tcount=3; symbolic tau, gamma'
        if vals is None:
            continue
        if 'return_full_data' not in sig.parameters:
            vals.pop('return_full_data', None)
        calls = []
        try:
            with Hn.stubbed(calls):
                r = f(**{k: (v.copy() if isinstance(v, np.ndarray) else v) for k, v in vals.items()})
        except Exception as e:
            tb = traceback.extract_tb(e.__traceback__)[-1]
            out.append(Ob(oid, fid, 'post', 'bounded-refuted', 'real code on exact rationals with odeint contract stub', round(time.time() - t1, 2),
                          detail='%s: %s (line %d)' % (type(e).__name__, str(e)[:150], tb.lineno), site=fid, bounded=bound,
                          witness=dict(arguments={k: str(v) for k, v in vals.items() if not callable(v)}, observed='%s: %s' % (type(e).__name__, e)),
                          replayed=True, engine='E3'))
            continue
        names = full_return_names(node)
        if not names:
            continue            # pure delegation (return f(...)): decided by the callee's own obligation + binding
        bad = []
        checked = []
        if len(names) == len(r):
            for nm, series in zip(names, r):
                p0 = nm + '0'
                if p0 in vals and not callable(vals[p0]):
                    a = np.asarray(series, dtype=object)
                    want = np.asarray(vals[p0], dtype=object)
                    first = a[..., 0] if a.ndim >= 1 and a.shape[-1] == 3 else a
                    if a.ndim == 1:
                        first = a[0]
                    try:
                        firsta = np.asarray(first, dtype=object)
                        ok = firsta.shape == want.shape and all(Hn.zero(Hn.rat(x) - Hn.rat(y)) for x, y in zip(firsta.ravel(), want.ravel()))
                    except Exception as e:
                        ok = False
                    checked.append(nm)
                    if not ok:
                        bad.append('returned series `%s` starts at %s but the input %s is %s' % (
                            nm, str(np.asarray(first, dtype=object).tolist())[:80], p0, str(want.tolist())[:80]))
        else:
            bad.append('the full-data return has %d entries but the longest return statement names %d' % (len(r), len(names)))
        # conservation + row 0 totals as for the wrappers
        out.append(Ob(oid, fid, 'post', 'bounded-refuted' if bad else 'bounded-ok', 'real code on exact rationals with odeint contract stub',
                      round(time.time() - t1, 2), detail='; '.join(bad[:3]) or ('checked: ' + ', '.join(checked)), site=fid, bounded=bound,
                      witness=dict(arguments={k: str(getattr(v, 'tolist', lambda: v)()) for k, v in vals.items() if not callable(v)}, observed=bad) if bad else None,
                      replayed=True if bad else None, engine='E3'))
    return out


# ---------------------------------------------------------------------------------------------------------
# wrappers with return_full_data: every auxiliary series, at tmin, equals the count defined DIRECTLY from the graph
# and the requested initial sets (independent native oracle)
# ---------------------------------------------------------------------------------------------------------
def ic_oracle(name, G, status, shape):
    """expected value at tmin of the returned series called `name` (None if no oracle is defined for it)"""
    deg = dict(G.degree())
    nodes = list(G.nodes())
    Ks = sorted(set(deg.values()))
    maxk = max(deg.values())
    by_degree = (len(shape) >= 1 and shape[0] == maxk + 1)

    def kidx(k):
        return k if by_degree else Ks.index(k)
    st = lambda u: status.get(u, 'S')
    if name in ('Sk', 'Ik', 'Rk'):
        out = np.zeros(shape[0])
        for u in nodes:
            if st(u) == name[0]:
                out[kidx(deg[u])] += 1
        return out
    if name in ('SS', 'SI', 'II'):
        c = 0
        for u, v in G.edges():
            for a, b in ((u, v), (v, u)):
                if st(a) == name[0] and st(b) == name[1]:
                    c += 1
        return c
    if name in ('SkSl', 'SkIl', 'IkIl'):
        out = np.zeros(shape[:2])
        for u, v in G.edges():
            for a, b in ((u, v), (v, u)):
                if st(a) == name[0] and st(b) == name[2]:
                    out[kidx(deg[a])][kidx(deg[b])] += 1
        return out
    if name in ('Ssi', 'S_si', 'Isi') and nx.number_of_selfloops(G) > 0:
        return None        # how a self-loop enters the (s, i) neighbour counts of the effective-degree classes is not fixed by the property
    if name in ('Ssi', 'S_si', 'Isi'):
        out = np.zeros(shape[:2])
        for u in nodes:
            if st(u) == name[0]:
                s = sum(1 for w in G.neighbors(u) if st(w) == 'S')
                i = sum(1 for w in G.neighbors(u) if st(w) == 'I')
                out[s][i] += 1
        return out
    if name == 'Skappa':
        out = np.zeros(shape[0])
        for u in nodes:
            if st(u) == 'S':
                out[sum(1 for w in G.neighbors(u) if st(w) != 'R')] += 1
        return out
    return None


def wrapper_full_data_obligations(tier='quick'):
    import EoN
    from ..pyvc.verify import Source
    out = []
    for wname in wrappers():
        if not wname.endswith('_from_graph'):
            continue
        base = wname[:-len('_from_graph')]
        f = getattr(EoN, wname)
        sig = inspect.signature(f)
        node, _ = Source.find('EoN/analytic.py', base)
        if node is None or 'return_full_data' not in sig.parameters or 'initial_infecteds' not in sig.parameters:
            continue
        names = full_return_names(node)
        if not names:
            continue
        t1 = time.time()
        bad, checked, nruns = [], set(), 0
        for gname, G in graphs(tier):
            nodes = list(G.nodes())
            variants = [dict(initial_infecteds=[nodes[0], nodes[2]])]
            if 'initial_recovereds' in sig.parameters:
                variants.append(dict(initial_infecteds=[nodes[0]], initial_recovereds=[nodes[1], nodes[-1]]))
                variants.append(dict(initial_infecteds=[nodes[1], nodes[2]], initial_recovereds=[nodes[0]]))
            for kw in variants:
                nruns += 1
                status = {u: 'I' for u in kw['initial_infecteds']}
                status.update({u: 'R' for u in kw.get('initial_recovereds', [])})
                calls = []
                try:
                    with Hn.stubbed(calls):
                        r = f(G, sp.Rational(7, 10), sp.Rational(13, 10), tmin=1, tmax=3, tcount=3, return_full_data=True, **kw)
                except Exception as e:
                    bad.append(dict(graph=gname, arguments={k: [str(x) for x in v] for k, v in kw.items()},
                                    observed='%s: %s' % (type(e).__name__, str(e)[:150])))
                    continue
                if len(r) != len(names):
                    continue
                for nm, series in zip(names, r):
                    a = np.asarray(series, dtype=object)
                    first = a[..., 0] if a.ndim >= 1 else a
                    try:
                        want = ic_oracle(nm, G, status, np.shape(first))
                    except IndexError:
                        # the returned series has no slot for a degree class / neighbour count that the graph has
                        bad.append(dict(graph=gname, edges=[[str(x), str(y)] for x, y in G.edges()], degrees=sorted(set(dict(G.degree()).values())),
                                        arguments={k: [str(x) for x in v] for k, v in kw.items()},
                                        observed='series `%s` has shape %s at tmin: no entry for some degree class of the graph' % (nm, np.shape(first))))
                        continue
                    if want is None:
                        continue
                    checked.add(nm)
                    try:
                        got = np.array([[float(Hn.rat(x))] for x in np.asarray(first, dtype=object).ravel()]).ravel()
                        ok = got.shape == np.asarray(want, dtype=float).ravel().shape and np.allclose(got, np.asarray(want, dtype=float).ravel(), atol=1e-9)
                    except Exception:
                        ok = False
                    if not ok:
                        bad.append(dict(graph=gname, edges=[[str(x), str(y)] for x, y in G.edges()],
                                        arguments={k: [str(x) for x in v] for k, v in kw.items()},
                                        observed='series `%s` at tmin is %s but the graph and the initial sets give %s' % (
                                            nm, str(np.asarray(first, dtype=object).tolist())[:140], str(np.asarray(want).tolist())[:140])))
        out.append(Ob('E3:%s:full-data-series-match-the-initial-sets' % wname, 'EoN/analytic.py:%s' % wname, 'post',
                      'bounded-refuted' if bad else 'bounded-ok', backend='real code with odeint contract stub vs an independent native oracle',
                      seconds=round(time.time() - t1, 2), detail=(bad[0]['observed'] if bad else 'checked: ' + ', '.join(sorted(checked))),
                      site='EoN/analytic.py:%s' % wname, bounded='graphs %s, explicit initial sets with and without recovered nodes' % [g for g, _ in graphs(tier)],
                      witness=bad[0] if bad else None, replayed=True if bad else None, engine='E3', replay_note='%d runs' % nruns))
    return out
