"""C14 (bounded relational stand-in, E3): every graph-based ODE entry point is run on a graph and on relabelled /
re-ordered copies (string labels, tuple labels, permuted integer labels, shuffled node and edge insertion order),
with the initial sets mapped through the relabelling.  Compared, as exact symbolic expressions in tau, gamma, rho:
S, I(, R) at tmin and their time derivatives at tmin along the model's own right-hand side (gradient of the
observable w.r.t. the integrated state, dotted with f(X0)); for the node-level models also the per-node values."""
import inspect
import random as pyrandom
import time
import traceback
import numpy as np
import sympy as sp
import networkx as nx
from ..common import Ob
from . import harness as Hn
from .c06 import wrappers


def base_graphs(tier):
    gs = []
    G = nx.Graph(); G.add_nodes_from(range(5)); G.add_edges_from([(0, 1), (1, 2), (2, 3), (1, 3), (3, 4)]); gs.append(('tailed-triangle', G))
    G = nx.Graph(); G.add_nodes_from(range(5)); G.add_edges_from([(0, 1), (0, 2), (0, 3), (3, 4)]); gs.append(('spider', G))
    if tier != 'quick':
        G = nx.Graph(); G.add_nodes_from(range(6)); G.add_edges_from([(0, 1), (1, 2), (2, 0), (3, 4), (4, 5)]); gs.append(('triangle+path', G))
    return gs


class _FreshMap(dict):
    """relabelling map whose every lookup returns a NEW object equal to the label (runtime-built strings, tuples, integers above
    the small-int cache): code that compares labels by identity (`is`) instead of equality then sees different objects for the
    same node"""

    def __init__(self, mk, nodes):
        dict.__init__(self, {u: mk(u) for u in nodes})
        self.mk = mk

    def __getitem__(self, u):
        return self.mk(u)


def relabelings(G, tier, seed=0):
    nodes = list(G.nodes())
    rng = pyrandom.Random(seed)
    maps = []
    maps.append(('string labels', _FreshMap(lambda u: ''.join(['v', str(u)]), nodes)))
    perm = nodes[:]
    rng.shuffle(perm)
    pd = dict(zip(nodes, perm))
    maps.append(('permuted integers', dict(pd)))
    maps.append(('reversed insertion order', {u: u for u in nodes}))
    maps.append(('large integers', _FreshMap(lambda u, pd=pd: int(str(1000 + 7 * pd[u])), nodes)))
    if tier != 'quick':
        maps.append(('tuple labels', _FreshMap(lambda u: tuple([u, 'x']), nodes)))
    out = []
    for nm, m in maps:
        H = nx.DiGraph() if G.is_directed() else nx.Graph()
        order = [m[u] for u in nodes]
        if nm == 'reversed insertion order':
            order = order[::-1]
        else:
            rng.shuffle(order)
        H.add_nodes_from(order)
        edges = [(m[u], m[v], dict(d)) for u, v, d in G.edges(data=True)]
        if nm == 'reversed insertion order':
            edges = edges[::-1]
        else:
            rng.shuffle(edges)
        if not G.is_directed():
            edges = [(b, a, d) if rng.random() < 0.5 else (a, b, d) for a, b, d in edges]
        H.add_edges_from(edges)
        out.append((nm, m, H))
    return out


def weighted_digraph():
    """directed contacts with different weights in the two directions of reciprocal pairs"""
    D = nx.DiGraph()
    D.add_nodes_from(range(5))
    for (u, v, w) in [(0, 1, 0.5), (1, 0, 2.0), (1, 2, 1.5), (2, 1, 0.25), (2, 3, 1.0), (3, 0, 0.75), (0, 3, 1.75), (3, 4, 1.25)]:
        D.add_edge(u, v, w=w)
    return D


def observe(name, G, kw0, extra=None, numeric=False):
    """-> dict of exact expressions describing the run (numeric=True: floats, for right-hand sides that write
    into float arrays and therefore cannot be evaluated on symbols)"""
    import EoN
    f = getattr(EoN, name)
    sig = inspect.signature(f)
    tau, gamma, p = Hn.sym('tau', positive=True), Hn.sym('gamma', positive=True), Hn.sym('p', positive=True)
    if numeric:
        tau, gamma, p = 0.7, 1.3, 0.4
        kw0 = {k: (float(v) if isinstance(v, sp.Basic) else v) for k, v in kw0.items()}
    kw = dict(kw0)
    if 'tau' in sig.parameters:
        kw.update(tau=tau, gamma=gamma)
    if 'p' in sig.parameters:
        kw['p'] = p
    if 'tcount' in sig.parameters:
        kw.update(tmin=0, tmax=2, tcount=3)
    else:
        kw.update(tmin=0, tmax=2)
    if extra:
        kw.update(extra)
    calls = []
    with Hn.stubbed(calls):
        r = f(G, **kw)
    obs = {}
    sir = ('SIR' in name) or ('EBCM' in name)
    series = [('S', r[1]), ('I', r[2])] + ([('R', r[3])] if sir and len(r) > 3 else [])
    for nm, a in series:
        a = np.asarray(a, dtype=object)
        a = a.sum(axis=0) if a.ndim == 2 else a
        obs[nm + '(t0)'] = sp.simplify(Hn.rat(a[0]))
        if len(calls) == 1 and len(a) > 1:
            call = calls[0]
            syms = Hn.state_symbols(call, 1)
            at0 = dict(zip(syms, [Hn.rat(v) for v in call.X0]))
            grad = [sp.sympify(g).xreplace(at0) for g in (sp.diff(sp.sympify(Hn.rat(a[1])), s_) for s_ in syms)]
            try:
                if numeric:
                    x0 = np.array([float(v) for v in call.X0], dtype=float)
                    f0 = np.asarray(call.dfunc(x0, 0, *call.args), dtype=float).ravel()
                    val = sp.Float(sum(float(g) * float(v) for g, v in zip(grad, f0)))
                    obs['d%s/dt(t0)' % nm] = sp.nsimplify(round(float(val), 9)) if float(val) == float(val) else 'unevaluable: nan'
                    eps = 1e-4
                    fp = np.asarray(call.dfunc(x0 + eps * f0, 0, *call.args), dtype=float).ravel()
                    fm = np.asarray(call.dfunc(x0 - eps * f0, 0, *call.args), dtype=float).ravel()
                    v2 = sum(float(g) * float(v) for g, v in zip(grad, (fp - fm) / (2 * eps)))
                    if v2 == v2 and all(sp.sympify(g).is_number for g in grad):
                        obs['d2%s/dt2(t0)' % nm] = sp.nsimplify(round(float(v2), 4))
                else:
                    f0 = Hn.rhs_at(call, list(call.X0))
                    val = sp.simplify(sp.together(sum(g * v for g, v in zip(grad, f0))))
                    obs['d%s/dt(t0)' % nm] = val if val == val and not val.has(sp.nan) else 'unevaluable: nan'
                    # second Lie derivative (exact): distinguishes states that only differ in how the pairs are distributed
                    try:
                        fs = [sp.sympify(v) for v in Hn.rhs_at(call, list(syms))]
                        g0 = sp.sympify(Hn.rat(a[1]))
                        l1 = sum(sp.diff(g0, s_) * v for s_, v in zip(syms, fs))
                        l2 = sum(sp.diff(l1, s_) * v for s_, v in zip(syms, fs))
                        v2 = sp.simplify(sp.together(l2.xreplace(at0)))
                        if v2 == v2 and not v2.has(sp.nan) and not v2.has(sp.zoo):
                            obs['d2%s/dt2(t0)' % nm] = v2
                    except Exception:
                        pass
            except Exception as e:
                obs['d%s/dt(t0)' % nm] = 'unevaluable: %s' % type(e).__name__
        elif len(a) > 1 and not calls:
            obs[nm + '(t1)'] = sp.simplify(Hn.rat(a[1]))
    return obs


def observe_full(name, G, kw0, extra=None, numeric=False):
    """observe(); where the exact second derivative of S is not evaluable (0/0 in empty degree classes) the
    finite-difference one of a numeric run (tau=0.7, gamma=1.3) is added under 'num:' keys"""
    obs = observe(name, G, kw0, extra=extra, numeric=numeric)
    if not numeric and 'd2S/dt2(t0)' not in obs and not any(isinstance(v, str) for v in obs.values()):
        try:
            num = observe(name, G, kw0, extra=extra, numeric=True)
            for k, v in num.items():
                if k.startswith('d2') and not isinstance(v, str):
                    obs['num:' + k] = v
        except Exception:
            pass
    return obs


def obligations(tier='quick', seed=0):
    import EoN
    out = []
    for name in wrappers():
        f = getattr(EoN, name)
        sig = inspect.signature(f)
        t1 = time.time()
        bad, nruns, err = [], 0, None
        glist = list(base_graphs(tier))
        if 'transmission_weight' in sig.parameters and ('individual_based' in name or 'pair_based' in name):
            glist.append(('weighted digraph (asymmetric reciprocal weights)', weighted_digraph()))
        for gname, G in glist:
            nodes = list(G.nodes())
            modes = []
            wkw = dict(transmission_weight='w') if G.is_directed() else {}
            if 'rho' in sig.parameters:
                modes.append(('rho', lambda m, wkw=wkw: dict(wkw, rho=sp.Rational(1, 5))))
            if 'initial_infecteds' in sig.parameters:
                if 'initial_recovereds' in sig.parameters:
                    modes.append(('sets', lambda m, wkw=wkw: dict(wkw, initial_infecteds=[m[nodes[0]], m[nodes[2]]], initial_recovereds=[m[nodes[4]]])))
                else:
                    modes.append(('sets', lambda m, wkw=wkw: dict(wkw, initial_infecteds=[m[nodes[0]], m[nodes[2]]])))
            for mode, mk in modes:
                numeric = False
                try:
                    ref = observe_full(name, G, mk({u: u for u in nodes}))
                    if any(isinstance(v, str) for v in ref.values()):
                        numeric = True
                        ref = observe_full(name, G, mk({u: u for u in nodes}), numeric=True)
                except Exception as e:
                    err = 'reference run failed on %s/%s: %s: %s' % (gname, mode, type(e).__name__, str(e)[:120])
                    continue
                if 'nodelist' in sig.parameters:
                    nruns += 1
                    try:
                        got = observe_full(name, G, mk({u: u for u in nodes}), extra=dict(nodelist=nodes[::-1]), numeric=numeric)
                        for k in ref:
                            a, b = ref[k], got.get(k)
                            same = False if (a is None or b is None) else ((a == b) if (isinstance(a, str) or isinstance(b, str)) else Hn.zero(a - b))
                            if not same:
                                bad.append(dict(graph=gname, relabelling='explicit nodelist in reversed order', mode=mode,
                                                nodes=[str(x) for x in G.nodes()], edges=[[str(a_), str(b_)] for a_, b_ in G.edges()],
                                                observed='%s differs: %s with the default node order, %s with nodelist reversed' % (k, a, b)))
                                break
                    except Exception as e:
                        bad.append(dict(graph=gname, relabelling='explicit nodelist in reversed order', mode=mode,
                                        observed='%s: %s' % (type(e).__name__, str(e)[:120])))
                for rname, m, H in relabelings(G, tier, seed):
                    nruns += 1
                    try:
                        got = observe_full(name, H, mk(m), numeric=numeric)
                    except Exception as e:
                        tb = traceback.extract_tb(e.__traceback__)[-1]
                        bad.append(dict(graph=gname, relabelling=rname, mode=mode, nodes=[str(x) for x in H.nodes()],
                                        edges=[[str(a), str(b)] for a, b in H.edges()],
                                        observed='%s: %s (at %s line %d)' % (type(e).__name__, str(e)[:120], tb.name, tb.lineno)))
                        continue
                    for k in ref:
                        a, b = ref[k], got.get(k)
                        same = False if (a is None or b is None) else ((a == b) if (isinstance(a, str) or isinstance(b, str)) else Hn.zero(a - b))
                        if not same:
                            bad.append(dict(graph=gname, relabelling=rname, mode=mode, nodes=[str(x) for x in H.nodes()],
                                            edges=[[str(a_), str(b_)] for a_, b_ in H.edges()],
                                            observed='%s differs: %s on the original graph, %s after relabelling' % (k, a, b)))
                            break
        status = 'bounded-refuted' if bad else ('undecided' if err and nruns == 0 else 'bounded-ok')
        out.append(Ob('E3:%s:relabelling-invariant' % name, 'EoN/analytic.py:%s' % name, 'post', status,
                      backend='real code on exact values with odeint contract stub, original vs relabelled graph', seconds=round(time.time() - t1, 2),
                      detail=(bad[0]['observed'] if bad else (err or '')), site='EoN/analytic.py:%s' % name,
                      bounded='graphs %s x relabellings (string labels, permuted integers, reversed insertion order%s), rho=1/5 and explicit sets' % (
                          [g for g, _ in base_graphs(tier)], ', tuple labels' if tier != 'quick' else ''),
                      witness=bad[0] if bad else None, replayed=True if bad else None, engine='E3',
                      replay_note='%d relabelled runs, %d differing' % (nruns, len(bad))))
    return out


def solved_curves_obligations(tier='quick', seed=0):
    """node-level ODE models (individual-based, pair-based): the curves actually integrated (real odeint, no stub) on the relabelled /
    re-ordered graph coincide with those on the original graph to 1e-6.  Complements the derivative comparison at tmin, which cannot
    see terms that vanish on a pure initial condition."""
    import EoN
    out = []
    names = [n for n in wrappers() if ('individual_based' in n or 'pair_based' in n)]
    for name in names:
        f = getattr(EoN, name)
        sig = inspect.signature(f)
        t1 = time.time()
        bad, nruns = [], 0
        glist = list(base_graphs(tier)) + [('weighted digraph (asymmetric reciprocal weights)', weighted_digraph())]
        for gname, G in glist:
            nodes = list(G.nodes())
            wkw = dict(transmission_weight='w') if G.is_directed() else {}

            def call(H, m):
                kw = dict(wkw, tmin=0.5, tmax=2.5, tcount=5)
                if 'initial_infecteds' in sig.parameters:
                    kw['initial_infecteds'] = [m[nodes[0]], m[nodes[2]]]
                else:
                    kw['rho'] = 0.3
                r = f(H, 0.7, 1.3, **kw)
                return [np.asarray(a, dtype=float) for a in r[:3]]
            try:
                ref = call(G, {u: u for u in nodes})
            except Exception as e:
                bad.append(dict(graph=gname, observed='reference run: %s: %s' % (type(e).__name__, str(e)[:120])))
                continue
            for rname, m, H in relabelings(G, tier, seed):
                nruns += 1
                try:
                    got = call(H, m)
                    dev = max(float(np.abs(a - b).max()) for a, b in zip(ref, got))
                except Exception as e:
                    bad.append(dict(graph=gname, relabelling=rname, observed='%s: %s' % (type(e).__name__, str(e)[:120])))
                    continue
                if not dev <= 1e-6:
                    bad.append(dict(graph=gname, relabelling=rname, nodes=[str(x) for x in H.nodes()], edges=[[str(a), str(b)] for a, b in H.edges()],
                                    observed='integrated curves differ by %.3g between the original and the relabelled graph (tau=0.7, gamma=1.3, t in [0.5, 2.5])' % dev))
        out.append(Ob('native:%s:solved-curves-relabelling-invariant' % name, 'EoN/analytic.py:%s' % name, 'post', 'bounded-refuted' if bad else 'bounded-ok',
                      backend='real numeric solves (scipy odeint) on the original and the relabelled graph', seconds=round(time.time() - t1, 2),
                      detail=bad[0]['observed'] if bad else '', site='EoN/analytic.py:%s' % name,
                      bounded='graphs %s x relabellings with fresh label objects; 5 report times; tolerance 1e-6' % [g for g, _ in glist],
                      witness=bad[0] if bad else None, replayed=True if bad else None, engine='E5-bounded', replay_note='%d relabelled solves' % nruns))
    return out


def simulator_obligations(tier='quick', seed=0):
    """deterministic-rule simulators: per-node histories are unchanged up to the relabelling (bounded native stand-in)"""
    import EoN
    out = []

    def runs(G, ii):
        deg = dict(G.degree())
        res = {}
        sim = EoN.discrete_SIR(G, test_transmission=lambda u, v: True, initial_infecteds=ii, return_full_data=True)
        res['discrete_SIR'] = {u: sim.node_history(u) for u in G}
        sim = EoN.fast_nonMarkov_SIR(G, trans_time_fxn=lambda u, v: 1.0 + 0.25 * deg[u] + 0.125 * deg[v],
                                      rec_time_fxn=lambda u: 1.75 + 0.5 * deg[u], initial_infecteds=ii, return_full_data=True)
        res['fast_nonMarkov_SIR'] = {u: sim.node_history(u) for u in G}
        sim = EoN.fast_nonMarkov_SIS(G, trans_time_fxn=lambda u, v, d: [0.5 + 0.25 * deg[v]] if 0.5 + 0.25 * deg[v] < d else [],
                                      rec_time_fxn=lambda u: 1.0 + 0.5 * deg[u], initial_infecteds=ii, tmax=6, return_full_data=True)
        res['fast_nonMarkov_SIS'] = {u: sim.node_history(u) for u in G}
        # several attempts per edge, incommensurable constants (no two events at the same instant)
        sim = EoN.fast_nonMarkov_SIS(G, trans_time_fxn=lambda u, v, d: [x for x in (0.5 + 0.2537 * deg[v], 1.3071 + 0.2537 * deg[v] + 0.1193 * deg[u], 2.9173 + 0.0611 * deg[v]) if x < d],
                                      rec_time_fxn=lambda u: 1.5 + 0.5113 * deg[u], initial_infecteds=ii, tmax=7, return_full_data=True)
        res['fast_nonMarkov_SIS(several attempts per edge)'] = {u: sim.node_history(u) for u in G}
        # the index case passed as a bare node (the documented single-node spelling), also for a node whose name is falsy
        one = ii[0]
        sim = EoN.fast_nonMarkov_SIR(G, trans_time_fxn=lambda u, v: 1.0 + 0.25 * deg[u] + 0.125 * deg[v],
                                      rec_time_fxn=lambda u: 1.75 + 0.5 * deg[u], initial_infecteds=one, return_full_data=True)
        res['fast_nonMarkov_SIR(bare node)'] = {u: sim.node_history(u) for u in G}
        sim = EoN.fast_nonMarkov_SIS(G, trans_time_fxn=lambda u, v, d: [x for x in (0.5 + 0.2537 * deg[v],) if x < d],
                                      rec_time_fxn=lambda u: 1.5 + 0.5113 * deg[u], initial_infecteds=one, tmax=5, return_full_data=True)
        res['fast_nonMarkov_SIS(bare node)'] = {u: sim.node_history(u) for u in G}
        sim = EoN.discrete_SIR(G, test_transmission=lambda u, v: True, initial_infecteds=one, return_full_data=True)
        res['discrete_SIR(bare node)'] = {u: sim.node_history(u) for u in G}
        return res
    # a table-driven scenario with an exact tie: the transmission u -> v arrives at the very instant v recovers, and u and v were infected
    # at the same instant by w (which of the two is processed first depends on insertion order; the outcome must not)
    REC = {0: 10.0, 1: 4.0, 2: 2.0, 3: 1.5, 4: 1.5}
    TRANS = {(0, 1): [1.0], (0, 2): [1.0], (1, 2): [2.0], (2, 3): [0.5], (3, 4): [0.25]}
    Gt = nx.Graph(); Gt.add_nodes_from(range(5)); Gt.add_edges_from([(0, 1), (0, 2), (1, 2), (2, 3), (3, 4)])

    def tie_run(H, inv, seed_node):
        sim = EoN.fast_nonMarkov_SIS(H, trans_time_fxn=lambda a, b, d: list(TRANS.get((inv[a], inv[b]), [])), rec_time_fxn=lambda a: REC[inv[a]],
                                      initial_infecteds=[seed_node], tmax=20, return_full_data=True)
        return {inv[u]: sim.node_history(u) for u in H}
    try:
        ref_t = tie_run(Gt, {u: u for u in Gt}, 0)
    except Exception as e:
        ref_t = None
        out.append(Ob('native:fast_nonMarkov_SIS(tie at the instant of recovery):relabelling-invariant', 'EoN/simulation.py:fast_nonMarkov_SIS', 'post', 'undecided',
                      'native runs', 0.0, detail='%s: %s' % (type(e).__name__, str(e)[:150]), site='EoN/simulation.py:fast_nonMarkov_SIS', bounded='-', engine='E5-bounded',
                      replay_note='reference run failed'))
    if ref_t is not None:
        t1 = time.time()
        bad = None
        nrel = 0
        for sd in range(4 if tier == 'quick' else 10):
            for rname, m, H in relabelings(Gt, tier, seed + sd):
                nrel += 1
                inv = {}
                for u in Gt:
                    inv[m[u]] = u
                try:
                    got = tie_run(H, inv, m[0])
                except Exception as e:
                    bad = '%s (%s, variant %d): %s: %s' % (rname, sd, nrel, type(e).__name__, str(e)[:120])
                    break
                for u in Gt:
                    a, b = ref_t[u], got[u]
                    if [float(x) for x in a[0]] != [float(x) for x in b[0]] or list(a[1]) != list(b[1]):
                        bad = 'history of node %r: %s on the original graph, %s after %s (insertion order variant %d)' % (u, a, b, rname, sd)
                        break
                if bad:
                    break
            if bad:
                break
        out.append(Ob('native:fast_nonMarkov_SIS(tie at the instant of recovery):relabelling-invariant', 'EoN/simulation.py:fast_nonMarkov_SIS', 'post',
                      'bounded-refuted' if bad else 'bounded-ok', backend='native runs with table-driven deterministic rules (CPython)', seconds=round(time.time() - t1, 3),
                      detail=bad or '', site='EoN/simulation.py:fast_nonMarkov_SIS', bounded='one 5-node scenario, %d relabelled / re-ordered copies' % nrel,
                      witness=dict(durations=REC, delays={str(k): v for k, v in TRANS.items()}, observed=bad) if bad else None, replayed=True if bad else None, engine='E5-bounded'))
    for gname, G in base_graphs(tier):
        nodes = list(G.nodes())
        ref = runs(G, [nodes[0]])
        for rname, m, H in relabelings(G, tier, seed):
            t1 = time.time()
            try:
                got = runs(H, [m[nodes[0]]])
            except Exception as e:
                got = None
                err = '%s: %s' % (type(e).__name__, str(e)[:150])
            for simname in ref:
                bad = None
                if got is None:
                    bad = err
                else:
                    for u in nodes:
                        a, b = ref[simname][u], got[simname][m[u]]
                        if [round(float(x), 9) for x in a[0]] != [round(float(x), 9) for x in b[0]] or list(a[1]) != list(b[1]):
                            bad = 'history of node %r: %s on the original graph, %s for its image %r' % (u, a, b, m[u])
                            break
                out.append(Ob('native:%s:relabelling-invariant:%s:%s' % (simname, gname, rname), 'EoN/simulation.py:%s' % simname, 'post',
                              'bounded-refuted' if bad else 'bounded-ok', backend='native runs with deterministic rules (CPython)',
                              seconds=round(time.time() - t1, 3), detail=bad or '', site='EoN/simulation.py:%s' % simname,
                              bounded='graph %s, relabelling %s, one seed node, deterministic delay/duration rules' % (gname, rname),
                              witness=dict(graph=gname, relabelling=rname, observed=bad) if bad else None, replayed=True if bad else None, engine='E5-bounded'))
    return out
