"""The body of EoN.analytic._my_odeint_ against its contract (the one every caller is checked against: "as
integrate.odeint": the returned array has row i = the solution at times[i] of V' = dfunc(V, t, *args), V(times[0]) = V0).

The real function is executed with `integrate.ode` replaced by the ASSUMED CONTRACT of scipy.integrate.ode as a
recording object: ode(f) integrates y' = f(t, y); set_initial_value(y0, t0=0.0) fixes y(t0) = y0; integrate(t) returns
y(t).  Values are opaque symbols, so the obligations hold for every right-hand side, state and grid of that length
(bounded in len(times) only)."""
import time
import numpy as np
import sympy as sp
from ..common import Ob

FN = 'EoN/analytic.py:_my_odeint_'


class _Sol:
    def __init__(self, owner, t):
        self.owner, self.t = owner, t


def obligations(lengths=(1, 2, 4)):
    import EoN.analytic as A
    out = []
    t0 = time.time()

    def ob(oid, ok, detail, wit=None, status=None):
        out.append(Ob('E3:_my_odeint_:' + oid, FN, 'post', status or ('bounded-ok' if ok else 'bounded-refuted'),
                      'real body run on opaque symbols against the assumed contract of scipy.integrate.ode', round(time.time() - t0, 2), bounded='len(times) in {1, 2, 4}; every value an opaque symbol',
                      detail='' if ok else detail, site=FN, witness=None if ok else wit, replayed=None if ok else True, engine='E3',
                      replay_note='' if ok else 'replay = the same run of the real function body; the observation is in the witness'))

    for n in lengths:
        log = []

        class StubODE:
            def __init__(self, f, jac=None):
                self.f = f
                self.t0 = None
                self.y0 = None
                self.asked = []
                log.append(self)

            def set_integrator(self, name, **kw):
                return self

            def set_initial_value(self, y, t=0.0):
                self.y0, self.t0 = y, t
                return self

            def set_f_params(self, *a):
                self.fparams = a
                return self

            def successful(self):
                return True

            def integrate(self, t, step=False, relax=False):
                self.asked.append(t)
                m = len(np.atleast_1d(self.y0))
                return np.array([sp.Symbol('y_%d_%d' % (len(self.asked), j), real=True) for j in range(m)], dtype=object)

        seen = []

        def dfunc(X, t, *args):
            seen.append((X, t, args))
            return ('rhs', id(X), t, args)

        times = [sp.Symbol('t%d' % i, real=True) for i in range(n)]
        V0 = np.array([sp.Symbol('v0', real=True), sp.Symbol('v1', real=True)], dtype=object)
        a1, a2 = sp.Symbol('a1'), sp.Symbol('a2')
        orig = A.integrate.ode
        A.integrate.ode = StubODE
        try:
            try:
                V = A._my_odeint_(dfunc, V0, times, args=(a1, a2))
            finally:
                A.integrate.ode = orig
        except Exception as e:
            ob('len%d:runs' % n, False, '%s: %s' % (type(e).__name__, e), status='undecided')
            continue
        wit = dict(len_times=n, note='times = symbols t0..t%d, V0 = (v0, v1), args = (a1, a2)' % (n - 1))
        if len(log) != 1:
            ob('len%d:one-integrator' % n, False, '%d integrate.ode objects were created' % len(log), wit, status='undecided')
            continue
        r = log[0]
        ok = r.t0 is not None and r.t0 == times[0]
        ob('len%d:initial-time-is-times[0]' % n, ok, 'the integrator starts at time %r, the contract says times[0] = %r' % (r.t0, times[0]), dict(wit, observed='initial time %r' % (r.t0,)))
        ok = r.y0 is not None and list(np.atleast_1d(r.y0)) == list(V0)
        ob('len%d:initial-value-is-V0' % n, ok, 'the integrator starts from %r, not V0' % (r.y0,), dict(wit, observed='initial value %r' % (r.y0,)))
        ok = r.asked == times[1:]
        ob('len%d:asks-exactly-times[1:]-in-order' % n, ok, 'integrate() was asked for %r, the grid is %r' % (r.asked, times[1:]), dict(wit, observed='asked %r' % (r.asked,)))
        Xs, ts = object(), sp.Symbol('tq', real=True)
        del seen[:]
        try:
            got = r.f(ts, Xs)
            ok = len(seen) == 1 and seen[0][0] is Xs and seen[0][1] == ts and tuple(seen[0][2]) == (a1, a2) and got == ('rhs', id(Xs), ts, (a1, a2))
            detail = 'the integrated right-hand side f(t, X) is not dfunc(X, t, *args): dfunc saw %r' % (seen[:1],)
        except Exception as e:
            ok, detail = False, 'the integrated right-hand side raised %s: %s' % (type(e).__name__, e)
        ob('len%d:rhs-is-dfunc(X,t,*args)' % n, ok, detail, dict(wit, observed=detail))
        V = np.asarray(V, dtype=object)
        ok = V.shape == (n, 2) and list(V[0]) == list(V0) and all(str(V[i][j]) == 'y_%d_%d' % (i, j) for i in range(1, n) for j in range(2))
        ob('len%d:rows-are-V0-then-the-solution-at-each-grid-time' % n, ok, 'returned array %r' % (V.tolist(),), dict(wit, observed='returned %r' % (V.tolist(),)))
    # an INTEGER initial vector (a pure initial condition: 0/1 per node) must not make the returned rows integers: the solution values
    # are floats whatever the dtype of V0
    t0 = time.time()
    log = []

    class StubODE2:
        def __init__(self, f, jac=None):
            self.f, self.k = f, 0
            log.append(self)

        def set_integrator(self, name, **kw):
            return self

        def set_initial_value(self, y, t=0.0):
            self.y0 = y
            return self

        def set_f_params(self, *a):
            return self

        def successful(self):
            return True

        def integrate(self, t, step=False, relax=False):
            self.k += 1
            return np.array([0.5 ** self.k, 1 - 0.5 ** self.k], dtype=float)
    orig = A.integrate.ode
    A.integrate.ode = StubODE2
    try:
        try:
            V = np.asarray(A._my_odeint_(lambda X, t: X, np.array([1, 0]), [0.0, 1.0, 2.0]))
            want = np.array([[1, 0], [0.5, 0.5], [0.25, 0.75]], dtype=float)
            ok = V.shape == (3, 2) and np.allclose(np.asarray(V, dtype=float), want)
            detail = 'returned %r for V0 = array([1, 0]) (int) and solution values 0.5, 0.25 ...: expected %r' % (V.tolist(), want.tolist())
            ob('integer-initial-vector-keeps-float-solution', ok, detail, dict(V0=[1, 0], dtype='int', observed=detail))
        except Exception as e:
            ob('integer-initial-vector-keeps-float-solution', False, '%s: %s' % (type(e).__name__, e), status='undecided')
    finally:
        A.integrate.ode = orig
    return out
