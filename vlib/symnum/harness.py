"""E3 — the real numeric code of EoN/analytic.py executed UNMODIFIED under CPython on symbolic reals (DESIGN 3.3).

`scipy.integrate.odeint` / `EoN.analytic._my_odeint_` are replaced, for the duration of one call, by their CONTRACT
STUB: the returned array has shape (len(times), len(X0)), row 0 is X0 and every other entry is a fresh symbol
(caller checked against the callee's contract, not its body).  The stub records (dfunc, X0, times, args) so that the
right-hand side the model integrates can itself be evaluated on a symbolic state.
Bounded in array shape (graph size, number of degree classes, tcount); exact in the values (sympy rationals)."""
import contextlib
import itertools
import numpy as np
import sympy as sp

_counter = itertools.count()


class OdeCall:
    def __init__(self, dfunc, X0, times, args, X):
        self.dfunc, self.X0, self.times, self.args, self.X = dfunc, X0, times, args, X


def rat(x, tol=1e-12):
    """exact rational for a float produced by the code (1/N, k/N ...)"""
    if isinstance(x, sp.Basic):
        return x.xreplace({f: sp.nsimplify(f, rational=True, tolerance=tol) for f in x.atoms(sp.Float)})
    if isinstance(x, (float, np.floating)):
        return sp.nsimplify(float(x), rational=True, tolerance=tol)
    if isinstance(x, (int, np.integer)):
        return sp.Integer(int(x))
    return x


def rat_array(a):
    a = np.asarray(a, dtype=object)
    out = np.empty(a.shape, dtype=object)
    for idx in np.ndindex(a.shape):
        out[idx] = rat(a[idx])
    return out


def zero(e):
    """is the symbolic expression identically 0 ?"""
    e = rat(e)
    if e == 0:
        return True
    e = sp.simplify(sp.together(sp.expand(e)))
    if e == 0:
        return True
    # a pure number that the rationalisation of the code's floats left at rounding level (1/N, k/N ... computed in floating point and
    # not recovered exactly by nsimplify): equal up to 1e-9 is equal for the purposes of these identities
    if getattr(e, 'is_number', False) and not e.free_symbols:
        try:
            return abs(complex(e)) < 1e-9
        except Exception:
            return False
    return False


@contextlib.contextmanager
def stubbed(calls, prefix='x'):
    import EoN.analytic as A
    from scipy import integrate as sint
    orig_odeint, orig_my = A.integrate.odeint, A._my_odeint_

    def stub(dfunc, X0, times, args=(), **kw):
        X0a = rat_array(np.asarray(X0, dtype=object).ravel() if np.ndim(X0) else np.array([X0], dtype=object))
        n, m = len(times), len(X0a)
        k = next(_counter)
        X = np.empty((n, m), dtype=object)
        X[0, :] = X0a
        for i in range(1, n):
            for j in range(m):
                X[i, j] = sp.Symbol('%s%d_%d_%d' % (prefix, k, i, j), real=True)
        calls.append(OdeCall(dfunc, X0a, times, args, X))
        return X
    A.integrate.odeint = stub
    A._my_odeint_ = stub
    try:
        yield
    finally:
        A.integrate.odeint = orig_odeint
        A._my_odeint_ = orig_my


def sym(name, **kw):
    kw.setdefault('real', True)
    return sp.Symbol(name, **kw)


def state_symbols(call, row):
    return [call.X[row, j] for j in range(call.X.shape[1])]


def rhs_at(call, state, t=0):
    """evaluate the recorded right-hand side on a symbolic state (numpy object array)"""
    X = np.array(list(state), dtype=object)
    d = call.dfunc(X, t, *call.args)
    return rat_array(np.asarray(d, dtype=object).ravel())


def linear_gradient(expr, symbols):
    expr = sp.expand(rat(expr))
    return [sp.diff(expr, s) for s in symbols]
