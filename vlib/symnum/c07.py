"""C07 / C08 (bounded stand-ins, E3): Taylor coefficients of the model outputs at tmin, computed EXACTLY from the real code.

For an entry point run with the odeint contract stub we obtain the integrated right-hand side f (the recorded dfunc),
the initial state X0 and the observables S, I, R as expressions of the state.  The k-th time derivative of an
observable at tmin is the k-fold Lie derivative  L_f^k(obs)(X0)  - an exact symbolic expression in tau, gamma, rho.
Two models that produce the same curves must have the same Lie derivatives of S, I, R of every order; we compare
orders 0..ORDER (a necessary condition, strong against realistic changes of a right-hand side or an initial
condition).  The full equivalence (semiconjugacy + uniqueness of ODE solutions) is cited, not machine-checked."""
import inspect
import time
import traceback
import numpy as np
import sympy as sp
import networkx as nx
from ..common import Ob
from . import harness as Hn


NOT_COVERED = []


def model_taylor(name, args, kw, order, subs=None, fixed_N=None):
    """-> dict obs -> [c0..c_order] exact Lie derivatives at tmin  (or raises)"""
    import EoN
    f = getattr(EoN, name)
    sig = inspect.signature(f)
    kw = dict(kw)
    if 'tcount' in sig.parameters:
        kw.update(tmin=0, tmax=1, tcount=2)
    calls = []
    with Hn.stubbed(calls):
        r = f(*args, **kw)
    if len(calls) != 1:
        raise RuntimeError('%d ODE calls' % len(calls))
    call = calls[0]
    row = Hn.state_symbols(call, 1)
    ys = [sp.Symbol('y%d' % j, real=True) for j in range(len(row))]
    to_y = dict(zip(row, ys))
    fy = [sp.sympify(v) for v in Hn.rhs_at(call, ys)]
    if subs:
        fy = [v.subs(subs) for v in fy]
    at0 = dict(zip(ys, [sp.sympify(Hn.rat(v)).subs(subs or {}) for v in call.X0]))
    sir = ('SIR' in name) or ('EBCM' in name)
    series = [('S', r[1]), ('I', r[2])] + ([('R', r[3])] if sir and len(r) > 3 else [])
    out = {}
    for nm, a in series:
        a = np.asarray(a, dtype=object)
        a = a.sum(axis=0) if a.ndim == 2 else a
        g = sp.sympify(Hn.rat(a[1])).xreplace(to_y)
        if subs:
            g = g.subs(subs)
        cs = []
        for k in range(order + 1):
            cs.append(sp.simplify(sp.together(g.xreplace(at0))))
            if k < order:
                g = sum(sp.diff(g, y) * v for y, v in zip(ys, fy))
        out[nm] = cs
    return out


def same(a, b):
    return Hn.zero(sp.sympify(a) - sp.sympify(b))


def compare(label, fid, A, B, order, bound, t0):
    """A, B : (description, taylor dict) -> one Ob"""
    bad = []
    for obs in ('S', 'I', 'R'):
        if obs in A[1] and obs in B[1]:
            for k in range(order + 1):
                if not same(A[1][obs][k], B[1][obs][k]):
                    bad.append('d^%d %s/dt^%d at tmin: %s (%s) vs %s (%s)' % (k, obs, k, sp.simplify(A[1][obs][k]), A[0], sp.simplify(B[1][obs][k]), B[0]))
                    break
    return Ob(label, fid, 'post', 'bounded-refuted' if bad else 'bounded-ok',
              backend='exact Lie derivatives of the real right-hand sides (sympy) with odeint contract stub', seconds=round(time.time() - t0, 2),
              detail='; '.join(bad[:2]), site=fid, bounded=bound, witness=dict(differences=bad) if bad else None,
              replayed=True if bad else None, engine='E3')


def hierarchy_graphs(tier):
    """a generator: the last graph is the FIRST graph object rewired in place (same numbers of nodes and edges, another degree
    sequence) after the models have already been run on it - results must depend on the graph's content, not on its identity"""
    G = nx.Graph(); G.add_edges_from([(0, 1), (1, 2), (2, 3), (1, 3), (3, 4), (4, 5), (5, 0), (2, 5)])
    first = G
    yield ('degrees 2,3,3,3,2,3', G)
    G = nx.Graph(); G.add_edges_from([(0, 1), (1, 2), (2, 3), (3, 0), (0, 0), (2, 4)])
    yield ('a self-loop (degrees 4,2,3,2,1)', G)
    if tier != 'quick':
        G = nx.Graph(); G.add_edges_from([(0, 1), (0, 2), (0, 3), (1, 2), (3, 4), (4, 5)])
        yield ('degrees 3,2,2,2,2,1', G)
    first.remove_edge(4, 5); first.remove_edge(2, 5); first.add_edge(1, 4); first.add_edge(1, 5)
    yield ('the first graph rewired in place (degrees 2,5,2,3,3,1)', first)


def regular_graphs(tier):
    gs = [('cycle C5', nx.cycle_graph(5))]
    if tier != 'quick':
        gs.append(('K4', nx.complete_graph(4)))
        gs.append(('cube', nx.hypercube_graph(3)))
    return gs


def c07_obligations(tier='quick', order=None):
    order = order or (2 if tier == 'quick' else 3)
    out = []
    tau, gamma, rho = Hn.sym('tau', positive=True), Hn.sym('gamma', positive=True), Hn.sym('rho', positive=True)
    # ---- SIR hierarchy on arbitrary degree distributions, uniformly random initial infection
    hier = ['EBCM_from_graph', 'SIR_compact_pairwise_from_graph', 'SIR_super_compact_pairwise_from_graph',
            'SIR_compact_effective_degree_from_graph', 'SIR_effective_degree_from_graph']
    for gname, G in hierarchy_graphs(tier):
        ref = None
        for name in hier:
            t0 = time.time()
            fid = 'EoN/analytic.py:%s' % name
            bound = 'graph with %s; Lie derivatives of S, I, R of order <= %d at tmin; symbolic tau, gamma, rho' % (gname, order)
            try:
                T = model_taylor(name, (G, tau, gamma), dict(rho=rho), order)
            except Exception as e:
                try:
                    T = model_taylor(name, (G, tau, gamma), dict(rho=sp.Rational(1, 5)), order, subs=None)
                    T = ('rho=1/5', T)
                except Exception as e2:
                    NOT_COVERED.append('%s in the SIR hierarchy: right-hand side not evaluable on exact values (%s)' % (name, type(e2).__name__))
                    continue
            if isinstance(T, tuple):
                # compare at rho = 1/5 against the reference at rho = 1/5
                if ref is not None:
                    refs = {k: [c.subs(rho, sp.Rational(1, 5)) for c in v] for k, v in ref[1].items()}
                    out.append(compare('E3:hierarchy:%s==%s:%s' % (name, ref[0], gname), fid, (name + ' at rho=1/5', T[1]), (ref[0], refs), order, bound, t0))
                continue
            if ref is None:
                ref = (name, T)
                continue
            out.append(compare('E3:hierarchy:%s==%s:%s' % (name, ref[0], gname), fid, (name, T), ref, order, bound, t0))
    # ---- regular graphs: pairwise family and mean-field family, SIS and SIR
    fams = {
        'SIR-pairwise': ['SIR_homogeneous_pairwise_from_graph', 'SIR_heterogeneous_pairwise_from_graph', 'SIR_compact_pairwise_from_graph'],
        'SIS-pairwise': ['SIS_homogeneous_pairwise_from_graph', 'SIS_heterogeneous_pairwise_from_graph', 'SIS_compact_pairwise_from_graph'],
        'SIR-meanfield': ['SIR_homogeneous_meanfield_from_graph', 'SIR_heterogeneous_meanfield_from_graph'],
        'SIS-meanfield': ['SIS_homogeneous_meanfield_from_graph', 'SIS_heterogeneous_meanfield_from_graph'],
    }
    for gname, G in regular_graphs(tier):
        for fam, names in fams.items():
            ref = None
            for name in names:
                t0 = time.time()
                fid = 'EoN/analytic.py:%s' % name
                bound = 'regular graph %s; Lie derivatives of order <= %d at tmin; rho = 1/5 (the code branches on rho), symbolic tau, gamma' % (gname, order)
                try:
                    T = model_taylor(name, (G, tau, gamma), dict(rho=sp.Rational(1, 5)), order)
                except Exception as e:
                    out.append(Ob('E3:regular:%s:%s:%s' % (fam, name, gname), fid, 'post', 'undecided', 'not evaluable', 0.0,
                                  detail='%s: %s' % (type(e).__name__, str(e)[:100]), site=fid, bounded=bound, engine='E3',
                                  replay_note='model could not be evaluated'))
                    continue
                if ref is None:
                    ref = (name, T)
                    continue
                out.append(compare('E3:regular:%s:%s==%s:%s' % (fam, name, ref[0], gname), fid, (name, T), ref, order, bound, t0))
    # ---- preferential mixing EBCM with uncorrelated mixing == EBCM
    t0 = time.time()
    try:
        import EoN
        G = next(iter(hierarchy_graphs('quick')))[1]
        Pk = EoN.get_Pk(G)
        Pk = {k: sp.nsimplify(v, rational=True) for k, v in Pk.items()}
        kave = sum(k * p for k, p in Pk.items())
        Pnk = {k1: {k2: k2 * Pk[k2] / kave for k2 in Pk} for k1 in Pk}
        N = G.order()
        psi = lambda x: sum(p * x ** k for k, p in Pk.items())
        psiP = lambda x: sum(k * p * x ** (k - 1) for k, p in Pk.items() if k >= 1)
        A = model_taylor('EBCM_pref_mix', (N, Pk, Pnk, tau, gamma), dict(rho=rho), order)
        B = model_taylor('EBCM_uniform_introduction', (N, psi, psiP, tau, gamma, rho), dict(), order)
        out.append(compare('E3:EBCM_pref_mix(uncorrelated)==EBCM', 'EoN/analytic.py:EBCM_pref_mix', ('EBCM_pref_mix', A), ('EBCM_uniform_introduction', B), order,
                           'degree distribution of one 6-node graph, uncorrelated Pnk; Lie derivatives of order <= %d; symbolic tau, gamma, rho' % order, t0))
    except Exception as e:
        out.append(Ob('E3:EBCM_pref_mix(uncorrelated)==EBCM', 'EoN/analytic.py:EBCM_pref_mix', 'post', 'undecided', 'not evaluable', 0.0,
                      detail='%s: %s' % (type(e).__name__, str(e)[:150]), site='EoN/analytic.py:EBCM_pref_mix', bounded='-', engine='E3',
                      replay_note=traceback.format_exc()[-300:]))
    return out


def solved_hierarchy_obligations(tier='quick'):
    """the models whose right-hand sides cannot be evaluated on exact values (effective degree, compact effective degree; node-level
    individual-based / pair-based on regular graphs) are compared through real numeric solves (scipy odeint, no stub): S, I, R at a few
    times must agree with the reference model of their family to 1e-4*N.  Bounded (graphs, rates, rho, horizon) and labelled so."""
    import EoN
    out = []
    tau, gamma = 0.8, 1.1

    def solve(name, G, **kw):
        r = getattr(EoN, name)(G, tau, gamma, tmin=0.5, tmax=4.5, tcount=5, **kw)
        return [np.asarray(a, dtype=float) for a in r[:4]]
    groups = []
    for gname, G in hierarchy_graphs(tier):
        if 'self-loop' in gname:
            continue                     # how a self-loop enters the (s, i) classes of the effective-degree models is not fixed by the property
        for rho in (0.05, 0.3):
            groups.append(('hierarchy', 'EBCM_from_graph', ['SIR_effective_degree_from_graph', 'SIR_compact_effective_degree_from_graph', 'SIR_compact_pairwise_from_graph',
                                                            'SIR_super_compact_pairwise_from_graph'], gname, G.copy(), dict(rho=rho)))
    for gname, G in regular_graphs(tier):
        groups.append(('regular-SIR', 'SIR_homogeneous_pairwise_from_graph', ['SIR_pair_based'], gname, G, dict(rho=0.2)))
        groups.append(('regular-SIS', 'SIS_homogeneous_pairwise_from_graph', ['SIS_pair_based'], gname, G, dict(rho=0.2)))
        groups.append(('regular-SIR-mf', 'SIR_homogeneous_meanfield_from_graph', ['SIR_individual_based'], gname, G, dict(rho=0.2)))
        groups.append(('regular-SIS-mf', 'SIS_homogeneous_meanfield_from_graph', ['SIS_individual_based'], gname, G, dict(rho=0.2)))
    for fam, refname, names, gname, G, kw in groups:
        t0 = time.time()
        try:
            ref = solve(refname, G, **kw)
        except Exception as e:
            out.append(Ob('native:solved:%s:%s:%s:%s' % (fam, refname, gname, kw), 'EoN/analytic.py:%s' % refname, 'post', 'undecided', 'numeric solve', 0.0,
                          detail='%s: %s' % (type(e).__name__, str(e)[:120]), site='EoN/analytic.py:%s' % refname, bounded='-', engine='E5-bounded', replay_note='reference model failed'))
            continue
        N = G.order()
        for name in names:
            t1 = time.time()
            fid = 'EoN/analytic.py:%s' % name
            bad = None
            try:
                got = solve(name, G, **kw)
                k = min(len(ref), len(got))
                dev = max(float(np.abs(a - b).max()) for a, b in zip(ref[1:k], got[1:k]))
                if not dev <= 1e-4 * N:
                    bad = 'integrated curves of %s and %s differ by %.3g (N=%d, tau=%s, gamma=%s, %s, t in [0.5, 4.5])' % (name, refname, dev, N, tau, gamma, kw)
            except Exception as e:
                bad = '%s: %s' % (type(e).__name__, str(e)[:150])
            out.append(Ob('native:solved:%s:%s==%s:%s:%s' % (fam, name, refname, gname, sorted(kw.items())), fid, 'post', 'bounded-refuted' if bad else 'bounded-ok',
                          backend='real numeric solves (scipy odeint) of both models', seconds=round(time.time() - t1, 2), detail=bad or '', site=fid,
                          bounded='graph %s, tau=%s, gamma=%s, %s, 5 report times, tolerance 1e-4*N' % (gname, tau, gamma, kw),
                          witness=dict(graph=gname, edges=[[str(a), str(b)] for a, b in G.edges()], arguments={k_: str(v) for k_, v in kw.items()}, observed=bad) if bad else None,
                          replayed=True if bad else None, engine='E5-bounded'))
    return out


def c08_obligations(tier='quick'):
    import EoN
    out = []
    tau, gamma, rho = Hn.sym('tau', positive=True), Hn.sym('gamma', positive=True), Hn.sym('rho', positive=True)
    G = next(iter(hierarchy_graphs('quick')))[1]
    Greg = nx.cycle_graph(5)
    ode_wrappers = [n for n in dir(EoN) if n.endswith('_from_graph') and n.startswith(('SIS_', 'SIR_', 'EBCM_from', 'EBCM_pref_mix_from'))]
    order = 2
    # (1) tau = 0 : I(t) = I(0) exp(-gamma t); S constant for the SIR models (for SIS models S = N - I, see DESIGN)
    for name in sorted(ode_wrappers):
        t0 = time.time()
        fid = 'EoN/analytic.py:%s' % name
        sig = inspect.signature(getattr(EoN, name))
        sir = not name.startswith('SIS_')
        bound = 'one 6-node graph, Lie derivatives of order <= %d at tmin with tau := 0; rho symbolic or 1/5' % order
        T = None
        for r_ in (rho, sp.Rational(1, 5)):
            for graph in (G, Greg):
                try:
                    T = model_taylor(name, (graph, tau, gamma), dict(rho=r_), order, subs={tau: 0})
                    break
                except Exception as e:
                    err = e
            if T is not None:
                break
        if T is None:
            NOT_COVERED.append('%s at tau=0: right-hand side not evaluable on exact values (%s)' % (name, type(err).__name__))
            continue
        bad = []
        I0 = T['I'][0]
        if not same(T['I'][1], -gamma * I0) or not same(T['I'][2], gamma ** 2 * I0):
            bad.append('with tau=0: I\'(tmin) = %s, I\'\'(tmin) = %s but -gamma*I0 = %s' % (T['I'][1], T['I'][2], sp.simplify(-gamma * I0)))
        if sir and (not same(T['S'][1], 0) or not same(T['S'][2], 0)):
            bad.append('with tau=0: S\'(tmin) = %s, S\'\'(tmin) = %s (should be 0)' % (T['S'][1], T['S'][2]))
        if not sir and not same(T['S'][1], gamma * I0):
            bad.append('with tau=0 (SIS): S\'(tmin) = %s but gamma*I0 = %s' % (T['S'][1], sp.simplify(gamma * I0)))
        out.append(Ob('E3:tau0:%s' % name, fid, 'post', 'bounded-refuted' if bad else 'bounded-ok',
                      backend='exact Lie derivatives of the real right-hand side at tau=0', seconds=round(time.time() - t0, 2), detail='; '.join(bad),
                      site=fid, bounded=bound, witness=dict(differences=bad) if bad else None, replayed=True if bad else None, engine='E3'))
    # (2) gamma = 0 : SIS and SIR versions of a model give the same S(t) (super-compact pair excluded by the property)
    for base in ('homogeneous_meanfield', 'homogeneous_pairwise', 'heterogeneous_meanfield', 'heterogeneous_pairwise', 'compact_pairwise'):
        t0 = time.time()
        a, b = 'SIS_%s_from_graph' % base, 'SIR_%s_from_graph' % base
        fid = 'EoN/analytic.py:%s' % b
        try:
            TA = model_taylor(a, (Greg, tau, gamma), dict(rho=sp.Rational(1, 5)), 3, subs={gamma: 0})
            TB = model_taylor(b, (Greg, tau, gamma), dict(rho=sp.Rational(1, 5)), 3, subs={gamma: 0})
        except Exception as e:
            NOT_COVERED.append('%s vs %s at gamma=0: not evaluable (%s)' % (a, b, type(e).__name__))
            continue
        bad = []
        for k in range(4):
            if not same(TA['S'][k], TB['S'][k]):
                bad.append('with gamma=0: d^%d S/dt^%d at tmin is %s for %s and %s for %s' % (k, k, TA['S'][k], a, TB['S'][k], b))
                break
        out.append(Ob('E3:gamma0:%s' % base, fid, 'post', 'bounded-refuted' if bad else 'bounded-ok',
                      backend='exact Lie derivatives of the real right-hand sides at gamma=0', seconds=round(time.time() - t0, 2), detail='; '.join(bad),
                      site=fid, bounded='cycle C5, rho=1/5, Lie derivatives of S of order <= 3 at tmin', witness=dict(differences=bad) if bad else None,
                      replayed=True if bad else None, engine='E3'))
    # (3) EBCM_discrete: R(t+1) = R(t) + I(t), S + I + R = N  (exact, symbolic p and rho)
    t0 = time.time()
    p = Hn.sym('p', positive=True)
    Pk = {1: sp.Rational(1, 4), 2: sp.Rational(1, 2), 3: sp.Rational(1, 4)}
    psi = lambda x: sum(c * x ** k for k, c in Pk.items())
    psiP = lambda x: sum(k * c * x ** (k - 1) for k, c in Pk.items())
    bad = []
    try:
        t, S, I_, R_ = EoN.EBCM_discrete_uniform_introduction(10, psi, psiP, p, rho, tmax=3)
        for i in range(len(t) - 1):
            if not Hn.zero(R_[i + 1] - R_[i] - I_[i]):
                bad.append('R(%d)-R(%d)-I(%d) = %s' % (i + 1, i, i, sp.simplify(R_[i + 1] - R_[i] - I_[i])))
            if not Hn.zero(S[i] + I_[i] + R_[i] - 10):
                bad.append('S+I+R-N = %s at step %d' % (sp.simplify(S[i] + I_[i] + R_[i] - 10), i))
    except Exception as e:
        bad.append('%s: %s' % (type(e).__name__, str(e)[:120]))
    out.append(Ob('E3:EBCM_discrete:R(t+1)=R(t)+I(t)', 'EoN/analytic.py:EBCM_discrete', 'post', 'bounded-refuted' if bad else 'bounded-ok',
                  backend='real code on exact symbolic values', seconds=round(time.time() - t0, 2), detail='; '.join(bad[:2]), site='EoN/analytic.py:EBCM_discrete',
                  bounded='one degree distribution, 3 steps, symbolic p and rho', witness=dict(differences=bad) if bad else None,
                  replayed=True if bad else None, engine='E3'))
    # (4) final sizes vs long-time limits (numeric, bounded): Attack_rate_cts_time ~ EBCM R(T)/N ; Attack_rate_discrete ~ EBCM_discrete R(T)/N
    for label, Pkf in (('Poisson-like', {0: .1, 1: .2, 2: .3, 3: .25, 4: .15}), ('bimodal', {1: .5, 6: .5})):
        t0 = time.time()
        bad = []
        try:
            psi = lambda x, Pkf=Pkf: sum(c * x ** k for k, c in Pkf.items())
            psiP = lambda x, Pkf=Pkf: sum(k * c * x ** (k - 1) for k, c in Pkf.items() if k >= 1)
            r0 = 0.001
            ar = EoN.Attack_rate_cts_time(Pkf, 1.5, 1.0, rho=r0)
            t, S, I_, R_ = EoN.EBCM_uniform_introduction(1.0, psi, psiP, 1.5, 1.0, r0, tmax=200, tcount=401)
            if abs(ar - R_[-1]) > 2e-3 + r0:
                bad.append('Attack_rate_cts_time = %.5f but EBCM R(200)/N = %.5f' % (ar, R_[-1]))
            ard = EoN.Attack_rate_discrete(Pkf, 0.6, rho=r0)
            t, S, I_, R_ = EoN.EBCM_discrete_uniform_introduction(1.0, psi, psiP, 0.6, r0, tmax=200)
            if abs(ard - R_[-1]) > 2e-3 + r0:
                bad.append('Attack_rate_discrete = %.5f but EBCM_discrete R(200)/N = %.5f' % (ard, R_[-1]))
        except Exception as e:
            bad.append('%s: %s' % (type(e).__name__, str(e)[:150]))
        out.append(Ob('native:final-size:%s' % label, 'EoN/analytic.py:Attack_rate_cts_time', 'post', 'bounded-refuted' if bad else 'bounded-ok',
                      backend='native numeric comparison (CPython, scipy odeint)', seconds=round(time.time() - t0, 2), detail='; '.join(bad),
                      site='EoN/analytic.py:Attack_rate_cts_time / Attack_rate_discrete', bounded='degree distribution %s, tau=1.5, gamma=1, p=0.6, rho=0.001, T=200, tolerance 3e-3' % label,
                      witness=dict(differences=bad) if bad else None, replayed=True if bad else None, engine='E5-bounded'))
    return out
