"""Reports, verdict policy (DESIGN section 2), evidence files, known findings, replay files."""
import json
import os
import sys
import time

HERE = os.path.dirname(os.path.dirname(os.path.abspath(__file__)))
REPO = os.environ.get('VERIF_REPO', '/repo')
# evidence / replay files of runs against a scratch copy (mutation self-test, VERIF_REPO set) never overwrite the
# real ones: they go to a scratch directory
_SCRATCH = os.environ.get('VERIF_REPO') not in (None, '', '/repo')
EVIDENCE_DIR = os.path.join(HERE, 'evidence') if not _SCRATCH else os.path.join(os.environ['VERIF_REPO'], '.verif_evidence')
REPLAY_DIR = os.path.join(HERE, 'replay', 'out') if not _SCRATCH else os.path.join(os.environ['VERIF_REPO'], '.verif_replay')
KNOWN_FILE = os.path.join(HERE, 'known_findings.json')
BASELINE_FILE = os.path.join(HERE, 'baseline_obligations.json')


def load_baseline(prop, which='discharged'):
    """ids -> function of the obligations that are discharged (which='discharged': unbounded) or bounded-ok
    (which='bounded') on the unchanged tree (committed; regenerated with VERIF_RECORD_BASELINE=1 tools/runall.sh)"""
    try:
        with open(BASELINE_FILE) as fh:
            d = json.load(fh).get(prop, {})
    except Exception:
        return {}
    if isinstance(d, list):            # old format: discharged ids only
        return {i: '' for i in d} if which == 'discharged' else {}
    return dict(d.get(which, {}))

TRUSTED_COMMON = [
    'the VC generator vlib/pyvc (own AST->z3 symbolic executor; Python semantics idealised: mathematical integers and reals, no rounding/overflow/NaN, insertion-ordered dicts, distinct parameters do not alias)',
    'z3 5.1 answering unsat (no second solver is consulted; finite-scope z3 models are used only to refute)',
    'assumed library contracts in vlib/pyvc/lib.py (random, numpy, heapq, collections, networkx read-only API)',
    'finite-sum / cardinality update lemmas for wsum and cnt (vlib/pyvc/sorts.py)',
]


class Ob:
    """one decided (or undecided) obligation of a property"""

    def __init__(self, id, function, kind, status, backend='', seconds=0.0, detail='', site='', bounded=None,
                 witness=None, replayed=None, replay_note='', engine='E1'):
        self.id, self.function, self.kind, self.status = id, function, kind, status
        self.backend, self.seconds, self.detail, self.site = backend, seconds, detail, site
        self.bounded, self.witness, self.replayed, self.replay_note, self.engine = bounded, witness, replayed, replay_note, engine

    def to_json(self):
        d = dict(id=self.id, function=self.function, kind=self.kind, status=self.status, backend=self.backend,
                 seconds=self.seconds, site=self.site, engine=self.engine)
        if self.detail:
            d['detail'] = self.detail[:600]
        if self.bounded:
            d['bounded'] = self.bounded
        return d


class Report:
    def __init__(self, prop, tier, seed):
        self.prop, self.tier, self.seed = prop, tier, seed
        self.obs = []
        self.functions = []          # dicts: file, qualname, sha256_16, cases
        self.assumptions = []
        self.trusted = list(TRUSTED_COMMON)
        self.notes = []
        self.errors = []             # checker-level problems (undecided units): strings
        self.crashes = []
        self.level = 'proof'
        self.explanation = ''
        self.not_covered = []
        self.extra = {}
        # True when the bounded obligations only BACK UP a property whose deciding obligations are the unbounded ones
        # (they are still reported separately and never added to `discharged`)
        self.bounded_is_supplementary = False
        self.t0 = time.time()

    def add(self, ob):
        self.obs.append(ob)

    def add_unit_results(self, results, site_prefix=''):
        """results of pyvc.verify.verify_many -> obligations of this report"""
        for u in results:
            self.functions.append(dict(file=u.get('file'), qualname=u['function'], case=u['case'], sha256_16=u.get('sha'),
                                       paths=u.get('paths'), obligations=len(u['obligations']), seconds=u.get('seconds'),
                                       vacuity=u.get('vacuity')))
            if u['status'] == 'crash':
                self.crashes.append('%s: %s' % (u['unit'], u['error']))
            elif u['status'] == 'undecided':
                self.errors.append('%s: %s' % (u['unit'], u['error']))
            for o in u['obligations']:
                self.add(Ob(id=o['id'], function='%s:%s' % (u.get('file'), u['function']), kind=o['kind'],
                            status=o['status'], backend=o['backend'], seconds=o['seconds'],
                            detail=('goal: ' + o.get('goal', '')) if o['status'] != 'discharged' else '',
                            site='%s:%s line %d' % (u.get('file'), u['function'], o['lineno']),
                            witness=o.get('model'), engine='E1',
                            replay_note=('solver: %s %s' % (o['result'], o.get('reason', '')))))


def load_known():
    if not os.path.exists(KNOWN_FILE):
        return []
    with open(KNOWN_FILE) as fh:
        return json.load(fh).get('findings', [])


def known_match(prop, ob, known):
    for k in known:
        if k.get('status') != 'known' or k.get('property') != prop:
            continue
        if k.get('obligation_id') == ob.id:
            return k
    return None


def finish(rep, replayer=None):
    """prints verdict lines, writes evidence + replay files, returns exit code"""
    os.makedirs(EVIDENCE_DIR, exist_ok=True)
    os.makedirs(REPLAY_DIR, exist_ok=True)
    known = load_known()
    # an obligation that is discharged on the unchanged tree (baseline_obligations.json) and is no longer discharged is
    # reported as a violation even without a counter-model (VIOLATION ... no-failing-input-found, solver reason attached)
    base = load_baseline(rep.prop)
    base_b = load_baseline(rep.prop, 'bounded')
    for o in rep.obs:
        if o.status == 'undecided' and o.id in base and not o.bounded:
            o.status = 'refuted'
            o.backend += '; was discharged on the unchanged tree, now not discharged and not refuted at finite scope'
            o.replay_note = (o.replay_note or '') + ' [regression of a baseline obligation]'
        elif o.status == 'undecided' and o.bounded and o.id in base_b:
            o.status = 'bounded-refuted'
            o.backend += '; this bounded check ran to completion on the unchanged tree, now its harness cannot decide (see detail)'
            o.replay_note = (o.replay_note or '') + ' [regression of a baseline obligation]'
    # a verification unit / bounded check of the baseline that produced NOTHING in this run (function gone, harness aborted
    # before reaching it): reported as one regression per unit.  Flow-analysis (E2) obligations are exempt: their ids follow
    # helper names, and renaming a private helper is harmless.
    if not os.environ.get('VERIF_RECORD_BASELINE') and rep.tier in ('quick', 'thorough') and not getattr(rep, 'partial', False):
        have = {o.id for o in rep.obs}
        have_units = {o.id.split(':')[0] for o in rep.obs if '[' in o.id.split(':')[0]}
        gone = {}
        for bid, fn in list(base.items()) + list(base_b.items()):
            head = bid.split(':')[0]
            if '[' in head:
                if head not in have_units:
                    gone.setdefault(head, (bid, fn))
            elif bid in base_b and bid not in have:
                gone.setdefault(bid, (bid, fn))
        for unit, (bid, fn) in sorted(gone.items()):
            rep.obs.append(Ob(unit if '[' in unit else bid, fn or unit, 'post', 'refuted' if bid in base else 'bounded-refuted',
                              backend='baseline comparison', detail='no obligation of this unit was generated in this run although it is discharged on the unchanged tree '
                              '(function removed / renamed, or the harness aborted before reaching it)', site=fn or unit,
                              bounded=('see baseline' if bid in base_b and bid not in base else None),
                              replay_note='unit missing from this run [regression of a baseline obligation]', engine='baseline'))
    if os.environ.get('VERIF_RECORD_BASELINE'):
        try:
            data = json.load(open(BASELINE_FILE)) if os.path.exists(BASELINE_FILE) else {}
        except Exception:
            data = {}
        data[rep.prop] = dict(discharged={o.id: o.function for o in rep.obs if o.status == 'discharged' and not o.bounded},
                              bounded={o.id: o.function for o in rep.obs if o.status == 'bounded-ok'})
        with open(BASELINE_FILE, 'w') as fh:
            json.dump(data, fh, indent=0, sort_keys=True)
    refuted = [o for o in rep.obs if o.status in ('refuted', 'bounded-refuted')]
    undecided = [o for o in rep.obs if o.status == 'undecided']
    violations, known_hits = [], []
    for o in refuted:
        k = known_match(rep.prop, o, known)
        if k is not None:
            known_hits.append((o, k))
        else:
            violations.append(o)
    # group violations by (function, kind, site) so that one defect prints one line
    lines = []
    seen_known = set()
    for o, k in known_hits:
        key = k.get('obligation_id')
        if key in seen_known:
            continue
        seen_known.add(key)
        lines.append('KNOWN-FINDING: property=%s %s' % (rep.prop, k.get('what', o.id)))
    nviol = 0
    grouped = {}
    for o in violations:
        grouped.setdefault(o.function, []).append(o)
    for fn, obs in grouped.items():
        o = obs[0]
        nviol += 1
        path = os.path.join(REPLAY_DIR, '%s-%03d.json' % (rep.prop, nviol))
        rp = dict(property=rep.prop, obligation=o.id, function=o.function, kind=o.kind, site=o.site,
                  backend=o.backend, verifier_output=o.replay_note, detail=o.detail, counter_model=o.witness,
                  all_failed_obligations=sorted({x.id for x in obs}), occurrences=len(obs), replay=None)
        found = False
        if replayer is not None:
            try:
                r = replayer(o)
                if r is not None:
                    rp['replay'] = r
                    found = bool(r.get('failure_exhibited'))
            except Exception as e:           # a replay problem never changes the verdict
                rp['replay'] = dict(error='%s: %s' % (type(e).__name__, e))
        with open(path, 'w') as fh:
            json.dump(rp, fh, indent=1, default=str)
        lines.append('VIOLATION property=%s replay=%s obligation=%s%s' % (
            rep.prop, path, o.id, '' if found else ' no-failing-input-found'))
    for o in undecided[:20]:
        lines.append('UNDECIDED property=%s obligation=%s (%s)' % (rep.prop, o.id, o.replay_note))
    for e in rep.errors[:20]:
        lines.append('UNDECIDED property=%s %s' % (rep.prop, e[:300]))
    for e in rep.crashes[:5]:
        lines.append('CHECKER-CRASH property=%s %s' % (rep.prop, e[:2000]))
    if nviol:
        code = 1
    elif rep.crashes:
        code = 3
    elif undecided or rep.errors:
        code = 2
    else:
        code = 0
    write_evidence(rep, nviol, known_hits, undecided)
    for l in lines:
        print(l)
    unb = [o for o in rep.obs if not o.bounded]
    bnd = [o for o in rep.obs if o.bounded]
    print('%s tier=%s: %d obligations (%d discharged unbounded, %d bounded-ok), %d violation(s), %d known finding(s), %d undecided, %.1fs'
          % (rep.prop, rep.tier, len(rep.obs), sum(1 for o in unb if o.status == 'discharged'),
             sum(1 for o in bnd if o.status in ('bounded-ok', 'discharged')), nviol, len(seen_known),
             len(undecided) + len(rep.errors), time.time() - rep.t0))
    return code


def write_evidence(rep, nviol, known_hits, undecided):
    unb = [o for o in rep.obs if not o.bounded]
    bnd = [o for o in rep.obs if o.bounded]
    discharged = sum(1 for o in unb if o.status == 'discharged')
    backends = {}
    for o in rep.obs:
        backends[o.backend.split(';')[0]] = backends.get(o.backend.split(';')[0], 0) + 1
    samples = []
    for o in rep.obs[:: max(1, len(rep.obs) // 8)][:8]:
        samples.append(o.to_json())
    for o in rep.obs:
        if o.status != 'discharged' and len(samples) < 16:
            samples.append(o.to_json())
    level = rep.level
    all_proved = (len(unb) > 0 and discharged == len(unb) and (not bnd or rep.bounded_is_supplementary))
    if level == 'proof' and not all_proved:
        # never report level 'proof' unless every deciding obligation is an unbounded discharged one
        level = 'other'
    cov = dict(
        obligations=len(unb), discharged=discharged,
        checker_cmd='./check %s --tier %s' % (rep.prop, rep.tier),
        trusted_base=rep.trusted,
        functions_under_contract=rep.functions,
        backends=backends,
        solver_seconds=round(sum(o.seconds for o in rep.obs), 3),
        bounded_obligations=len(bnd),
        bounded_ok=sum(1 for o in bnd if o.status in ('bounded-ok', 'discharged')),
        bounded_bounds=sorted({o.bounded for o in bnd}),
        refuted=[o.to_json() for o in rep.obs if o.status in ('refuted', 'bounded-refuted')][:40],
        known_findings_reproduced=sorted({k.get('obligation_id') for _, k in known_hits}),
        undecided=[o.to_json() for o in undecided][:40],
        undecided_units=rep.errors[:40],
        not_covered=rep.not_covered,
        samples=samples,
        explanation=rep.explanation or ('contract-based deductive verification: %d obligations generated from the current '
                                        'source of %d function(s)/case(s), %d discharged' % (len(rep.obs), len(rep.functions), discharged)),
        evaluations=len(rep.obs), distinct_nontrivial=len({o.id for o in rep.obs}),
        rule='one evaluation = one verification condition generated from the real source; distinct = distinct obligation ids',
        notes=rep.notes,
    )
    cov.update(rep.extra)
    ev = dict(property_id=rep.prop, tier=rep.tier, seed=rep.seed, level=level, coverage=cov,
              assumptions=rep.assumptions + rep.trusted, wall_s=round(time.time() - rep.t0, 2), violations=nviol)
    with open(os.path.join(EVIDENCE_DIR, rep.prop + '.json'), 'w') as fh:
        json.dump(ev, fh, indent=1, default=str)
