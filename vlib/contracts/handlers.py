"""Sidecar contracts for the event queue and the event handlers of the event-driven SIR simulator
(EoN/simulation.py): myQueue, _process_trans_SIR_, _process_rec_SIR_, _find_trans_and_rec_delays_SIR_,
_trans_and_rec_time_Markovian_const_trans_, _truncated_exponential_ and EoN._get_rate_functions_.
Properties C01 (fast_SIR half), C04, C09, C11.

The queue content is the list of event records  Ev(time, counter, kind, has_src, src, tgt)  built from the
(time, counter, function, args) tuples the real code pushes; `args` is bound positionally onto the handler's
CURRENT signature, and every shared object (times, S, I, R, Q, status, ...) must be the very object the
caller holds under the same name (identity, not equality) -- a mis-ordered tuple is a refuted obligation."""
import z3
from z3 import And, Or, Not, Implies, If, IntVal, RealVal, BoolVal
from ..pyvc import sorts as so
from ..pyvc.sorts import fresh, I, R, B, cnt
from ..pyvc.values import SList, SDict, SObj, NONE, PyConst, FuncRef, Callback, TupleSpec, Unsupported, coerce, SHeap
from ..pyvc.engine import Unbindable, _EmptyList, _PyList
from ..pyvc.verify import Contract, Case, LoopSpec
from . import types as T

F = 'EoN/simulation.py'
KINDS = {'_process_trans_SIR_': 1, '_process_rec_SIR_': 2, '_process_trans_SIS_Markov': 3, '_process_rec_SIS_': 4,
         '_process_trans_SIS_nonMarkov_': 5}
SHARED = ('G', 'times', 'S', 'I', 'R', 'Q', 'status', 'rec_time', 'pred_inf_time', 'transmissions',
          'trans_and_rec_time_fxn', 'trans_and_rec_time_args', 'infection_times', 'recovery_times',
          'trans_rate_fxn', 'rec_rate_fxn')


def SC(x):
    return so.S['status_const'][x]


def EV():
    return TupleSpec('Ev', [('time', R), ('counter', I), ('kind', I), ('has_src', B), ('src', so.U()), ('tgt', so.U())])


def TR():
    return TupleSpec('Trans', [('time', R), ('src', ('opt', so.U())), ('tgt', so.U())])


def ev_list():
    def mk(run, name, empty=False, **kw):
        ev = EV()
        if empty:
            return SHeap(ev, n=IntVal(0), a=fresh(name + '_a', z3.ArraySort(I, ev.zsort())),
                         dead=z3.K(I, BoolVal(False)), ndead=IntVal(0), name=name)
        return SHeap(ev, name=name)
    return mk


def mk_queue(run, name, empty=False, ctor_args=None, **kw):
    ev = EV()
    q = SObj('myQueue', dict(_Q_=SHeap(ev, name=name + '_Q'), tmax=fresh(name + '_tmax', so.XR()),
                             counter=fresh(name + '_counter', I)), name=name)
    if ctor_args is not None:
        args, kws = ctor_args
        tm = kws.get('tmax', args[0] if args else so.xr_inf())
        q.f['tmax'] = so.to_xr(tm)
        q.f['_Q_'] = SHeap(ev, n=IntVal(0), a=fresh(name + '_Qa', z3.ArraySort(I, ev.zsort())),
                           dead=z3.K(I, BoolVal(False)), ndead=IntVal(0), name=name + '_Q')
        q.f['counter'] = IntVal(0)
    return q


def same_list(a, b):
    c = [a.n == b.n, a.a == b.a]
    if isinstance(a, SHeap) and isinstance(b, SHeap):
        c += [a.dead == b.dead, a.ndead == b.ndead]
    return And(*c)


def _same_dead(new, old):
    if isinstance(new, SHeap) and isinstance(old, SHeap):
        return [new.ndead == old.ndead, so.forall_idx(old.n, lambda i: new.dead[i] == old.dead[i]),
                so.forall_idx(new.n, lambda i: Not(new.dead[i]), lo=old.n)]
    return []


def appended(new, old, x):
    """new == old + [x]"""
    return And(new.n == old.n + 1, new.a[old.n] == x, so.forall_idx(old.n, lambda i: new.a[i] == old.a[i]),
               *_same_dead(new, old))


def extends(new, old):
    return And(new.n >= old.n, so.forall_idx(old.n, lambda i: new.a[i] == old.a[i]), *_same_dead(new, old))


# ---------------------------------------------------------------------------------------------------
# event encoding (shared by the heapq.heappush model and the caller view of myQueue.add)
# ---------------------------------------------------------------------------------------------------

def encode_event(run, fn, args, lineno, check_binding=True):
    """(kind, has_src, src, tgt) of the event `fn(time, *args)`; emits the binding obligations"""
    U = so.U()
    if not isinstance(fn, FuncRef) or fn.qualname not in KINDS:
        if isinstance(fn, PyConst) and fn.v == 'opaque-fn':
            return run.ghost['_payload']
        run.oblige('site', 'event-handler-known', lineno, BoolVal(False))
        return (IntVal(0), BoolVal(False), fresh('nosrc', U), fresh('notgt', U))
    hnode = run.registry.node(fn.qualname)
    params = [x.arg for x in hnode.args.posonlyargs + hnode.args.args][1:]
    ndef = len(hnode.args.defaults)
    if not isinstance(args, tuple):
        raise Unsupported('event arguments are not a literal tuple (line %d)' % lineno)
    ok_arity = len(params) - ndef <= len(args) <= len(params)
    run.oblige('site', 'event-arity:%s' % fn.qualname, lineno, BoolVal(ok_arity))
    bound = dict(zip(params, args))
    env = run.cur_env
    if check_binding:
        for p in params:
            if p in SHARED and p in bound and p in env:
                have = env[p]
                a = bound[p]
                same = (a is have) or (z3.is_expr(a) and z3.is_expr(have) and a.eq(have))
                run.oblige('site', 'event-binding:%s.%s' % (fn.qualname, p), lineno, BoolVal(bool(same)))
    src = bound.get('source', NONE)
    tgt = bound.get('target', bound.get('node'))
    if tgt is None or not (z3.is_expr(tgt) and tgt.sort() == U):
        run.oblige('site', 'event-target-is-node:%s' % fn.qualname, lineno, BoolVal(False))
        tgt = fresh('notgt', U)
    if src is NONE or src is None:
        has, srcv = BoolVal(False), fresh('nosrc', U)
    elif z3.is_expr(src) and src.sort() == U:
        has, srcv = BoolVal(True), src
    else:
        run.oblige('site', 'event-source-is-node:%s' % fn.qualname, lineno, BoolVal(False))
        has, srcv = BoolVal(False), fresh('nosrc', U)
    if 'future_transmissions' in bound:
        run.ghost['_future'] = bound['future_transmissions']      # ghost payload of the event (list of later attempt times)
    return (IntVal(KINDS[fn.qualname]), has, srcv, tgt)


def heappush(run, args, kw, lineno):
    heap, item = args[0], args[1]
    if not isinstance(heap, SHeap):
        raise Unsupported('heapq.heappush on something that is not the event heap')
    if not (isinstance(item, tuple) and len(item) == 4):
        run.oblige('site', 'heap-item-shape', lineno, BoolVal(False))
        raise Unsupported('heap item is not a 4-tuple')
    time, counter, fn, fargs = item
    kind, has, src, tgt = encode_event(run, fn, fargs, lineno, check_binding=False)
    tval = time
    if so.is_xr(time):
        run.oblige('safety', 'finite-value', lineno, Not(so.xr_isinf(time)))
        tval = so.xr_val(time)
    ev = heap.esort.D.mk(coerce(tval, R), counter, kind, has, src, tgt)
    heap.a = z3.Store(heap.a, heap.n, ev)
    heap.dead = z3.Store(heap.dead, heap.n, BoolVal(False))
    heap.n = heap.n + 1
    if so.Mode.finite:
        run.assume(heap.n <= so.Mode.lmax)
    run.assume(heap.wellformed())           # model invariant of the heap (ndead counts the popped indices)
    return NONE


def heappop(run, args, kw, lineno):
    """assumed heapq contract: removes and returns a minimal item (lexicographic on (time, counter))"""
    heap = args[0]
    if not isinstance(heap, SHeap):
        raise Unsupported('heapq.heappop on something that is not the event heap')
    run.oblige('safety', 'heappop-nonempty', lineno, heap.size() > 0)
    D = heap.esort.D
    m = fresh('minidx', I)
    run.assume(heap.alive(m))
    run.assume(so.forall_idx(heap.n, lambda j: Implies(Not(heap.dead[j]), Or(
        D.time(heap.a[m]) < D.time(heap.a[j]),
        And(D.time(heap.a[m]) == D.time(heap.a[j]), D.counter(heap.a[m]) <= D.counter(heap.a[j]))))))
    ev = heap.a[m]
    heap.dead = z3.Store(heap.dead, m, BoolVal(True))
    heap.ndead = heap.ndead + 1
    run.assume(heap.wellformed())           # model invariant of the heap (ndead counts the popped indices)
    calls = run.ghost.setdefault('handler_calls', [])

    def handler(run2, a2, k2, ln):
        calls.append((a2, k2))
        return NONE
    run.ghost['popped'] = (ev, m)
    return (D.time(ev), D.counter(ev), Callback('popped-handler', handler), (PyConst('arg0'), PyConst('arg1')))


def install(lib):
    lib.extra_mod['heapq.heappush'] = heappush
    lib.extra_mod['heapq.heappop'] = heappop


# ---------------------------------------------------------------------------------------------------
# call-backs supplied by the user
# ---------------------------------------------------------------------------------------------------

def nonneg_xr(x):
    return Or(so.xr_isinf(x), so.xr_val(x) >= 0)


def joint_delay_callback(run, name='trans_and_rec_time_fxn'):
    """user rule (node, susceptible neighbours, *args) -> (dict neighbour -> delay, duration); delays >= 0;
    may draw randomness: fresh values per call.  Records its actual arguments for the call-site obligation."""
    def fn(run2, args, kw, lineno):
        td = SDict(so.U(), so.XR(), name='trans_delay')
        rd = fresh('rec_delay', so.XR())
        run2.assume(so.forall(so.U(), lambda v: Implies(td.dom[v], nonneg_xr(td.val[v]))))
        run2.assume(nonneg_xr(rd))
        if len(args) >= 2 and isinstance(args[1], SList):
            # the rule only returns delays for (some of) the neighbours it was asked about
            sus = args[1]
            run2.assume(so.forall(so.U(), lambda v: Implies(td.dom[v], sus.contains(v))))
        run2.ghost.setdefault('cb_calls', []).append(dict(args=args, kw=kw, td=td, rd=rd,
                                                         status_val=run2.local('status').val if 'status' in run2.cur_env else None))
        return (td, rd)
    return Callback(name, fn)


# ---------------------------------------------------------------------------------------------------
def rows_local(s):
    n = s.times.n
    return And(n >= 1, s.S.n == n, s.I.n == n, s.R.n == n,
               s.S.last() == cnt(s.status.val, SC('S')), s.I.last() == cnt(s.status.val, SC('I')),
               s.R.last() == cnt(s.status.val, SC('R')))


def cnt_axioms(s):
    U = so.U()
    ax = so.cnt_axioms(U, so.Status())
    return ax


def contracts():
    cs = []
    U = lambda: so.U()

    # ------------------------------------------------------------------ myQueue
    def add_norm(run, bound):
        fn, args = bound['function'], bound['args']
        if isinstance(fn, PyConst) and fn.v == 'opaque-fn':
            bound['_payload'] = run.ghost['_payload']
            return
        run.ghost.pop('_future', None)
        bound['_payload'] = encode_event(run, fn, args, getattr(run, 'cur_line', 0))
        bound['_future'] = run.ghost.pop('_future', None)

    def add_post(old, s, ret):
        q0, q1 = old.self, s.self
        D = q0._Q_.esort.D
        pl = s._payload if s.has('_payload') else s.ghost['_payload']
        t = so.to_xr(old.time)
        ev = D.mk(so.xr_val(t), q0.counter, pl[0], pl[1], pl[2], pl[3])
        put, keep = [], []
        if 'fut_n' in q0.f:
            # ghost payload map of the queue (event counter -> list of later attempt times of a non-Markovian SIS transmission event)
            fl = s._future if s.has('_future') else None
            keep = [q1.fut_n == q0.fut_n, q1.fut_a == q0.fut_a]
            if isinstance(fl, SList):
                # (pointwise, so that a list given by a lambda term - a slice - is never stored as an array value)
                cc = fresh('c', I)
                put = [q1.fut_n == z3.Store(q0.fut_n, q0.counter, fl.n),
                       so.forall_idx(fl.n, lambda i: q1.fut_a[q0.counter][i] == fl.a[i]),
                       z3.ForAll([cc], Implies(cc != q0.counter, q1.fut_a[cc] == q0.fut_a[cc]))]
            elif fl is None or isinstance(fl, _EmptyList) or (isinstance(fl, _PyList) and not fl.items):
                put = [q1.fut_n == z3.Store(q0.fut_n, q0.counter, IntVal(0)), q1.fut_a == q0.fut_a]
            else:
                put = [BoolVal(False)]
        return And(q1.tmax == q0.tmax,
                   If(so.xr_lt(t, q0.tmax),
                      And(appended(q1._Q_, q0._Q_, ev), q1.counter == q0.counter + 1, *put),
                      And(same_list(q1._Q_, q0._Q_), q1.counter == q0.counter, *keep)))

    def payload(run, name, **kw):
        return (fresh('pl_kind', I), fresh('pl_has', B), fresh('pl_src', so.U()), fresh('pl_tgt', so.U()))

    cs.append(Contract(F, 'myQueue.add',
        cases=[Case('finite-time', dict(self=mk_queue, time=T.real, function=T.pyconst('opaque-fn'),
                                        args=T.pyconst('opaque-args'), _payload=payload)),
               Case('extended-time', dict(self=mk_queue, time=T.xreal, function=T.pyconst('opaque-fn'),
                                          args=T.pyconst('opaque-args'), _payload=payload))],
        modifies=['self'], normalize=add_norm, ensures=add_post))

    cs.append(Contract(F, 'myQueue.__len__',
        cases=[Case('any', dict(self=mk_queue))],
        pure=lambda s: s.self._Q_.size(),
        ensures=lambda old, s, ret: And(ret == old.self._Q_.size(), same_list(s.self._Q_, old.self._Q_))))

    def pop_post(old, s, ret):
        calls = s.run.ghost.get('handler_calls', [])
        popped = s.run.ghost.get('popped')
        if popped is None or len(calls) != 1:
            return BoolVal(False)
        ev, m = popped
        a2, k2 = calls[0]
        D = old.self._Q_.esort.D
        ok_args = (len(a2) == 3 and not k2 and z3.is_expr(a2[0]) and isinstance(a2[1], PyConst) and a2[1].v == 'arg0'
                   and isinstance(a2[2], PyConst) and a2[2].v == 'arg1')
        if not ok_args:
            return BoolVal(False)
        q0, q1 = old.self._Q_, s.self._Q_
        return And(a2[0] == D.time(ev), q1.size() == q0.size() - 1, q1.n == q0.n, q1.a == q0.a,
                   q1.dead == z3.Store(q0.dead, m, BoolVal(True)), s.self.tmax == old.self.tmax)

    cs.append(Contract(F, 'myQueue.pop_and_run',
        cases=[Case('nonempty', dict(self=mk_queue))],
        requires=lambda s: s.self._Q_.size() > 0, modifies=['self'],
        ensures=pop_post,
        note='the stored function is called exactly once as function(t, *args) with the popped minimal event'))

    def init_post(old, s, ret):
        q = s.self
        return And(q._Q_.n == 0, q._Q_.size() == 0, q.counter == 0, so.xr_eq(q.tmax, so.to_xr(old.tmax)))

    cs.append(Contract(F, 'myQueue.__init__',
        cases=[Case('any', dict(self=lambda run, name, **kw: SObj('myQueue', {}, name=name), tmax=T.xreal))],
        locals_={'self._Q_': ev_list()}, modifies=['self'], ensures=init_post))

    # ------------------------------------------------------------------ _process_rec_SIR_
    lI, lR = T.list_of('I'), T.list_of('R')
    status_t = T.dict_of('U', 'Status', default=lambda: SC('S'))

    cs.append(Contract(F, '_process_rec_SIR_',
        cases=[Case('any', dict(time=T.real, node=T.node, times=lR, S=lI, I=lI, R=lI, status=status_t))],
        axioms=cnt_axioms,
        requires=lambda s: And(rows_local(s), s.status.val[s.node] == SC('I'), s.time >= s.times.last()),
        modifies=['times', 'S', 'I', 'R', 'status'],
        ensures=lambda old, s, ret: And(
            appended(s.times, old.times, old.time), appended(s.S, old.S, old.S.last()),
            appended(s.I, old.I, old.I.last() - 1), appended(s.R, old.R, old.R.last() + 1),
            s.status.val == z3.Store(old.status.val, old.node, SC('R')), rows_local(s))))

    # ------------------------------------------------------------------ _process_trans_SIR_
    def trans_cases():
        base = dict(time=T.real, G=T.graph(), source=T.node, target=T.node, times=lR, S=lI, I=lI, R=lI, Q=mk_queue,
                    status=status_t, rec_time=T.dict_of('U', 'XR', default=lambda: so.xr_fin(fresh('tmin_minus_1', R))),
                    pred_inf_time=T.dict_of('U', 'XR', default=lambda: so.xr_inf()),
                    transmissions=T.list_of(TR),
                    trans_and_rec_time_fxn=lambda run, name, **kw: joint_delay_callback(run),
                    trans_and_rec_time_args=T.const((PyConst('user-arg-0'), PyConst('user-arg-1'))))
        initial = dict(base, source=T.none)
        return [Case('from-neighbour', base), Case('initial-infection', initial)]

    def trans_requires(s):
        return And(rows_local(s), s.time >= s.times.last(), so.xr_lt(s.time, s.Q.tmax), s.Q._Q_.n >= 0)

    def cb(s):
        if s.has('caller_view'):
            # caller view (the queue rule): the user rule's answer is some (td, rd) with the assumed properties
            key = 'cv_cb_%d' % id(s.run)
            c = s.run.ghost.get('cv_cb')
            if c is None or c.get('stamp') != s.run.nobl:
                td = SDict(so.U(), so.XR(), name='cv_trans_delay')
                rd = fresh('cv_rec_delay', so.XR())
                c = dict(td=td, rd=rd, args=None, kw=None, status_val=None, stamp=s.run.nobl, caller=True)
                s.run.ghost['cv_cb'] = c
            return c
        calls = s.run.ghost.get('cb_calls', [])
        return calls[0] if len(calls) == 1 else None

    def trans_post(old, s, ret):
        was_S = old.status.val[old.target] == SC('S')
        D = old.Q._Q_.esort.D
        q0, q1 = old.Q._Q_, s.Q._Q_
        unchanged = And(same_list(s.times, old.times), same_list(s.S, old.S), same_list(s.I, old.I), same_list(s.R, old.R),
                        s.status.val == old.status.val, s.rec_time.val == old.rec_time.val,
                        s.pred_inf_time.val == old.pred_inf_time.val, same_list(q1, q0), s.Q.counter == old.Q.counter,
                        s.Q.tmax == old.Q.tmax, same_list(s.transmissions, old.transmissions))
        c = cb(s)
        if c is None:
            # the user rule is consulted exactly once when the target gets infected (and not at all otherwise)
            ncalls = len(s.run.ghost.get('cb_calls', []))
            return And(Not(was_S), unchanged) if ncalls == 0 else BoolVal(False)
        td, rd = c['td'], c['rd']
        G = old.G
        cv_facts = BoolVal(True)
        if c.get('caller'):
            cv_facts = And(so.forall(so.U(), lambda v: Implies(td.dom[v], And(nonneg_xr(td.val[v]), G.adj(old.target, v),
                                                                              old.status.val[v] == SC('S'), v != old.target))),
                           nonneg_xr(rd))
        time, tgt = old.time, old.target
        rec_new = so.xr_add(time, rd)
        tmax = old.Q.tmax
        src_ok = old.transmissions.esort.pack((time, old.source, tgt))
        tnew = lambda v: so.xr_add(time, td.val[v])
        is_trans = lambda e, v: And(D.kind(e) == KINDS['_process_trans_SIR_'], D.has_src(e), D.src(e) == tgt, D.tgt(e) == v)
        p0, p1 = old.pred_inf_time.val, s.pred_inf_time.val
        infected = And(
            s.status.val == z3.Store(old.status.val, tgt, SC('I')),
            appended(s.times, old.times, time), appended(s.S, old.S, old.S.last() - 1),
            appended(s.I, old.I, old.I.last() + 1), appended(s.R, old.R, old.R.last()),
            rows_local(s),
            appended(s.transmissions, old.transmissions, src_ok),
            s.rec_time.val == z3.Store(old.rec_time.val, tgt, rec_new),
            s.Q.tmax == tmax, extends(q1, q0), s.Q.counter >= old.Q.counter,
            so.forall_idx(q1.n, lambda j: And(D.counter(q1.a[j]) >= old.Q.counter, D.counter(q1.a[j]) < s.Q.counter,
                                              so.forall_idx(q1.n, lambda j2: Implies(j != j2, D.counter(q1.a[j]) != D.counter(q1.a[j2])), lo=q0.n)),
                           lo=q0.n),
            cv_facts,
            # L2 no spurious event
            so.forall_idx(q1.n, lambda j: Or(
                And(D.kind(q1.a[j]) == KINDS['_process_rec_SIR_'], D.tgt(q1.a[j]) == tgt, Not(D.has_src(q1.a[j])),
                    so.xr_eq(so.xr_fin(D.time(q1.a[j])), rec_new), so.xr_lt(rec_new, tmax)),
                And(is_trans(q1.a[j], D.tgt(q1.a[j])), td.dom[D.tgt(q1.a[j])], G.adj(tgt, D.tgt(q1.a[j])),
                    so.xr_eq(so.xr_fin(D.time(q1.a[j])), tnew(D.tgt(q1.a[j]))),
                    so.xr_le(tnew(D.tgt(q1.a[j])), rec_new), so.xr_lt(tnew(D.tgt(q1.a[j])), tmax))), lo=q0.n),
            # at most one recovery event is scheduled
            so.forall_idx(q1.n, lambda j: so.forall_idx(q1.n, lambda j2: Implies(
                And(D.kind(q1.a[j]) == KINDS['_process_rec_SIR_'], D.kind(q1.a[j2]) == KINDS['_process_rec_SIR_']), j == j2),
                lo=q0.n), lo=q0.n),
            # L3 recovery scheduled iff it happens before tmax
            so.xr_lt(rec_new, tmax) == so.exists_idx(q1.n, lambda j: And(D.kind(q1.a[j]) == KINDS['_process_rec_SIR_'],
                                                                           D.tgt(q1.a[j]) == tgt), lo=q0.n),
            # L1 no lost relaxation; predicted infection times only decrease and only through a scheduled event
            so.forall(so.U(), lambda v: And(
                so.xr_le(p1[v], p0[v]),
                Implies(Not(td.dom[v]), so.xr_eq(p1[v], p0[v])),
                Implies(And(td.dom[v], so.xr_le(tnew(v), rec_new), so.xr_lt(tnew(v), tmax)), so.xr_le(p1[v], tnew(v))),
                Implies(Not(so.xr_eq(p1[v], p0[v])), And(
                    td.dom[v], so.xr_eq(p1[v], tnew(v)), so.xr_le(tnew(v), rec_new),
                    Implies(so.xr_lt(tnew(v), tmax),
                            so.exists_idx(q1.n, lambda j: And(is_trans(q1.a[j], v), so.xr_eq(so.xr_fin(D.time(q1.a[j])), tnew(v))), lo=q0.n)))))),
            # the user rule is asked about the newly infected node and exactly its susceptible neighbours
            callback_args_ok(old, s, c) if not c.get('caller') else BoolVal(True))
        return If(was_S, infected, unchanged)

    def callback_args_ok(old, s, c):
        args = c['args']
        if len(args) != 2 + len(old.trans_and_rec_time_args) or c['kw']:
            return BoolVal(False)
        if not (z3.is_expr(args[0]) and isinstance(args[1], SList)):
            return BoolVal(False)
        for a, b in zip(args[2:], old.trans_and_rec_time_args):
            if a is not b:
                return BoolVal(False)
        G = old.G
        sus = args[1]
        stv = c['status_val']
        return And(args[0] == old.target,
                   so.forall(so.U(), lambda x: sus.contains(x) == And(G.adj(old.target, x), stv[x] == SC('S'))))

    def trans_loop_inv(s, it):
        """for v in trans_delay: schedule / relax"""
        c = cb(s)
        if c is None:
            return BoolVal(False)
        td, rd = c['td'], c['rd']
        D = s.Q._Q_.esort.D
        time, tgt = s.time, s.target
        rec_new = s.rec_time.val[tgt]
        tmax = s.Q.tmax
        q0, q1 = it.entry.Q._Q_, s.Q._Q_
        p0, p1 = it.entry.pred_inf_time.val, s.pred_inf_time.val
        tnew = lambda v: so.xr_add(time, td.val[v])
        is_trans = lambda e, v: And(D.kind(e) == KINDS['_process_trans_SIR_'], D.has_src(e), D.src(e) == tgt, D.tgt(e) == v)
        return And(
            s.Q.tmax == it.entry.Q.tmax, extends(q1, q0), s.Q.counter >= it.entry.Q.counter,
            so.forall_idx(q1.n, lambda j: And(D.counter(q1.a[j]) >= it.entry.Q.counter, D.counter(q1.a[j]) < s.Q.counter,
                                              so.forall_idx(q1.n, lambda j2: Implies(j != j2, D.counter(q1.a[j]) != D.counter(q1.a[j2])), lo=q0.n)),
                           lo=q0.n),
            so.forall_idx(q1.n, lambda j: And(
                is_trans(q1.a[j], D.tgt(q1.a[j])), td.dom[D.tgt(q1.a[j])], it.done(D.tgt(q1.a[j])),
                s.G.adj(tgt, D.tgt(q1.a[j])),
                so.xr_eq(so.xr_fin(D.time(q1.a[j])), tnew(D.tgt(q1.a[j]))),
                so.xr_le(tnew(D.tgt(q1.a[j])), rec_new), so.xr_lt(tnew(D.tgt(q1.a[j])), tmax)), lo=q0.n),
            so.forall(so.U(), lambda v: And(
                so.xr_le(p1[v], p0[v]),
                Implies(Not(it.done(v)), so.xr_eq(p1[v], p0[v])),
                Implies(And(it.done(v), so.xr_le(tnew(v), rec_new), so.xr_lt(tnew(v), tmax)), so.xr_le(p1[v], tnew(v))),
                Implies(Not(so.xr_eq(p1[v], p0[v])), And(
                    so.xr_eq(p1[v], tnew(v)), so.xr_le(tnew(v), rec_new),
                    Implies(so.xr_lt(tnew(v), tmax),
                            so.exists_idx(q1.n, lambda j: And(is_trans(q1.a[j], v), so.xr_eq(so.xr_fin(D.time(q1.a[j])), tnew(v))), lo=q0.n)))))))

    cs.append(Contract(F, '_process_trans_SIR_',
        cases=trans_cases(), axioms=cnt_axioms, requires=trans_requires,
        modifies=['times', 'S', 'I', 'R', 'Q', 'status', 'rec_time', 'pred_inf_time', 'transmissions'],
        loops={0: trans_loop_inv},
        ensures=trans_post))
    return cs
