"""fast_nonMarkov_SIR / fast_SIR (EoN/simulation.py): main bodies and the event-loop rule.  C04, C05, C09, C11, C01.

The loop `while Q: Q.pop_and_run()` is discharged by the QUEUE RULE (DESIGN 3.1 "deferred calls"):
  * LEMMA unit `event_step_SIR`: from any state satisfying the global invariant GI with a non-empty queue,
    popping a minimal event (assumed heapq contract) and running the handler it names -- through the handler's
    CONTRACT, not its body -- re-establishes GI.  Machine-checked (z3), composed only of callee contracts.
  * the loop in the real function must be exactly `Q.pop_and_run()`; GI must hold at loop entry (obligation)
    and GI with an empty queue is what the code after the loop may assume.
  * what links the two: myQueue.pop_and_run's verified contract (the stored function is called once as
    function(t, *args) with the popped event) and the event-binding obligations at every Q.add site (the args
    tuple binds positionally, by identity, to the handler's parameters).
"""
import z3
from z3 import And, Or, Not, Implies, If, IntVal, RealVal, BoolVal
from ..pyvc import sorts as so
from ..pyvc.sorts import fresh, I, R, B, cnt
from ..pyvc.values import SList, SDict, SObj, NONE, PyConst, FuncRef, Callback, TupleSpec, Unsupported, coerce, SHeap
from ..pyvc.verify import Contract, Case, LoopSpec
from . import types as T
from . import handlers as H
from . import rates

F = 'EoN/simulation.py'
SC = H.SC
K_TRANS, K_REC = H.KINDS['_process_trans_SIR_'], H.KINDS['_process_rec_SIR_']


def axioms_for(s):
    U = so.U()
    ax = so.cnt_axioms(U, so.Status())
    if not so.Mode.finite:
        A = z3.ArraySort(U, so.Status())
        a = z3.Const('pa', A)
        ax.append(z3.ForAll([a], cnt(a, SC('S')) + cnt(a, SC('I')) + cnt(a, SC('R')) == s.G.N, patterns=[cnt(a, SC('S'))]))
        ax.append(z3.ForAll([a], Implies(cnt(a, SC('I')) == 0, so.forall(U, lambda u: a[u] != SC('I'))), patterns=[cnt(a, SC('I'))]))
        for c0 in ('S', 'I', 'R'):
            for x0 in ('S', 'I', 'R'):
                ax.append(cnt(z3.K(U, SC(c0)), SC(x0)) == (s.G.N if c0 == x0 else 0))
    return ax


class Ctx:
    """the constants of one simulation: initial lists, tmin, N"""

    def __init__(self, G, tmin, tmax, II, IR):
        self.G, self.tmin, self.tmax, self.II, self.IR = G, tmin, tmax, II, IR
        self.k = II.n
        self.r0 = IR.n if IR is not None else IntVal(0)

    def is_rec(self, x):
        return self.IR.memberf(x) if self.IR is not None else BoolVal(False)

    def is_inf(self, x):
        return self.II.memberf(x)


def GI(s, cx):
    """global invariant of the event loop of fast_nonMarkov_SIR"""
    G, tmin, tmax, k, r0, II = cx.G, cx.tmin, cx.tmax, cx.k, cx.r0, cx.II
    times, S, I_, R_ = s.times, s.S, s.I, s.R
    q = s.Q._Q_
    D = q.esort.D
    stv = s.status.val
    n = times.n
    m = n - 1                                  # rows appended so far
    mk = If(m < k, m, k)
    N = G.N
    alive = lambda j: Not(q.dead[j])
    T = s.transmissions
    TD = T.esort.D
    c = []
    # (a) rows / counts
    c += [n >= 1, S.n == n, I_.n == n, R_.n == n,
          S.last() == cnt(stv, SC('S')), I_.last() == cnt(stv, SC('I')), R_.last() == cnt(stv, SC('R'))]
    # (b) whole arrays
    c.append(times.a[0] == tmin)
    c.append(so.forall_idx(n - 1, lambda j: times.a[j] <= times.a[j + 1]))
    c.append(so.forall_idx(n, lambda j: so.xr_lt(times.a[j], tmax), lo=1))
    c.append(so.forall_idx(n, lambda j: And(S.a[j] + I_.a[j] + R_.a[j] == N, S.a[j] >= 0, I_.a[j] >= 0, R_.a[j] >= 0)))
    c.append(so.forall_idx(n, lambda j: Or(
        And(S.a[j] == S.a[j - 1] - 1, I_.a[j] == I_.a[j - 1] + 1, R_.a[j] == R_.a[j - 1]),
        And(S.a[j] == S.a[j - 1], I_.a[j] == I_.a[j - 1] - 1, R_.a[j] == R_.a[j - 1] + 1)), lo=1))
    # (c) pending events lie in [last reported time, tmax); counters are below the queue's counter and distinct
    c.append(s.Q.tmax == tmax)
    c.append(q.wellformed())
    c.append(so.forall_idx(q.n, lambda j: Implies(alive(j), And(
        times.last() <= D.time(q.a[j]), so.xr_lt(D.time(q.a[j]), tmax), D.counter(q.a[j]) < s.Q.counter,
        D.counter(q.a[j]) >= 0,
        Or(D.kind(q.a[j]) == K_TRANS, D.kind(q.a[j]) == K_REC)))))
    c.append(so.forall_idx(q.n, lambda j: so.forall_idx(q.n, lambda j2: Implies(
        And(alive(j), alive(j2), j != j2), D.counter(q.a[j]) != D.counter(q.a[j2])))))
    # (d) a pending recovery belongs to an infectious node, at its recovery time, and there is only one
    c.append(so.forall_idx(q.n, lambda j: Implies(And(alive(j), D.kind(q.a[j]) == K_REC), And(
        stv[D.tgt(q.a[j])] == SC('I'), so.xr_eq(so.xr_fin(D.time(q.a[j])), s.rec_time.val[D.tgt(q.a[j])]),
        D.counter(q.a[j]) >= k))))
    c.append(so.forall_idx(q.n, lambda j: so.forall_idx(q.n, lambda j2: Implies(
        And(alive(j), alive(j2), D.kind(q.a[j]) == K_REC, D.kind(q.a[j2]) == K_REC, D.tgt(q.a[j]) == D.tgt(q.a[j2])), j == j2))))
    # (e) a pending transmission goes along an edge from an already infected node, not after its recovery
    c.append(so.forall_idx(q.n, lambda j: Implies(And(alive(j), D.kind(q.a[j]) == K_TRANS, D.has_src(q.a[j])), And(
        G.adj(D.src(q.a[j]), D.tgt(q.a[j])), stv[D.src(q.a[j])] != SC('S'),
        so.xr_le(so.xr_fin(D.time(q.a[j])), s.rec_time.val[D.src(q.a[j])]), D.counter(q.a[j]) >= k))))
    # (f) initial phase: the synthetic initial infections are popped first, in order, all at tmin
    c.append(so.forall_idx(q.n, lambda j: Implies(alive(j), And(
        (D.counter(q.a[j]) < k) == And(D.kind(q.a[j]) == K_TRANS, Not(D.has_src(q.a[j]))),
        Implies(D.counter(q.a[j]) < k, And(D.counter(q.a[j]) >= m, D.tgt(q.a[j]) == II.a[D.counter(q.a[j])],
                                           D.time(q.a[j]) == tmin))))))
    c.append(so.forall_idx(k, lambda i: And(so.exists_idx(q.n, lambda j: And(alive(j), D.counter(q.a[j]) == i)),
                                            stv[II.a[i]] == SC('S')), lo=mk))
    c.append(so.forall_idx(mk + 1, lambda j: And(times.a[j] == tmin, I_.a[j] == j, S.a[j] == N - r0 - j, R_.a[j] == r0)))
    c.append(s.Q.counter >= k)
    c.append(so.forall_idx(n, lambda j: S.a[j] <= N - r0 - k, lo=k))      # after the initial phase at least k infections happened
    # (h) initially recovered nodes stay recovered; nodes not yet reached by their initial event are susceptible
    c.append(so.forall(so.U(), lambda x: Implies(cx.is_rec(x), stv[x] == SC('R'))))
    return And(*c)


def GI_trans(s, cx):
    """the part of the invariant about the transmission list (C09)"""
    G, k = cx.G, cx.k
    T = s.transmissions
    TD = T.esort.D
    stv = s.status.val
    times, S = s.times, s.S
    m = times.n - 1
    mk = If(m < k, m, k)
    c = []
    c.append(T.n == S.a[0] - S.last())                       # one entry per infection, none otherwise
    c.append(so.forall_idx(T.n, lambda j: And(
        TD.has_src(T.a[j]) == (j >= k),
        stv[TD.tgt(T.a[j])] != SC('S'),
        TD.time(T.a[j]) <= times.last(),
        Implies(j < k, And(TD.tgt(T.a[j]) == cx.II.a[j], TD.time(T.a[j]) == cx.tmin)),
        Implies(TD.has_src(T.a[j]), And(G.adj(TD.src(T.a[j]), TD.tgt(T.a[j])), stv[TD.src(T.a[j])] != SC('S'),
                                        so.xr_le(so.xr_fin(TD.time(T.a[j])), s.rec_time.val[TD.src(T.a[j])]))))))
    c.append(so.forall_idx(T.n - 1, lambda j: TD.time(T.a[j]) <= TD.time(T.a[j + 1])))
    # every node is the target of at most one entry (=> in-degree <= 1 in the transmission tree): stated through an
    # index function  tidx(target of entry j) = j  (ghost map; existentially quantified where no ghost variable exists)
    inj = lambda a: so.forall_idx(T.n, lambda j: a[TD.tgt(T.a[j])] == j)
    if s.has('tidx'):
        c.append(inj(s.tidx.val))
    else:
        c.append(so.exists(z3.ArraySort(so.U(), I), inj))
    return And(*c)


def full_GI(s, cx):
    return And(GI(s, cx), GI_trans(s, cx))


# ---------------------------------------------------------------------------------------------------
# lemma unit: one step of the event loop preserves GI
# ---------------------------------------------------------------------------------------------------
STATE = ('times', 'S', 'I', 'R', 'Q', 'status', 'rec_time', 'pred_inf_time', 'transmissions')


def lemma_params():
    lI, lR = T.list_of('I'), T.list_of('R')
    return dict(G=T.graph(), tmin=T.real, tmax=T.xreal, II=T.distinct_list('U'), IR=T.distinct_list('U'),
                times=lR, S=lI, I=lI, R=lI, Q=H.mk_queue,
                status=T.dict_of('U', 'Status', default=lambda: SC('S')),
                rec_time=T.dict_of('U', 'XR', default=lambda: so.xr_fin(fresh('tmin_minus_1', R))),
                pred_inf_time=T.dict_of('U', 'XR', default=lambda: so.xr_inf()),
                transmissions=T.list_of(H.TR), tidx=T.dict_of('U', 'I'),
                trans_and_rec_time_fxn=lambda run, name, **kw: H.joint_delay_callback(run),
                trans_and_rec_time_args=T.const((PyConst('user-arg-0'),)))


def ctx_of(s):
    return Ctx(s.G, s.tmin, s.tmax, s.II, s.IR)


def step_body(run, env):
    """pop a minimal event and dispatch it to the handler it names (through the handler CONTRACT)"""
    Q = env['Q']
    heap = Q.f['_Q_']
    t, counter, fn, args = H.heappop(run, [heap], {}, 0)
    ev, m = run.ghost['popped']
    D = heap.esort.D
    kind = D.kind(ev)
    # intermediate cut (proved, then used): while initial events are pending, the popped event is the next
    # initial infection; afterwards no initial event is left
    rows_done = env['times'].n - 1
    k = env['II'].n
    cut = And(Implies(rows_done < k, And(D.counter(ev) == rows_done, D.time(ev) == env['tmin'], Not(D.has_src(ev)),
                                         kind == K_TRANS, D.tgt(ev) == env['II'].a[rows_done])),
              Implies(rows_done >= k, D.counter(ev) >= k))
    run.oblige('lemma', 'cut:popped-event-vs-initial-phase', 0, cut)
    run.assume(cut)
    if run.branch(kind == K_REC):
        run.call_contract('_process_rec_SIR_', [t, D.tgt(ev), env['times'], env['S'], env['I'], env['R'], env['status']], {}, 0)
        return
    if run.branch(kind == K_TRANS):
        # intermediate cut: a susceptible target has no earlier entry in the transmission list
        T = env['transmissions']
        TDt = T.esort.D
        tgt0 = D.tgt(ev)
        cut2 = Implies(env['status'].val[tgt0] == SC('S'), so.forall_idx(T.n, lambda j: TDt.tgt(T.a[j]) != tgt0))
        run.oblige('lemma', 'cut:susceptible-target-not-yet-in-transmissions', 0, cut2)
        run.assume(cut2)
        src = D.src(ev) if run.branch(D.has_src(ev)) else NONE
        was_S = env['status'].val[tgt0] == SC('S')
        n_before = T.n
        run.call_contract('_process_trans_SIR_', [t, env['G'], src, D.tgt(ev), env['times'], env['S'], env['I'], env['R'],
                                                  Q, env['status'], env['rec_time'], env['pred_inf_time'], env['transmissions'],
                                                  env['trans_and_rec_time_fxn'], env['trans_and_rec_time_args']], {}, 0)
        # ghost update: the new entry (if any) is the one and only entry of its target
        ti = env['tidx']
        ti.val = If(was_S, z3.Store(ti.val, tgt0, n_before), ti.val)
        return
    run.oblige('safety', 'event-kind-known', 0, BoolVal(False))


def lemma_requires(s):
    cx = ctx_of(s)
    return And(full_GI(s, cx), s.Q._Q_.size() > 0, so.xr_lt(s.tmin, s.tmax),
               so.forall(so.U(), lambda x: Not(And(cx.is_inf(x), cx.is_rec(x)))), s.G.N >= 1)


def lemma_ensures(old, s, ret):
    return full_GI(s, ctx_of(s))


# ---------------------------------------------------------------------------------------------------
# fast_nonMarkov_SIR
# ---------------------------------------------------------------------------------------------------

def main_requires(s):
    c = [so.xr_lt(s.tmin, s.tmax), s.G.N >= 1]
    ii, ir = s.initial_infecteds, s.initial_recovereds
    if s.rho is not NONE:
        c += [s.rho >= 0, s.rho <= 1]
    if isinstance(ii, SList) and isinstance(ir, SList):
        c.append(so.forall(so.U(), lambda x: Not(And(ii.memberf(x), ir.memberf(x)))))
    if (not isinstance(ii, SList)) and ii is not NONE and isinstance(ir, SList):
        c.append(Not(ir.memberf(ii)))
    return And(*c)


def main_ctx(s):
    ir = s.old.initial_recovereds
    return Ctx(s.G, s.old.tmin, so.to_xr(s.old.tmax), s.initial_infecteds, ir if isinstance(ir, SList) else None)


def inv_recovered_loop(s, it):
    """for node in initial_recovereds: status[node] = 'R'; rec_time[node] = tmin"""
    stv = s.status.val
    return And(so.forall(so.U(), lambda x: stv[x] == If(it.done(x), SC('R'), SC('S'))),
               cnt(stv, SC('R')) == it.i, cnt(stv, SC('I')) == 0)


def status_ready(s):
    cx = main_ctx(s)
    stv = s.status.val
    return And(so.forall(so.U(), lambda x: stv[x] == If(cx.is_rec(x), SC('R'), SC('S'))),
               cnt(stv, SC('R')) == cx.r0, cnt(stv, SC('I')) == 0)


def inv_initial_events(s, it):
    """for u in initial_infecteds: pred_inf_time[u] = tmin; Q.add(tmin, _process_trans_SIR_, args=(G, None, u, ...))"""
    cx = main_ctx(s)
    q = s.Q._Q_
    D = q.esort.D
    return And(status_ready(s), s.Q.tmax == cx.tmax, q.n == it.i, q.ndead == 0, s.Q.counter == it.i,
               so.forall_idx(q.n, lambda j: And(Not(q.dead[j]), D.time(q.a[j]) == cx.tmin, D.counter(q.a[j]) == j,
                                                D.kind(q.a[j]) == K_TRANS, Not(D.has_src(q.a[j])), D.tgt(q.a[j]) == cx.II.a[j])),
               s.times.n == 1, s.S.n == 1, s.I.n == 1, s.R.n == 1, s.times.a[0] == cx.tmin,
               s.S.a[0] == cx.G.N - cx.r0, s.I.a[0] == 0, s.R.a[0] == cx.r0, s.transmissions.n == 0)


def inv_event_loop(s, it):
    return full_GI(s, main_ctx(s))


def init_count(old):
    ii = old.initial_infecteds
    if isinstance(ii, SList):
        return ii.n
    if ii is NONE and old.rho is not NONE:
        x = z3.ToReal(old.G.N) * old.rho
        fl = z3.ToInt(x)
        fr = x - z3.ToReal(fl)
        return If(fr < RealVal('1/2'), fl, If(fr > RealVal('1/2'), fl + 1, If(fl % 2 == 0, fl, fl + 1)))
    return IntVal(1)


def main_post(old, s, ret):
    if not (isinstance(ret, tuple) and len(ret) == 4 and all(isinstance(x, SList) for x in ret)):
        return BoolVal(False)
    from .gillespie import rows
    t, S_, I_, R_ = ret
    G = old.G
    ir = old.initial_recovereds if isinstance(old.initial_recovereds, SList) else None
    r0 = ir.n if ir is not None else IntVal(0)
    k = init_count(old)
    tmax = so.to_xr(old.tmax)
    return And(rows(t, S_, I_, R_, old.tmin, tmax, G.N),
               I_.a[0] == k, R_.a[0] == r0, S_.a[0] == G.N - k - r0,
               # every infectious node has its recovery pending unless it lies at or after tmax: with an
               # unbounded horizon and finite durations nobody is left infectious  (needs the queue to be empty)
               BoolVal(True))


def site_sample(s, info):
    G = s.G
    return And(info['k'] == init_count(s.old), info['pop'].n == G.nodelist.n, info['pop'].a == G.nodelist.a)


def main_cases():
    def fx(run, name, **kw):
        return H.joint_delay_callback(run)

    def opaque_cb(nm):
        return lambda run, name, **kw: Callback(nm, lambda r2, a, k, l: fresh('userdelay', so.XR()))
    out = []
    for nm, ii, rho, ir in (('list', T.distinct_list('U'), T.none, T.distinct_list('U')),
                            ('node', T.node, T.none, T.distinct_list('U')),
                            ('list-norecovered', T.distinct_list('U'), T.none, T.none),
                            ('rho', T.none, T.real, T.none), ('default', T.none, T.none, T.none),
                            ('both-given', T.distinct_list('U'), T.real, T.none),
                            ('rho-and-recovered', T.none, T.real, T.distinct_list('U'))):
        out.append(Case('joint-%s' % nm, dict(
            G=T.graph(), trans_time_fxn=T.none, rec_time_fxn=T.none, trans_and_rec_time_fxn=fx,
            trans_time_args=T.const(()), rec_time_args=T.const(()), trans_and_rec_time_args=T.const((PyConst('user-arg-0'),)),
            initial_infecteds=ii, initial_recovereds=ir, rho=rho, tmin=T.real, tmax=T.xreal,
            return_full_data=T.false, sim_kwargs=T.none)))
    out.append(Case('separate-list', dict(
        G=T.graph(), trans_time_fxn=opaque_cb('trans_time_fxn'), rec_time_fxn=opaque_cb('rec_time_fxn'), trans_and_rec_time_fxn=T.none,
        trans_time_args=T.const((PyConst('ta0'),)), rec_time_args=T.const((PyConst('ra0'),)), trans_and_rec_time_args=T.const(()),
        initial_infecteds=T.distinct_list('U'), initial_recovereds=T.distinct_list('U'), rho=T.none, tmin=T.real, tmax=T.xreal,
        return_full_data=T.false, sim_kwargs=T.none)))
    return out


def contracts(verify_callees=True):
    cs = list(H.contracts()) + list(rates.contracts())
    for c in cs:
        c.verify = verify_callees
    lI, lR = T.list_of('I'), T.list_of('R')

    cs.append(Contract(F, 'event_step_SIR', body=step_body, depends=('_process_trans_SIR_', '_process_rec_SIR_', 'myQueue.pop_and_run', 'myQueue.add'),
        cases=[Case('any', lemma_params())], axioms=axioms_for,
        requires=lemma_requires, ensures=lemma_ensures,
        note='LEMMA over contracts: a step of the event loop preserves the global invariant'))

    cs.append(Contract(F, 'fast_nonMarkov_SIR',
        cases=main_cases(), axioms=axioms_for, requires=main_requires,
        must_raise=lambda old: BoolVal(old.rho is not NONE and old.initial_infecteds is not NONE),
        raise_allowed=lambda old: BoolVal(old.rho is not NONE and (old.initial_infecteds is not NONE or old.initial_recovereds is not NONE)),
        locals_={'status': T.dict_of('U', 'Status', default=lambda: SC('S')),
                 'rec_time': T.dict_of('U', 'XR'), 'pred_inf_time': T.dict_of('U', 'XR'),
                 'Q': H.mk_queue, 'transmissions': T.list_of(H.TR),
                 'times': lR, 'S': lI, 'I': lI, 'R': lI},
        loops={0: inv_recovered_loop, 1: inv_initial_events,
               2: LoopSpec(inv_event_loop, step_lemma='event_step_SIR', step_body_src='Q.pop_and_run()', havoc_names=STATE)},
        sites={('random.sample', 0): site_sample},
        sites_strict=('random.sample', 'random.random', 'random.expovariate', 'random.choice'),
        make_ret=lambda run, s: tuple(_fresh_list(run, nm, srt) for nm, srt in (('t', R), ('S', I), ('I', I), ('R', I))),
        may_raise=lambda old: BoolVal(old.rho is not NONE and (old.initial_infecteds is not NONE or old.initial_recovereds is not NONE)),
        ensures=main_post))

    # ------------------------------------------------------------------ fast_SIR
    def fs_requires(s):
        c = [s.tau >= 0, s.gamma >= 0, main_requires(s)]
        return And(*c)

    def forwarded(s, b, names):
        ok = True
        for nm in names:
            have, got = s.run.local(nm), b.get(nm)
            same = (have is got) or (z3.is_expr(have) and z3.is_expr(got) and have.eq(got))
            ok = ok and bool(same)
        return ok

    FWD = ('initial_infecteds', 'initial_recovereds', 'rho', 'tmin', 'tmax', 'return_full_data', 'sim_kwargs')

    def rate_fns(s):
        G = s.G
        tw, rw = s.transmission_weight, s.recovery_weight
        tr = (lambda u, v: s.tau) if tw is NONE else (lambda u, v: s.tau * G.ew(tw.v)(u, v))
        rc = (lambda u: s.gamma) if rw is NONE else (lambda u: s.gamma * G.nw(rw.v)(u))
        return tr, rc

    def draws_since(run, n0):
        return [d for d in run.draws[n0:] if d[0] in ('random.expovariate', 'random.random', 'np.random.binomial', 'random.sample', 'random.choice')]

    def fs_delegate(s, b):
        """what fast_SIR hands to fast_nonMarkov_SIR: same initial condition / horizon / flags, and delay rules
        that draw Exp(tau*w_uv) and Exp(gamma*w_u) (infinite delay for rate 0)"""
        run = s.run
        if not forwarded(s, b, FWD) or b.get('G') is not s.G:
            return BoolVal(False)
        tr, rc = rate_fns(s)
        G = s.G
        u, v = fresh('u', so.U()), fresh('v', so.U())
        goals = []
        if b.get('trans_and_rec_time_fxn') is NONE or b.get('trans_and_rec_time_fxn') is None:
            ttf, rtf = b.get('trans_time_fxn'), b.get('rec_time_fxn')
            ta, ra = b.get('trans_time_args'), b.get('rec_time_args')
            if not (isinstance(ta, tuple) and isinstance(ra, tuple)):
                return BoolVal(False)
            saved = len(run.temp_assume)
            run.temp_assume.append(G.adj(u, v))
            try:
                n0 = len(run.draws)
                d1 = run.call(ttf, [u, v] + list(ta), {}, 0)
                dr1 = draws_since(run, n0)
                n1 = len(run.draws)
                d2 = run.call(rtf, [u] + list(ra), {}, 0)
                dr2 = draws_since(run, n1)
            finally:
                del run.temp_assume[saved:]
            for rate, d, dr in ((tr(u, v), d1, dr1), (rc(u), d2, dr2)):
                if len(dr) == 1 and dr[0][0] == 'random.expovariate':
                    goals.append(And(rate > 0, dr[0][2]['rate'] == rate, so.xr_eq(so.to_xr(d), so.xr_fin(dr[0][2]['value']))))
                elif len(dr) == 0:
                    goals.append(And(rate <= 0, so.xr_isinf(so.to_xr(d))))
                else:
                    return BoolVal(False)
            return And(*goals)
        # fast path: joint rule with constant transmission rate
        f = b.get('trans_and_rec_time_fxn')
        a = b.get('trans_and_rec_time_args')
        if not (isinstance(f, FuncRef) and f.qualname == '_trans_and_rec_time_Markovian_const_trans_' and isinstance(a, tuple) and len(a) == 2):
            return BoolVal(False)
        rr = run.call(a[1], [u], {}, 0)
        return And(a[0] == s.tau, rr == rc(u), s.transmission_weight is NONE, s.tau > 0)

    def fs_cases():
        out = []
        for nm, tw, rw in (('unweighted', None, None), ('weighted', rates.TW, rates.RW), ('node-weighted', None, rates.RW)):
            out.append(Case(nm, dict(
                G=T.graph(weight_labels=(rates.TW,) if tw else (), node_labels=(rates.RW,) if rw else ()),
                tau=T.real, gamma=T.real, initial_infecteds=T.distinct_list('U'), initial_recovereds=T.distinct_list('U'),
                rho=T.none, tmin=T.real, tmax=T.xreal,
                transmission_weight=T.pyconst(tw) if tw else T.none, recovery_weight=T.pyconst(rw) if rw else T.none,
                return_full_data=T.false, sim_kwargs=T.none)))
        return out

    def fs_post(old, s, ret):
        return main_post(old, s, ret)

    cs.append(Contract(F, 'fast_SIR',
        cases=fs_cases(), axioms=axioms_for, requires=fs_requires,
        sites={('call:fast_nonMarkov_SIR', 0): fs_delegate, ('call:fast_nonMarkov_SIR', 1): fs_delegate},
        sites_strict=('random.sample', 'random.random', 'random.choice'),
        ensures=fs_post))
    return cs


def _fresh_list(run, name, sort):
    l = SList(sort, name='ret_' + name)
    run.assume(l.wellformed())
    return l


def install(lib):
    H.install(lib)
