"""Sidecar contracts for the event-driven Markovian SIS handlers (EoN/simulation.py): _find_next_trans_SIS_Markov,
_process_rec_SIS_.  Property C02 (fast_SIS half), C04."""
import z3
from z3 import And, Or, Not, Implies, If, IntVal, RealVal, BoolVal
from ..pyvc import sorts as so
from ..pyvc.sorts import fresh, I, R, B, cnt
from ..pyvc.values import SList, SDict, SObj, NONE, PyConst, FuncRef, Callback, TupleSpec, Unsupported, coerce, SDictOfLists
from ..pyvc.verify import Contract, Case, LoopSpec
from . import types as T
from . import handlers as H

F = 'EoN/simulation.py'
SC = H.SC
K_T = H.KINDS['_process_trans_SIS_Markov']


def rate_cb(label, arity):
    """module-level: user / library rate function = a pure, non-negative function of its node arguments"""
    def mk(run, name, **kw):
        f = z3.Function('%s_%d' % (label, so.Mode.gen), *([so.U()] * arity + [R]))

        def fn(run2, args, kws, lineno):
            if len(args) != arity or kws or not all(z3.is_expr(a) and a.sort() == so.U() for a in args):
                raise Unsupported('rate function called with unexpected arguments (line %d)' % lineno)
            run2.assume(f(*args) >= 0)
            return f(*args)
        cb = Callback(name, fn)
        cb.zf = f
        cb.modifies_args = []
        return cb
    return mk


def contracts():
    cs = [c for c in H.contracts() if c.qualname.startswith('myQueue.')]
    for c in cs:
        c.verify = False
    lI, lR = T.list_of('I'), T.list_of('R')
    status_t = T.dict_of('U', 'Status', default=lambda: SC('S'))
    # ------------------------------------------------------------------ _process_rec_SIS_
    def rows2(s):
        n = s.times.n
        return And(n >= 1, s.S.n == n, s.I.n == n, s.S.last() == cnt(s.status.val, SC('S')), s.I.last() == cnt(s.status.val, SC('I')))

    def rec_post(old, s, ret):
        rt0, rt1 = old.recovery_times, s.recovery_times
        nd = old.node
        return And(H.appended(s.times, old.times, old.time), H.appended(s.S, old.S, old.S.last() + 1), H.appended(s.I, old.I, old.I.last() - 1),
                   s.status.val == z3.Store(old.status.val, nd, SC('S')), rows2(s),
                   rt1.lens[nd] == rt0.lens[nd] + 1, rt1.vals[nd][rt0.lens[nd]] == old.time,
                   so.forall(so.U(), lambda x: Implies(x != nd, And(rt1.lens[x] == rt0.lens[x], rt1.vals[x] == rt0.vals[x]))))

    cs.append(Contract(F, '_process_rec_SIS_',
        cases=[Case('any', dict(time=T.real, node=T.node, times=lR, recovery_times=T.dict_of_lists('U', 'R'), S=lI, I=lI, status=status_t))],
        axioms=lambda s: so.cnt_axioms(so.U(), so.Status()),
        requires=lambda s: And(rows2(s), s.status.val[s.node] == SC('I'), s.time >= s.times.last()),
        modifies=['times', 'recovery_times', 'S', 'I', 'status'], ensures=rec_post))

    # ------------------------------------------------------------------ _find_next_trans_SIS_Markov
    def mk_args(run, name, **kw):
        env = run.cur_env
        return (PyConst('G'), env['source'], env['target'], PyConst('times'), PyConst('S'), PyConst('I'), env['Q'], env['status'], env['rec_time'],
                PyConst('infection_times'), PyConst('recovery_times'), PyConst('transmissions'), PyConst('trans_rate_fxn'), PyConst('rec_rate_fxn'))

    def fn_post(old, s, ret):
        D = old.Q._Q_.esort.D
        q0, q1 = old.Q._Q_, s.Q._Q_
        rs, rtg = old.rec_time.val[old.source], old.rec_time.val[old.target]
        draws = [d for d in s.run.draws if d[0] == 'random.expovariate']
        t = so.to_xr(old.time)
        cands = []
        if len(draws) >= 1:
            cands.append((so.xr_add(t, draws[0][2]['value']), BoolVal(True)))
        if len(draws) == 2:
            cands = [(so.xr_add(rtg, draws[1][2]['value']), BoolVal(True))]
        added = q1.n == q0.n + 1
        same = H.same_list(q1, q0)
        if not draws:
            return And(same, s.Q.counter == old.Q.counter)
        T_, _ = cands[0]
        ev_ok = And(H.extends(q1, q0), D.kind(q1.a[q0.n]) == K_T, D.has_src(q1.a[q0.n]), D.src(q1.a[q0.n]) == old.source,
                    D.tgt(q1.a[q0.n]) == old.target, so.xr_eq(so.xr_fin(D.time(q1.a[q0.n])), T_))
        fire = And(so.xr_lt(T_, rs), so.xr_lt(T_, old.Q.tmax))
        return And(so.xr_lt(rtg, rs),                                   # only while the target's current period ends before the source's
                   If(fire, And(added, ev_ok), same),
                   so.xr_le(rtg, T_) if len(draws) == 2 else BoolVal(True),   # re-drawn from the end of the target's infectious period (memorylessness)
                   so.xr_le(t, T_), s.Q.tmax == old.Q.tmax)

    def fn_general(old, s):
        """the part of the postcondition that does not mention the draws (what a caller may rely on)"""
        D = old.Q._Q_.esort.D
        q0, q1 = old.Q._Q_, s.Q._Q_
        rs, rtg = old.rec_time.val[old.source], old.rec_time.val[old.target]
        t = so.to_xr(old.time)
        e = q1.a[q0.n]
        Tn = so.xr_fin(D.time(e))
        no_event = And(H.same_list(q1, q0), s.Q.counter == old.Q.counter)
        one_event = And(q1.n == q0.n + 1, H.extends(q1, q0), s.Q.counter == old.Q.counter + 1, D.counter(e) == old.Q.counter,
                        D.kind(e) == K_T, D.has_src(e), D.src(e) == old.source, D.tgt(e) == old.target,
                        so.xr_le(t, Tn), so.xr_le(rtg, Tn), so.xr_lt(Tn, rs), so.xr_lt(Tn, old.Q.tmax))
        return And(Or(no_event, one_event), Implies(Not(so.xr_lt(rtg, rs)), no_event),
                   s.Q.tmax == old.Q.tmax, s.rec_time.val == old.rec_time.val)

    def fn_full_post(old, s, ret):
        if s.has('caller_view'):
            return fn_general(old, s)
        return And(fn_post(old, s, ret), fn_general(old, s))

    def fn_requires(s):
        return And(so.xr_le(so.to_xr(s.time), s.rec_time.val[s.source]), s.Q._Q_.n >= 0)

    def site_rate(s, info):
        return info['rate'] == s.tau

    cs.append(Contract(F, '_find_next_trans_SIS_Markov',
        cases=[Case('any', dict(Q=H.mk_queue, time=T.real, tau=T.real, source=T.node, target=T.node, status=status_t,
                                rec_time=T.dict_of('U', 'XR', default=lambda: so.xr_fin(fresh('tmin_minus_1', R))), trans_event_args=mk_args))],
        requires=fn_requires, modifies=['Q', 'rec_time'],
        must_raise=lambda old: And(so.xr_lt(old.rec_time.val[old.target], old.rec_time.val[old.source]), old.tau < 0),
        sites={('random.expovariate', 0): site_rate, ('random.expovariate', 1): site_rate},
        sites_strict=('random.expovariate', 'random.random', 'random.choice', 'random.sample'),
        local_sorts={'delay': 'XR', 'transmission_time': 'XR'},
        ensures=fn_full_post))

    # ------------------------------------------------------------------ _process_trans_SIS_Markov
    K_R = H.KINDS['_process_rec_SIS_']
    TRl = T.list_of(H.TR)

    def tr_cases():
        base = dict(time=T.real, G=T.graph(), source=T.node, target=T.node, times=lR, S=lI, I=lI, Q=H.mk_queue, status=status_t,
                    rec_time=T.dict_of('U', 'XR', default=lambda: so.xr_fin(fresh('tmin_minus_1', R))),
                    infection_times=T.dict_of_lists('U', 'R'), recovery_times=T.dict_of_lists('U', 'R'), transmissions=TRl,
                    trans_rate_fxn=rate_cb('trate', 2), rec_rate_fxn=rate_cb('rrate', 1))
        return [Case('from-neighbour', base), Case('initial-infection', dict(base, source=T.none))]

    def has_source(s):
        return s.source is not NONE

    def tr_requires(s):
        c = [rows2(s), s.time >= s.times.last(), so.xr_lt(so.to_xr(s.time), s.Q.tmax), s.Q._Q_.n >= 0]
        if has_source(s):
            c.append(so.xr_le(so.to_xr(s.time), s.rec_time.val[s.source]))     # the event was scheduled before the source's recovery
        return And(*c)

    def new_events_ok(D, q1, lo, t, tgt, rec_new, tmax, G, src, rs, allow_own, own_done=None):
        """every event queued since position lo is (a) the recovery of tgt at rec_new < tmax, (b) a transmission tgt -> neighbour
        at a time in [t, rec_new), < tmax, or (c) the next attempt src -> tgt at a time in [t, recovery of src), < tmax"""
        def ok(j):
            e = q1.a[j]
            Tn = so.xr_fin(D.time(e))
            alts = []
            if allow_own:
                alts.append(And(D.kind(e) == K_R, Not(D.has_src(e)), D.tgt(e) == tgt, so.xr_eq(Tn, rec_new), so.xr_lt(rec_new, tmax)))
                own = And(D.kind(e) == K_T, D.has_src(e), D.src(e) == tgt, G.adj(tgt, D.tgt(e)),
                          so.xr_le(t, Tn), so.xr_lt(Tn, rec_new), so.xr_lt(Tn, tmax))
                if own_done is not None:
                    own = And(own, own_done(D.tgt(e)))
                alts.append(own)
            if src is not None:
                alts.append(And(D.kind(e) == K_T, D.has_src(e), D.src(e) == src, D.tgt(e) == tgt,
                                so.xr_le(t, Tn), so.xr_lt(Tn, rs), so.xr_lt(Tn, tmax)))
            return Or(*alts) if alts else BoolVal(False)
        return so.forall_idx(q1.n, ok, lo=lo)

    def counters_ok(D, q1, lo, c0, c1):
        return And(c1 >= c0, c1 - c0 == q1.n - lo,
                   so.forall_idx(q1.n, lambda j: D.counter(q1.a[j]) == c0 + (j - lo), lo=lo))

    def tr_post(old, s, ret):
        D = old.Q._Q_.esort.D
        q0, q1 = old.Q._Q_, s.Q._Q_
        tgt, time = old.target, old.time
        t = so.to_xr(time)
        was_S = old.status.val[tgt] == SC('S')
        src = old.source if has_source(old) else None
        rs = old.rec_time.val[old.source] if src is not None else None
        tmax = old.Q.tmax
        it0, it1 = old.infection_times, s.infection_times
        rec_new = s.rec_time.val[tgt]
        frame_lists = lambda: And(H.same_list(s.times, old.times), H.same_list(s.S, old.S), H.same_list(s.I, old.I),
                                  H.same_list(s.transmissions, old.transmissions), s.status.val == old.status.val,
                                  s.rec_time.val == old.rec_time.val,
                                  so.forall(so.U(), lambda x: And(it1.lens[x] == it0.lens[x], it1.vals[x] == it0.vals[x])))
        common = And(s.Q.tmax == tmax, H.extends(q1, q0), counters_ok(D, q1, q0.n, old.Q.counter, s.Q.counter),
                     so.forall(so.U(), lambda x: And(s.recovery_times.lens[x] == old.recovery_times.lens[x],
                                                     s.recovery_times.vals[x] == old.recovery_times.vals[x])))
        infected = And(
            s.status.val == z3.Store(old.status.val, tgt, SC('I')),
            H.appended(s.times, old.times, time), H.appended(s.S, old.S, old.S.last() - 1), H.appended(s.I, old.I, old.I.last() + 1),
            rows2(s),
            H.appended(s.transmissions, old.transmissions, old.transmissions.esort.pack((time, old.source, tgt))),
            so.forall(so.U(), lambda x: Implies(x != tgt, s.rec_time.val[x] == old.rec_time.val[x])),
            so.xr_le(t, rec_new),
            it1.lens[tgt] == it0.lens[tgt] + 1, it1.vals[tgt][it0.lens[tgt]] == time,
            so.forall_idx(it0.lens[tgt], lambda j: it1.vals[tgt][j] == it0.vals[tgt][j]),
            so.forall(so.U(), lambda x: Implies(x != tgt, And(it1.lens[x] == it0.lens[x], it1.vals[x] == it0.vals[x]))),
            new_events_ok(D, q1, q0.n, t, tgt, rec_new, tmax, old.G, src, rs, True),
            # the recovery is queued iff it happens before tmax, and only once
            so.xr_lt(rec_new, tmax) == so.exists_idx(q1.n, lambda j: D.kind(q1.a[j]) == K_R, lo=q0.n),
            so.forall_idx(q1.n, lambda j: Implies(D.kind(q1.a[j]) == K_R, j == q0.n), lo=q0.n))
        not_infected = And(frame_lists(), new_events_ok(D, q1, q0.n, t, tgt, rec_new, tmax, old.G, src, rs, False), q1.n <= q0.n + 1)
        # the attempt chain source -> target is continued exactly once, whether or not the target got infected (memorylessness
        # makes the re-draw exact; dropping it would silence the source towards this neighbour for the rest of its period)
        chain = BoolVal(True)
        if src is not None and not s.has('caller_view'):
            n_src_calls = sum(1 for c in s.run.call_log if c[0] == '_find_next_trans_SIS_Markov' and c[1] == 1)
            chain = BoolVal(n_src_calls == 1)
        return And(common, chain, If(was_S, infected, not_infected))

    def tr_loop_inv(s, it):
        """for v in G.neighbors(target): _find_next_trans_SIS_Markov(... target, v ...)"""
        D = s.Q._Q_.esort.D
        q0, q1 = it.entry.Q._Q_, s.Q._Q_
        tgt = s.target
        t = so.to_xr(s.time)
        rec_new = s.rec_time.val[tgt]
        return And(s.Q.tmax == it.entry.Q.tmax, H.extends(q1, q0), counters_ok(D, q1, q0.n, it.entry.Q.counter, s.Q.counter),
                   s.rec_time.val == it.entry.rec_time.val, so.xr_le(t, rec_new),
                   so.forall_idx(q1.n, lambda j: And(
                       D.kind(q1.a[j]) == K_T, D.has_src(q1.a[j]), D.src(q1.a[j]) == tgt, s.G.adj(tgt, D.tgt(q1.a[j])), it.done(D.tgt(q1.a[j])),
                       so.xr_le(t, so.xr_fin(D.time(q1.a[j]))), so.xr_lt(so.xr_fin(D.time(q1.a[j])), rec_new),
                       so.xr_lt(so.xr_fin(D.time(q1.a[j])), s.Q.tmax)), lo=q0.n))

    EV_ORDER = ['G', None, None, 'times', 'S', 'I', 'Q', 'status', 'rec_time', 'infection_times', 'recovery_times', 'transmissions',
                'trans_rate_fxn', 'rec_rate_fxn']

    def mk_call_hook(which):
        def hook(s, b):
            """what the handler hands to _find_next_trans_SIS_Markov: the shared state by identity, the pair it is about, the
            pair's transmission rate, and event arguments that bind onto the handler's own signature"""
            tea = b.get('trans_event_args')
            if not (isinstance(tea, tuple) and len(tea) == len(EV_ORDER)):
                return BoolVal(False)
            for nm, a in zip(EV_ORDER, tea):
                if nm is not None and a is not getattr(s, nm):
                    return BoolVal(False)
            for nm in ('Q', 'status', 'rec_time'):
                if b.get(nm) is not getattr(s, nm):
                    return BoolVal(False)
            src_b, tgt_b = b.get('source'), b.get('target')
            if not (z3.is_expr(src_b) and z3.is_expr(tgt_b) and z3.is_expr(tea[1]) and z3.is_expr(tea[2])):
                return BoolVal(False)
            want_src, want_tgt = (s.target, s.v) if which == 0 else (s.source, s.target)
            rate = s.trans_rate_fxn.zf(want_src, want_tgt)
            return And(src_b == want_src, tgt_b == want_tgt, tea[1] == want_src, tea[2] == want_tgt,
                       so.to_xr(b.get('time')) == so.to_xr(s.time), b.get('tau') == rate)
        return hook

    def site_rec_rate(s, info):
        return info['rate'] == s.rec_rate_fxn.zf(s.target)

    cs.append(Contract(F, '_process_trans_SIS_Markov',
        cases=tr_cases(), axioms=lambda s: so.cnt_axioms(so.U(), so.Status()), requires=tr_requires,
        modifies=['times', 'S', 'I', 'Q', 'status', 'rec_time', 'infection_times', 'transmissions'],
        loops={0: LoopSpec(tr_loop_inv, body_calls={'_find_next_trans_SIS_Markov': 1})},
        sites={('random.expovariate', 0): site_rec_rate,
               ('call:_find_next_trans_SIS_Markov', 0): mk_call_hook(0), ('call:_find_next_trans_SIS_Markov', 1): mk_call_hook(1)},
        sites_strict=('random.expovariate', 'random.random', 'random.choice', 'random.sample'),
        must_raise=lambda old: And(old.status.val[old.target] == SC('S'), old.rec_rate_fxn.zf(old.target) < 0),
        ensures=tr_post))
    return cs


def install(lib):
    H.install(lib)
