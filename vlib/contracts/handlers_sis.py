"""Sidecar contracts for the event-driven Markovian SIS handlers (EoN/simulation.py): _find_next_trans_SIS_Markov,
_process_rec_SIS_.  Property C02 (fast_SIS half), C04."""
import z3
from z3 import And, Or, Not, Implies, If, IntVal, RealVal, BoolVal
from ..pyvc import sorts as so
from ..pyvc.sorts import fresh, I, R, B, cnt
from ..pyvc.values import SList, SDict, SObj, NONE, PyConst, FuncRef, Callback, TupleSpec, Unsupported, coerce, SDictOfLists
from ..pyvc.verify import Contract, Case, LoopSpec
from . import types as T
from . import handlers as H

F = 'EoN/simulation.py'
SC = H.SC
K_T = H.KINDS['_process_trans_SIS_Markov']


def contracts():
    cs = [c for c in H.contracts() if c.qualname.startswith('myQueue.')]
    for c in cs:
        c.verify = False
    lI, lR = T.list_of('I'), T.list_of('R')
    status_t = T.dict_of('U', 'Status', default=lambda: SC('S'))
    cs.append(Contract(F, '_process_trans_SIS_Markov', verify=False, cases=[],
                       note='only referenced as the handler of queued events here; its body is not under contract yet'))

    # ------------------------------------------------------------------ _process_rec_SIS_
    def rows2(s):
        n = s.times.n
        return And(n >= 1, s.S.n == n, s.I.n == n, s.S.last() == cnt(s.status.val, SC('S')), s.I.last() == cnt(s.status.val, SC('I')))

    def rec_post(old, s, ret):
        rt0, rt1 = old.recovery_times, s.recovery_times
        nd = old.node
        return And(H.appended(s.times, old.times, old.time), H.appended(s.S, old.S, old.S.last() + 1), H.appended(s.I, old.I, old.I.last() - 1),
                   s.status.val == z3.Store(old.status.val, nd, SC('S')), rows2(s),
                   rt1.lens[nd] == rt0.lens[nd] + 1, rt1.vals[nd][rt0.lens[nd]] == old.time,
                   so.forall(so.U(), lambda x: Implies(x != nd, And(rt1.lens[x] == rt0.lens[x], rt1.vals[x] == rt0.vals[x]))))

    cs.append(Contract(F, '_process_rec_SIS_',
        cases=[Case('any', dict(time=T.real, node=T.node, times=lR, recovery_times=T.dict_of_lists('U', 'R'), S=lI, I=lI, status=status_t))],
        axioms=lambda s: so.cnt_axioms(so.U(), so.Status()),
        requires=lambda s: And(rows2(s), s.status.val[s.node] == SC('I'), s.time >= s.times.last()),
        modifies=['times', 'recovery_times', 'S', 'I', 'status'], ensures=rec_post))

    # ------------------------------------------------------------------ _find_next_trans_SIS_Markov
    def mk_args(run, name, **kw):
        env = run.cur_env
        return (PyConst('G'), env['source'], env['target'], PyConst('times'), PyConst('S'), PyConst('I'), env['Q'], env['status'], env['rec_time'],
                PyConst('infection_times'), PyConst('recovery_times'), PyConst('transmissions'), PyConst('trans_rate_fxn'), PyConst('rec_rate_fxn'))

    def fn_post(old, s, ret):
        D = old.Q._Q_.esort.D
        q0, q1 = old.Q._Q_, s.Q._Q_
        rs, rtg = old.rec_time.val[old.source], old.rec_time.val[old.target]
        draws = [d for d in s.run.draws if d[0] == 'random.expovariate']
        t = so.to_xr(old.time)
        cands = []
        if len(draws) >= 1:
            cands.append((so.xr_add(t, draws[0][2]['value']), BoolVal(True)))
        if len(draws) == 2:
            cands = [(so.xr_add(rtg, draws[1][2]['value']), BoolVal(True))]
        added = q1.n == q0.n + 1
        same = H.same_list(q1, q0)
        if not draws:
            return And(same, s.Q.counter == old.Q.counter)
        T_, _ = cands[0]
        ev_ok = And(H.extends(q1, q0), D.kind(q1.a[q0.n]) == K_T, D.has_src(q1.a[q0.n]), D.src(q1.a[q0.n]) == old.source,
                    D.tgt(q1.a[q0.n]) == old.target, so.xr_eq(so.xr_fin(D.time(q1.a[q0.n])), T_))
        fire = And(so.xr_lt(T_, rs), so.xr_lt(T_, old.Q.tmax))
        return And(so.xr_lt(rtg, rs),                                   # only while the target's current period ends before the source's
                   If(fire, And(added, ev_ok), same),
                   so.xr_le(rtg, T_) if len(draws) == 2 else BoolVal(True),   # re-drawn from the end of the target's infectious period (memorylessness)
                   so.xr_le(t, T_), s.Q.tmax == old.Q.tmax)

    def fn_requires(s):
        return And(so.xr_le(so.to_xr(s.time), s.rec_time.val[s.source]), s.Q._Q_.n >= 0)

    def site_rate(s, info):
        return info['rate'] == s.tau

    cs.append(Contract(F, '_find_next_trans_SIS_Markov',
        cases=[Case('any', dict(Q=H.mk_queue, time=T.real, tau=T.real, source=T.node, target=T.node, status=status_t,
                                rec_time=T.dict_of('U', 'XR', default=lambda: so.xr_fin(fresh('tmin_minus_1', R))), trans_event_args=mk_args))],
        requires=fn_requires, modifies=['Q', 'rec_time'],
        must_raise=lambda old: And(so.xr_lt(old.rec_time.val[old.target], old.rec_time.val[old.source]), old.tau < 0),
        sites={('random.expovariate', 0): site_rate, ('random.expovariate', 1): site_rate},
        sites_strict=('random.expovariate', 'random.random', 'random.choice', 'random.sample'),
        local_sorts={'delay': 'XR', 'transmission_time': 'XR'},
        ensures=fn_post))
    return cs


def install(lib):
    H.install(lib)
