"""Gillespie_SIS with return_full_data=True: registry module (the contract text is in gillespie_full.py)."""
from .gillespie_full import sis_contracts as contracts, install
