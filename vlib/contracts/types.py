"""Parameter / local type makers for sidecar contracts.  Sorts are named by string and resolved when the
value is created, because sorts are re-created for each verification mode."""
import z3
from z3 import And, Or, Not, Implies, If, IntVal, RealVal, BoolVal
from ..pyvc import sorts as so
from ..pyvc.sorts import fresh, I, R, B
from ..pyvc.values import SList, SDict, SSet, SObj, TupleSpec, NONE, PyConst, Callback, FuncRef, SDictOfLists
from ..pyvc.lib import SGraph


def sort_of(name):
    if not isinstance(name, str):
        return name
    base = {'I': I, 'R': R, 'B': B}
    return base[name] if name in base else so.S[name]


def real(run, name, **kw):
    return fresh(name, R)


def integer(run, name, **kw):
    return fresh(name, I)


def boolean(run, name, **kw):
    return fresh(name, B)


def node(run, name, **kw):
    return fresh(name, so.U())


def xreal(run, name, **kw):
    return fresh(name, so.XR())


def none(run, name, **kw):
    return NONE


def scalar(sortname):
    return lambda run, name, **kw: fresh(name, sort_of(sortname))


def const(v):
    return lambda run, name, **kw: v


def pyconst(v):
    return lambda run, name, **kw: PyConst(v)


def true(run, name, **kw):
    return BoolVal(True)


def false(run, name, **kw):
    return BoolVal(False)


def list_of(esort):
    def mk(run, name, empty=False, **kw):
        es = esort() if callable(esort) else sort_of(esort)
        if empty:
            zs = es.zsort() if isinstance(es, TupleSpec) else es
            return SList(es, n=IntVal(0), a=fresh(name + '_a', z3.ArraySort(I, zs)), name=name)
        return SList(es, name=name)
    return mk


def dict_of(ksort, vsort, default=None):
    """default: None (plain dict) or a python number / z3-making callable (defaultdict)"""
    def mk(run, name, empty=False, default_value=None, **kw):
        K, V = sort_of(ksort), sort_of(vsort)
        dv = default_value if default_value is not None else (default() if callable(default) else default)
        if dv is not None:
            from ..pyvc.values import coerce
            dv = coerce(dv, V)
        if empty:
            dom = z3.K(K, BoolVal(False))
            val = z3.K(K, dv) if dv is not None else fresh(name + '_val', z3.ArraySort(K, V))
            return SDict(K, V, dom=dom, val=val, default=dv, name=name)
        return SDict(K, V, default=dv, name=name)
    return mk


def set_of(ksort):
    def mk(run, name, empty=False, **kw):
        K = sort_of(ksort)
        if empty:
            return SSet(K, dom=z3.K(K, BoolVal(False)), name=name)
        return SSet(K, name=name)
    return mk


def graph(directed=False, weight_labels=(), node_labels=(), positive=True):
    def mk(run, name, **kw):
        G = SGraph(name, directed=directed)
        for ax in G.axioms(weight_labels, node_labels, positive):
            run.assume(ax)
        return G
    return mk


def funcref(q):
    return lambda run, name, **kw: FuncRef(q)


def dict_of_lists(ksort, esort, default_empty=True):
    def mk(run, name, empty=False, **kw):
        K, E = sort_of(ksort), sort_of(esort)
        if empty:
            return SDictOfLists(K, E, dom=z3.K(K, BoolVal(False)), lens=z3.K(K, IntVal(0)), default_empty=default_empty, name=name)
        return SDictOfLists(K, E, default_empty=default_empty, name=name)
    return mk


def distinct_list(esort):
    """list without repeated elements (e.g. a collection of distinct nodes): carries a position function"""
    def mk(run, name, empty=False, **kw):
        E = sort_of(esort)
        l = SList(E, name=name)
        posf = z3.Function('%s_pos_%d' % (name, so.Mode.gen), E, I)
        memf = z3.Function('%s_mem_%d' % (name, so.Mode.gen), E, B)
        l.posf = lambda x: posf(x)
        l.memberf = lambda x: memf(x)
        run.assume(l.wellformed())
        run.assume(so.forall_idx(l.n, lambda i: And(memf(l.a[i]), posf(l.a[i]) == i)))
        run.assume(so.forall(E, lambda x: Implies(memf(x), And(0 <= posf(x), posf(x) < l.n, l.a[posf(x)] == x))))
        return l
    return mk


def tuple_list(specname, fields):
    def mk(run, name, empty=False, **kw):
        fs = [(fn, (('opt', sort_of(fsort[1])) if isinstance(fsort, tuple) else sort_of(fsort))) for fn, fsort in fields]
        spec = TupleSpec(specname, fs)
        if empty:
            return SList(spec, n=IntVal(0), a=fresh(name + '_a', z3.ArraySort(I, spec.zsort())), name=name)
        return SList(spec, name=name)
    return mk


def history(tmin_name='tmin'):
    """node_history = defaultdict(lambda: ([tmin], ['S']))"""
    from ..pyvc.values import SHistory

    def mk(run, name, empty=False, default_value=None, **kw):
        tmin = run.local(tmin_name)
        if empty:
            # the declared default must be what the code's lambda builds: ([tmin], ['S'])
            ok = (isinstance(default_value, tuple) and len(default_value) == 2 and all(isinstance(x, SList) for x in default_value))
            if ok:
                a, b = default_value
                ok = (z3.is_true(z3.simplify(a.n == 1)) and z3.is_true(z3.simplify(b.n == 1))
                      and z3.is_true(z3.simplify(a.a[0] == tmin)) and z3.is_true(z3.simplify(b.a[0] == so.S['status_const']['S'])))
            if not ok:
                from ..pyvc.engine import Unbindable
                raise Unbindable('the default entry of node_history is not ([tmin], [\'S\'])')
            return SHistory.empty(tmin, name)
        h = SHistory(tmin, name)
        return h
    return mk
