"""Parameter / local type makers for sidecar contracts.  Sorts are named by string and resolved when the
value is created, because sorts are re-created for each verification mode."""
import z3
from z3 import And, Or, Not, Implies, If, IntVal, RealVal, BoolVal
from ..pyvc import sorts as so
from ..pyvc.sorts import fresh, I, R, B
from ..pyvc.values import SList, SDict, SSet, SObj, TupleSpec, NONE, PyConst, Callback, FuncRef
from ..pyvc.lib import SGraph


def sort_of(name):
    if not isinstance(name, str):
        return name
    base = {'I': I, 'R': R, 'B': B}
    return base[name] if name in base else so.S[name]


def real(run, name, **kw):
    return fresh(name, R)


def integer(run, name, **kw):
    return fresh(name, I)


def boolean(run, name, **kw):
    return fresh(name, B)


def node(run, name, **kw):
    return fresh(name, so.U())


def xreal(run, name, **kw):
    return fresh(name, so.XR())


def none(run, name, **kw):
    return NONE


def scalar(sortname):
    return lambda run, name, **kw: fresh(name, sort_of(sortname))


def const(v):
    return lambda run, name, **kw: v


def pyconst(v):
    return lambda run, name, **kw: PyConst(v)


def true(run, name, **kw):
    return BoolVal(True)


def false(run, name, **kw):
    return BoolVal(False)


def list_of(esort):
    def mk(run, name, empty=False, **kw):
        es = esort() if callable(esort) else sort_of(esort)
        if empty:
            zs = es.zsort() if isinstance(es, TupleSpec) else es
            return SList(es, n=IntVal(0), a=fresh(name + '_a', z3.ArraySort(I, zs)), name=name)
        return SList(es, name=name)
    return mk


def dict_of(ksort, vsort, default=None):
    """default: None (plain dict) or a python number / z3-making callable (defaultdict)"""
    def mk(run, name, empty=False, default_value=None, **kw):
        K, V = sort_of(ksort), sort_of(vsort)
        dv = default_value if default_value is not None else (default() if callable(default) else default)
        if dv is not None:
            from ..pyvc.values import coerce
            dv = coerce(dv, V)
        if empty:
            dom = z3.K(K, BoolVal(False))
            val = z3.K(K, dv) if dv is not None else fresh(name + '_val', z3.ArraySort(K, V))
            return SDict(K, V, dom=dom, val=val, default=dv, name=name)
        return SDict(K, V, default=dv, name=name)
    return mk


def set_of(ksort):
    def mk(run, name, empty=False, **kw):
        K = sort_of(ksort)
        if empty:
            return SSet(K, dom=z3.K(K, BoolVal(False)), name=name)
        return SSet(K, name=name)
    return mk


def graph(directed=False, weight_labels=(), node_labels=(), positive=True):
    def mk(run, name, **kw):
        G = SGraph(name, directed=directed)
        for ax in G.axioms(weight_labels, node_labels, positive):
            run.assume(ax)
        return G
    return mk


def funcref(q):
    return lambda run, name, **kw: FuncRef(q)
