"""fast_SIS (EoN/simulation.py): main body and the event-loop rule for the Markovian SIS handlers.  C02, C04, C05.

Same QUEUE RULE as fast_sir.py: the lemma unit `event_step_SIS` shows that popping a minimal event and running the
handler it names (through the handler's CONTRACT) re-establishes the global invariant GI_SIS; the real loop must be
exactly `Q.pop_and_run()`.

GI_SIS (what holds between any two events of any run on any graph):
  rows        S, I as long as times, last row = head counts, nobody is ever 'R', S+I = N, unit steps, times
              non-decreasing from tmin and < tmax
  pending     every pending event lies in [last reported time, tmax), has a unique counter below the queue's counter
  recoveries  a pending recovery belongs to an infected node, at exactly rec_time[node], one per node
  attempts    a pending transmission u -> v goes along an edge from an INFECTED u strictly before rec_time[u]
  clock       a susceptible node's rec_time is not in the future  (so `rec_time[v] <= T` <=> v susceptible at T, which is
              what _find_next_trans_SIS_Markov relies on; the never-infected default tmin-1 satisfies it for every tmin)
  initial     the k synthetic initial infections are processed first, in order, at tmin, each infecting a fresh node
"""
import z3
from z3 import And, Or, Not, Implies, If, IntVal, RealVal, BoolVal
from ..pyvc import sorts as so
from ..pyvc.sorts import fresh, I, R, B, cnt
from ..pyvc.values import SList, SDict, SObj, NONE, PyConst, FuncRef, Callback, TupleSpec, Unsupported, coerce, SHeap
from ..pyvc.verify import Contract, Case, LoopSpec
from . import types as T
from . import handlers as H
from . import handlers_sis as HS
from . import rates

F = 'EoN/simulation.py'
SC = H.SC
K_T, K_R = H.KINDS['_process_trans_SIS_Markov'], H.KINDS['_process_rec_SIS_']


def axioms_for(s):
    U = so.U()
    ax = so.cnt_axioms(U, so.Status())
    if not so.Mode.finite:
        A = z3.ArraySort(U, so.Status())
        a = z3.Const('pa', A)
        ax.append(z3.ForAll([a], cnt(a, SC('S')) + cnt(a, SC('I')) + cnt(a, SC('R')) == s.G.N, patterns=[cnt(a, SC('S'))]))
        ax.append(z3.ForAll([a], Implies(so.forall(U, lambda u: a[u] != SC('R')), cnt(a, SC('R')) == 0), patterns=[cnt(a, SC('R'))]))
        for c0 in ('S', 'I', 'R'):
            for x0 in ('S', 'I', 'R'):
                ax.append(cnt(z3.K(U, SC(c0)), SC(x0)) == (s.G.N if c0 == x0 else 0))
    return ax


class Ctx:
    def __init__(self, G, tmin, tmax, II):
        self.G, self.tmin, self.tmax, self.II = G, tmin, tmax, II
        self.k = II.n


def GI(s, cx):
    G, tmin, tmax, k, II = cx.G, cx.tmin, cx.tmax, cx.k, cx.II
    times, S, I_ = s.times, s.S, s.I
    q = s.Q._Q_
    D = q.esort.D
    stv = s.status.val
    rt = s.rec_time.val
    n = times.n
    m = n - 1
    mk = If(m < k, m, k)
    N = G.N
    alive = lambda j: Not(q.dead[j])
    now = so.xr_fin(times.last())
    c = []
    # rows
    c += [n >= 1, S.n == n, I_.n == n, S.last() == cnt(stv, SC('S')), I_.last() == cnt(stv, SC('I')),
          so.forall(so.U(), lambda x: stv[x] != SC('R'))]
    c.append(times.a[0] == tmin)
    c.append(so.forall_idx(n - 1, lambda j: times.a[j] <= times.a[j + 1]))
    c.append(so.forall_idx(n, lambda j: so.xr_lt(times.a[j], tmax), lo=1))
    c.append(so.forall_idx(n, lambda j: And(S.a[j] + I_.a[j] == N, S.a[j] >= 0, I_.a[j] >= 0)))
    c.append(so.forall_idx(n, lambda j: Or(And(S.a[j] == S.a[j - 1] - 1, I_.a[j] == I_.a[j - 1] + 1),
                                           And(S.a[j] == S.a[j - 1] + 1, I_.a[j] == I_.a[j - 1] - 1)), lo=1))
    # pending
    c.append(s.Q.tmax == tmax)
    c.append(q.wellformed())
    c.append(so.forall_idx(q.n, lambda j: Implies(alive(j), And(
        times.last() <= D.time(q.a[j]), so.xr_lt(D.time(q.a[j]), tmax), D.counter(q.a[j]) < s.Q.counter, D.counter(q.a[j]) >= 0,
        Or(D.kind(q.a[j]) == K_T, D.kind(q.a[j]) == K_R)))))
    c.append(so.forall_idx(q.n, lambda j: so.forall_idx(q.n, lambda j2: Implies(
        And(alive(j), alive(j2), j != j2), D.counter(q.a[j]) != D.counter(q.a[j2])))))
    # recoveries
    c.append(so.forall_idx(q.n, lambda j: Implies(And(alive(j), D.kind(q.a[j]) == K_R), And(
        stv[D.tgt(q.a[j])] == SC('I'), so.xr_eq(so.xr_fin(D.time(q.a[j])), rt[D.tgt(q.a[j])]), D.counter(q.a[j]) >= k))))
    c.append(so.forall_idx(q.n, lambda j: so.forall_idx(q.n, lambda j2: Implies(
        And(alive(j), alive(j2), D.kind(q.a[j]) == K_R, D.kind(q.a[j2]) == K_R, D.tgt(q.a[j]) == D.tgt(q.a[j2])), j == j2))))
    if getattr(cx, 'with_pending_recovery', False):
        c.append(so.forall(so.U(), lambda x: Implies(stv[x] == SC('I'), Or(
            Not(so.xr_lt(rt[x], tmax)),
            so.exists_idx(q.n, lambda j: And(alive(j), D.kind(q.a[j]) == K_R, D.tgt(q.a[j]) == x))))))
    # attempts
    c.append(so.forall_idx(q.n, lambda j: Implies(And(alive(j), D.kind(q.a[j]) == K_T, D.has_src(q.a[j])), And(
        G.adj(D.src(q.a[j]), D.tgt(q.a[j])), stv[D.src(q.a[j])] == SC('I'),
        so.xr_lt(so.xr_fin(D.time(q.a[j])), rt[D.src(q.a[j])]), D.counter(q.a[j]) >= k))))
    # clock
    c.append(so.forall(so.U(), lambda x: Implies(stv[x] == SC('S'), so.xr_le(rt[x], now))))
    # initial phase
    c.append(so.forall_idx(q.n, lambda j: Implies(alive(j), And(
        (D.counter(q.a[j]) < k) == And(D.kind(q.a[j]) == K_T, Not(D.has_src(q.a[j]))),
        Implies(D.counter(q.a[j]) < k, And(D.counter(q.a[j]) >= m, D.tgt(q.a[j]) == II.a[D.counter(q.a[j])],
                                           D.time(q.a[j]) == tmin))))))
    c.append(so.forall_idx(k, lambda i: And(so.exists_idx(q.n, lambda j: And(alive(j), D.counter(q.a[j]) == i)),
                                            stv[II.a[i]] == SC('S')), lo=mk))
    c.append(so.forall_idx(mk + 1, lambda j: And(times.a[j] == tmin, I_.a[j] == j, S.a[j] == N - j)))
    c.append(s.Q.counter >= k)
    return And(*c)


STATE = ('times', 'S', 'I', 'Q', 'status', 'rec_time', 'infection_times', 'recovery_times', 'transmissions')


def lemma_params():
    lI, lR = T.list_of('I'), T.list_of('R')
    return dict(G=T.graph(), tmin=T.real, tmax=T.xreal, II=T.distinct_list('U'),
                times=lR, S=lI, I=lI, Q=H.mk_queue,
                status=T.dict_of('U', 'Status', default=lambda: SC('S')),
                rec_time=T.dict_of('U', 'XR', default=lambda: so.xr_fin(fresh('tmin_minus_1', R))),
                infection_times=T.dict_of_lists('U', 'R'), recovery_times=T.dict_of_lists('U', 'R'),
                transmissions=T.list_of(H.TR),
                trans_rate_fxn=HS.rate_cb('trate', 2), rec_rate_fxn=HS.rate_cb('rrate', 1))


def ctx_of(s):
    return Ctx(s.G, s.tmin, s.tmax, s.II)


def step_body(run, env):
    Q = env['Q']
    heap = Q.f['_Q_']
    t, counter, fn, args = H.heappop(run, [heap], {}, 0)
    ev, m = run.ghost['popped']
    D = heap.esort.D
    kind = D.kind(ev)
    rows_done = env['times'].n - 1
    k = env['II'].n
    cut = And(Implies(rows_done < k, And(D.counter(ev) == rows_done, D.time(ev) == env['tmin'], Not(D.has_src(ev)),
                                         kind == K_T, D.tgt(ev) == env['II'].a[rows_done])),
              Implies(rows_done >= k, D.counter(ev) >= k))
    run.oblige('lemma', 'cut:popped-event-vs-initial-phase', 0, cut)
    run.assume(cut)
    if run.branch(kind == K_R):
        # cut: nothing that the recovering node scheduled is still pending (its attempts all lie strictly before its recovery,
        # and the popped recovery is a minimal event)
        r = D.tgt(ev)
        alive = lambda j: Not(heap.dead[j])
        cut2 = so.forall_idx(heap.n, lambda j: Implies(And(alive(j), D.kind(heap.a[j]) == K_T, D.has_src(heap.a[j])), D.src(heap.a[j]) != r))
        run.oblige('lemma', 'cut:no-pending-attempt-of-the-recovering-node', 0, cut2)
        run.assume(cut2)
        run.call_contract('_process_rec_SIS_', [t, r, env['times'], env['recovery_times'], env['S'], env['I'], env['status']], {}, 0)
        return
    if run.branch(kind == K_T):
        src = D.src(ev) if run.branch(D.has_src(ev)) else NONE
        run.call_contract('_process_trans_SIS_Markov', [t, env['G'], src, D.tgt(ev), env['times'], env['S'], env['I'], Q, env['status'],
                                                        env['rec_time'], env['infection_times'], env['recovery_times'], env['transmissions'],
                                                        env['trans_rate_fxn'], env['rec_rate_fxn']], {}, 0)
        return
    run.oblige('safety', 'event-kind-known', 0, BoolVal(False))


def lemma_requires(s):
    return And(GI(s, ctx_of(s)), s.Q._Q_.size() > 0, so.xr_lt(s.tmin, s.tmax), s.G.N >= 1)


def lemma_ensures(old, s, ret):
    return GI(s, ctx_of(s))


# ---------------------------------------------------------------------------------------------------
# fast_SIS
# ---------------------------------------------------------------------------------------------------

def main_requires(s):
    c = [so.xr_lt(s.tmin, so.to_xr(s.tmax)), s.G.N >= 1, s.tau >= 0, s.gamma >= 0]
    if s.rho is not NONE:
        c += [s.rho >= 0, s.rho <= 1]
    return And(*c)


def main_ctx(s):
    return Ctx(s.G, s.old.tmin, so.to_xr(s.old.tmax), s.initial_infecteds)


def inv_initial_events(s, it):
    """for u in initial_infecteds: Q.add(tmin, _process_trans_SIS_Markov, args=(G, None, u, ...))"""
    cx = main_ctx(s)
    q = s.Q._Q_
    D = q.esort.D
    return And(s.Q.tmax == cx.tmax, q.n == it.i, q.ndead == 0, s.Q.counter == it.i,
               so.forall_idx(q.n, lambda j: And(Not(q.dead[j]), D.time(q.a[j]) == cx.tmin, D.counter(q.a[j]) == j,
                                                D.kind(q.a[j]) == K_T, Not(D.has_src(q.a[j])), D.tgt(q.a[j]) == cx.II.a[j])))


def inv_event_loop(s, it):
    return GI(s, main_ctx(s))


def init_count(old):
    ii = old.initial_infecteds
    if isinstance(ii, SList):
        return ii.n
    if ii is NONE and old.rho is not NONE:
        x = z3.ToReal(old.G.N) * old.rho
        fl = z3.ToInt(x)
        fr = x - z3.ToReal(fl)
        return If(fr < RealVal('1/2'), fl, If(fr > RealVal('1/2'), fl + 1, If(fl % 2 == 0, fl, fl + 1)))
    return IntVal(1)


def main_post(old, s, ret):
    if not (isinstance(ret, tuple) and len(ret) == 3 and all(isinstance(x, SList) for x in ret)):
        return BoolVal(False)
    from .gillespie import rows
    t, S_, I_ = ret
    G = old.G
    k = init_count(old)
    return And(rows(t, S_, I_, None, old.tmin, so.to_xr(old.tmax), G.N, sir=False), I_.a[0] == k, S_.a[0] == G.N - k)


def site_sample(s, info):
    G = s.G
    return And(info['k'] == init_count(s.old), info['pop'].n == G.nodelist.n, info['pop'].a == G.nodelist.a)


def main_cases():
    out = []
    for wname, tw, rw in (('unweighted', None, None), ('weighted', rates.TW, rates.RW)):
        for nm, ii, rho in (('list', T.distinct_list('U'), T.none), ('node', T.node, T.none), ('rho', T.none, T.real),
                            ('default', T.none, T.none), ('both-given', T.distinct_list('U'), T.real)):
            if wname == 'weighted' and nm in ('default', 'both-given'):
                continue
            out.append(Case('%s-%s' % (nm, wname), dict(
                G=T.graph(weight_labels=(rates.TW,) if tw else (), node_labels=(rates.RW,) if rw else ()),
                tau=T.real, gamma=T.real, initial_infecteds=ii, rho=rho, tmin=T.real, tmax=T.xreal,
                transmission_weight=T.pyconst(tw) if tw else T.none, recovery_weight=T.pyconst(rw) if rw else T.none,
                return_full_data=T.false, sim_kwargs=T.none)))
    return out


def _fresh_list(run, name, sort):
    l = SList(sort, name='ret_' + name)
    run.assume(l.wellformed())
    return l


def contracts(verify_callees=False):
    cs = list(HS.contracts()) + [c for c in rates.contracts() if c.qualname == '_get_rate_functions_']
    for c in cs:
        # the three SIS handlers are verified here when asked; myQueue.* (C04/C11) and _get_rate_functions_ (C01) elsewhere
        c.verify = verify_callees and c.qualname in ('_process_rec_SIS_', '_find_next_trans_SIS_Markov', '_process_trans_SIS_Markov')
    lI, lR = T.list_of('I'), T.list_of('R')

    cs.append(Contract(F, 'event_step_SIS', body=step_body,
        depends=('_process_trans_SIS_Markov', '_process_rec_SIS_', 'myQueue.pop_and_run', 'myQueue.add'),
        cases=[Case('any', lemma_params())], axioms=axioms_for,
        requires=lemma_requires, ensures=lemma_ensures,
        note='LEMMA over contracts: a step of the SIS event loop preserves the global invariant'))

    cs.append(Contract(F, 'fast_SIS',
        cases=main_cases(), axioms=axioms_for, requires=main_requires,
        must_raise=lambda old: BoolVal(old.rho is not NONE and old.initial_infecteds is not NONE),
        locals_={'status': T.dict_of('U', 'Status', default=lambda: SC('S')),
                 'rec_time': T.dict_of('U', 'XR'),
                 'infection_times': T.dict_of_lists('U', 'R'), 'recovery_times': T.dict_of_lists('U', 'R'),
                 'Q': H.mk_queue, 'transmissions': T.list_of(H.TR), 'times': lR, 'S': lI, 'I': lI},
        loops={0: inv_initial_events,
               1: LoopSpec(inv_event_loop, step_lemma='event_step_SIS', step_body_src='Q.pop_and_run()', havoc_names=STATE)},
        sites={('random.sample', 0): site_sample},
        sites_strict=('random.sample', 'random.random', 'random.expovariate', 'random.choice'),
        make_ret=lambda run, s: tuple(_fresh_list(run, nm, srt) for nm, srt in (('t', R), ('S', I), ('I', I))),
        ensures=main_post))
    return cs


def install(lib):
    H.install(lib)
