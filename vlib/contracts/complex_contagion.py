"""Sidecar contract for Gillespie_complex_contagion (EoN/simulation.py), property C15."""
import z3
from z3 import And, Or, Not, Implies, If, IntVal, RealVal, BoolVal
from ..pyvc import sorts as so
from ..pyvc.sorts import fresh, I, R, B, cnt
from ..pyvc.values import SList, SDict, SObj, NONE, PyConst, FuncRef, Callback, Unsupported, coerce, SDictOfLists
from ..pyvc.verify import Contract, Case, LoopSpec
from . import types as T
from . import listdict as LD

F = 'EoN/simulation.py'
PARAMS = (PyConst('user-parameter'),)


def STAT():
    return z3.ArraySort(so.U(), so.St())


def RATEF():
    """the user's rate function evaluated on (all current statuses, node)"""
    return z3.Function('user_rate_%d' % so.Mode.gen, STAT(), so.U(), R)


def CHOICEF():
    return z3.Function('user_choice_%d' % so.Mode.gen, STAT(), so.U(), so.St())


def INFLF():
    return z3.Function('user_influence_%d' % so.Mode.gen, STAT(), so.U(), so.U(), B)


def args_ok(run, args, kw):
    env = run.env_view()
    return (len(args) == 4 and not kw and args[0] is env['G'] and args[2] is env['status']
            and (args[3] is env['parameters'] or args[3] == env['parameters']))


def mk_rate(run, name, **kw):
    def fn(run2, args, kw2, lineno):
        ok = args_ok(run2, args, kw2) and z3.is_expr(args[1])
        run2.oblige('site', 'callback-args:rate_function', lineno, BoolVal(bool(ok)))
        if not ok:
            return fresh('rate', R)
        st = run2.local('status').val
        r = RATEF()(st, args[1])
        run2.assume(r >= 0)
        return r
    return Callback('rate_function', fn)


def mk_choice(run, name, **kw):
    def fn(run2, args, kw2, lineno):
        ok = args_ok(run2, args, kw2) and z3.is_expr(args[1])
        run2.oblige('site', 'callback-args:transition_choice', lineno,
                    (args[1] == run2.local('node')) if ok else BoolVal(False))
        st = run2.local('status').val
        run2.ghost['status_before'] = st
        run2.ghost['chosen'] = (args[1], CHOICEF()(st, args[1])) if ok else None
        return CHOICEF()(st, args[1]) if ok else fresh('choice', so.St())
    return Callback('transition_choice', fn)


def mk_infl(run, name, **kw):
    def fn(run2, args, kw2, lineno):
        ok = args_ok(run2, args, kw2) and z3.is_expr(args[1])
        env = run2.env_view()
        st = env['status'].val
        prev = run2.ghost.get('status_before')
        ch = run2.ghost.get('chosen')
        good = ok and prev is not None and ch is not None
        # the influence set is asked about the node that just changed, AFTER its status was set to the chooser's answer
        run2.oblige('site', 'influence-set-after-status-update', lineno,
                    And(args[1] == env['node'], st == z3.Store(prev, ch[0], ch[1]), ch[0] == env['node']) if good else BoolVal(False))
        res = SList(so.U(), name='influence_set')
        run2.assume(res.wellformed())
        if good:
            x = args[1]
            run2.assume(so.forall(so.U(), lambda u: res.contains(u) == INFLF()(st, x, u)))
            # COVERING ASSUMPTION of the property: a status change at x changes the rate only of x and of the influence set
            run2.assume(so.forall(so.U(), lambda u: Implies(And(u != x, Not(INFLF()(st, x, u))), RATEF()(st, u) == RATEF()(prev, u))))
            run2.assume(so.forall(so.U(), lambda u: And(RATEF()(st, u) >= 0, RATEF()(prev, u) >= 0)))
        return res
    return Callback('get_influence_set', fn)


def axioms_for(s):
    U = so.U()
    ax = so.wsum_axioms(U) + so.cnt_axioms(U, so.St())
    # user assumption of the property: rates are non-negative
    a = z3.Const('rate_st', STAT())
    u = z3.Const('rate_u', U)
    ax.append(z3.ForAll([a, u], RATEF()(a, u) >= 0, patterns=[RATEF()(a, u)]))
    return ax


def rates_view(s, rate_of):
    """nodes_by_rate represents { u -> rate_of(u) | rate_of(u) > 0 }"""
    ld = s.nodes_by_rate
    U = so.U()
    return And(LD.WF(ld), so.forall(U, lambda u: And(LD.members(ld)[u] == (rate_of(u) > 0), ld.weight.val[u] == rate_of(u), rate_of(u) >= 0)))


def rs_list(s):
    return list(s.return_statuses)


def data_ok(s, length):
    d = s.data
    rs = rs_list(s)
    st = s.status.val
    return And(so.forall(so.St(), lambda x: d.dom[x] == Or(*[x == r for r in rs])),
               *[And(d.lens[r] == length, d.vals[r][length - 1] == cnt(st, r)) for r in rs])


def inv_init_rates(s, it):
    st = s.status.val
    return And(rates_view(s, lambda u: If(it.done(u), RATEF()(st, u), RealVal(0))))


def hist_ok(s, now):
    """full data: every node history starts at tmin, is time-ordered up to the current time and ends with the node's current status"""
    if not s.has('node_history'):
        return BoolVal(True)
    h = s.node_history
    stv = s.status.val
    return so.forall(so.U(), lambda x: And(
        h.times.lens[x] >= 1, h.stats.lens[x] == h.times.lens[x], h.times.vals[x][0] == s.old.tmin,
        h.stats.vals[x][h.times.lens[x] - 1] == stv[x], h.times.vals[x][h.times.lens[x] - 1] <= now,
        so.forall_idx(h.times.lens[x] - 1, lambda j: h.times.vals[x][j] <= h.times.vals[x][j + 1])))


def inv_main(s, it):
    st = s.status.val
    n = s.times.n
    return And(hist_ok(s, s.times.last()), n >= 1, s.times.a[0] == s.old.tmin, so.forall_idx(n - 1, lambda j: s.times.a[j] <= s.times.a[j + 1]),
               so.forall_idx(n, lambda j: so.xr_lt(s.times.a[j], s.old.tmax), lo=1),
               so.xr_le(s.times.last(), s.t),
               rates_view(s, lambda u: RATEF()(st, u)), data_ok(s, n), so.forall(so.U(), lambda u: s.status.dom[u]),
               Or(so.xr_isinf(s.t), LD.total(s.nodes_by_rate) > 0))


def inv_copy_rows(s, it):
    """for x in data.keys(): data[x].append(data[x][-1])   (times already has the new entry)"""
    d, d0 = s.data, it.entry.data
    n = s.times.n
    return And(so.forall(so.St(), lambda x: d.dom[x] == d0.dom[x]),
               so.forall(so.St(), lambda x: Implies(d0.dom[x], And(
                   d.lens[x] == If(it.done(x), n, n - 1),
                   so.forall_idx(n - 1, lambda j: d.vals[x][j] == d0.vals[x][j]),
                   Implies(it.done(x), d.vals[x][n - 1] == d0.vals[x][n - 2])))))


def inv_rerate(s, it):
    """for nbr in influence_set: nodes_by_rate.insert(nbr, weight=rate_function(G, nbr, status, parameters))"""
    st = s.status.val
    prev = s.run.ghost.get('status_before')
    if prev is None:
        return BoolVal(False)
    x = s.node
    return rates_view(s, lambda u: If(Or(u == x, it.done(u)), RATEF()(st, u), RATEF()(prev, u)))


def site_clock(s, info):
    """waiting time ~ Exp(sum of the current rates)"""
    return And(rates_view(s, lambda u: RATEF()(s.status.val, u)), info['rate'] == LD.total(s.nodes_by_rate))


def post_full(old, s, ret):
    """the object gets the contact network, the histories kept during the run and the reported statuses; the run stopped for the
    same reason as in the plain mode"""
    if not (isinstance(ret, SObj) and ret.cls == 'Simulation_Investigation'):
        return BoolVal(False)
    a = ret.f.get('ctor_args')
    kw = ret.f.get('ctor_kwargs') or {}
    if not (isinstance(a, tuple) and len(a) == 2 and a[0] is old.G and a[1] is s.node_history):
        return BoolVal(False)
    ps = kw.get('possible_statuses')
    same = isinstance(ps, tuple) and len(ps) == len(old.return_statuses) and all(x is y or (z3.is_expr(x) and z3.is_expr(y) and x.eq(y))
                                                                              for x, y in zip(ps, old.return_statuses))
    return And(BoolVal(bool(same)), hist_ok(s, s.times.last()),
               Or(Not(LD.total(s.nodes_by_rate) > 0), Not(so.xr_lt(s.t, old.tmax))))


def post(old, s, ret):
    from ..pyvc.engine import _PyList
    if isinstance(ret, SObj):
        return post_full(old, s, ret)
    if not isinstance(ret, _PyList) or len(ret.items) != 1 + len(old.return_statuses):
        return BoolVal(False)
    times = ret.items[0]
    n = times.n
    c = [n >= 1, times.a[0] == old.tmin, so.forall_idx(n - 1, lambda j: times.a[j] <= times.a[j + 1]),
         so.forall_idx(n, lambda j: so.xr_lt(times.a[j], old.tmax), lo=1)]
    for k, r in enumerate(old.return_statuses):
        arr = ret.items[1 + k]
        c += [arr.n == n, arr.a[n - 1] == cnt(s.status.val, r)]
    # stops exactly when all rates are zero or tmax is reached
    c.append(Or(Not(LD.total(s.nodes_by_rate) > 0), Not(so.xr_lt(s.t, old.tmax))))
    return And(*c)


def install(lib):
    from .gillespie_full import sim_investigation_ctor
    lib.extra_mod['EoN.Simulation_Investigation'] = sim_investigation_ctor


def contracts():
    cs = list(LD.contracts('U'))
    for c in cs:
        c.verify = False

    def two_statuses(run, name, **kw):
        a, b = fresh('ret_status_a', so.St()), fresh('ret_status_b', so.St())
        run.assume(a != b)
        return (a, b)

    def total_ic(run, name, **kw):
        return SDict(so.U(), so.St(), dom=z3.K(so.U(), BoolVal(True)), name=name)

    cs.append(Contract(F, 'Gillespie_complex_contagion',
        cases=[Case('two-reported-statuses', dict(G=T.graph(), rate_function=mk_rate, transition_choice=mk_choice,
                                                  get_influence_set=mk_infl, IC=total_ic, return_statuses=two_statuses,
                                                  tmin=T.real, tmax=T.xreal, parameters=T.const(PARAMS),
                                                  return_full_data=T.false, sim_kwargs=T.none)),
               Case('full-data', dict(G=T.graph(), rate_function=mk_rate, transition_choice=mk_choice,
                                      get_influence_set=mk_infl, IC=total_ic, return_statuses=two_statuses,
                                      tmin=T.real, tmax=T.xreal, parameters=T.const(PARAMS),
                                      return_full_data=T.true, sim_kwargs=T.none))],
        requires=lambda s: And(so.xr_lt(s.tmin, s.tmax), s.G.N >= 1), axioms=axioms_for,
        locals_={'status': T.dict_of('U', 'St'), 'data': T.dict_of_lists('St', 'I', default_empty=False),
                 'nodes_by_rate': LD.mk_ld('U', True), 'times': T.list_of('R'), 'returnval': None},
        local_sorts={'t': 'XR', 'delay': 'XR'},
        loops={1: inv_init_rates, 2: LoopSpec(inv_main, lemmas=lambda s, it: [LD.sign_lemmas(s.nodes_by_rate)]),
               3: inv_copy_rows, 4: inv_rerate},
        sites={('random.expovariate', 0): site_clock, ('random.expovariate', 1): site_clock},
        sites_strict=('random.expovariate', 'random.random', 'random.choice', 'random.sample'),
        ensures=post))
    return cs
