"""Sidecar contracts for the degree-distribution helpers of EoN/analytic.py (property C20): get_Pk, estimate_R0.
The generating-function helpers are decided by vlib/effects/pgf.py (term-wise AST obligations)."""
import z3
from z3 import And, Or, Not, Implies, If, IntVal, RealVal, BoolVal
from ..pyvc import sorts as so
from ..pyvc.sorts import fresh, I, R, B
from ..pyvc.values import SList, SDict, NONE, Callback
from ..pyvc.verify import Contract, Case, LoopSpec
from . import types as T

F = 'EoN/analytic.py'


def degarr(G):
    u = z3.Const('deg_u', so.U())
    return z3.Lambda([u], G.degf(u))


def moments():
    """ghost moments of a degree distribution given as a dict k -> P(k):  M1 = sum k P(k),  M2 = sum k(k-1) P(k)"""
    A = z3.ArraySort(I, R)
    D = z3.ArraySort(I, B)
    return (z3.Function('moment1_%d' % so.Mode.gen, D, A, R), z3.Function('moment2_%d' % so.Mode.gen, D, A, R))


def contracts():
    cs = []

    def pk_post(old, s, ret):
        G = old.G
        if not isinstance(ret, SDict):
            return BoolVal(False)
        N = z3.ToReal(G.N)
        k = fresh('k', I)
        body = And(ret.dom[k] == so.exists(so.U(), lambda u: G.degf(u) == k),
                   Implies(ret.dom[k], ret.val[k] * N == z3.ToReal(so.cnt(degarr(G), k))))
        if so.Mode.finite:
            return And(*[z3.substitute(body, (k, IntVal(i))) for i in range(so.Mode.lmax + 1)])
        return z3.ForAll([k], body)

    def pk_ret(run, s):
        d = SDict(I, R, name='Pk')
        return d

    def pk_loop_inv(s, it):
        """only used when the dict is filled by an explicit loop over Nk.keys() instead of the comprehension"""
        Nk, Pk = s.Nk, s.Pk
        N = z3.ToReal(s.G.N)
        k = fresh('k', I)
        body = And(Pk.dom[k] == And(Nk.dom[k], it.done(k)), Implies(Pk.dom[k], Pk.val[k] * N == z3.ToReal(Nk.val[k])))
        if so.Mode.finite:
            return And(*[z3.substitute(body, (k, IntVal(i))) for i in range(so.Mode.lmax + 1)])
        return z3.ForAll([k], body)

    cs.append(Contract(F, 'get_Pk',
        cases=[Case('graph', dict(G=T.graph()))],
        requires=lambda s: s.G.N >= 1,
        locals_={'Pk': T.dict_of('I', 'R')}, loops={0: pk_loop_inv},
        make_ret=pk_ret,
        ensures=pk_post))

    def psi_cb(which):
        def mk(run, s, Pk):
            M1, M2 = moments()
            def fn(run2, args, kw, lineno):
                x = z3.simplify(args[0])
                if not (z3.is_rational_value(x) and x.numerator_as_long() == x.denominator_as_long()):
                    from ..pyvc.values import Unsupported
                    raise Unsupported('generating function evaluated away from 1')
                return (M1 if which == 1 else M2)(Pk.dom, Pk.val)
            return Callback('psi%d' % which, fn)
        return mk

    for name, which in (('get_PGFPrime', 1), ('get_PGFDPrime', 2)):
        cs.append(Contract(F, name, verify=False,
            note='its body is decided by the term-wise obligations of vlib/effects/pgf.py; here only "the returned function evaluated at 1 is the moment"',
            cases=[], make_ret=(lambda w: (lambda run, s: psi_cb(w)(run, s, s.Pk)))(which)))

    def r0_requires(s):
        c = [s.G.N >= 1, so.exists(so.U(), lambda u: s.G.degf(u) > 0)]
        if s.transmissibility is NONE and s.tau is not NONE and s.gamma is not NONE:
            c += [s.tau >= 0, s.gamma >= 0, s.tau + s.gamma > 0]
        return And(*c)

    def r0_post(old, s, ret):
        M1, M2 = moments()
        Pk = s.run.ghost.get('Pk_seen')
        if Pk is None:
            return BoolVal(False)
        Tm = old.transmissibility if old.transmissibility is not NONE else old.tau / (old.tau + old.gamma)
        m1, m2 = M1(Pk.dom, Pk.val), M2(Pk.dom, Pk.val)
        return And(ret * m1 == Tm * m2, pk_post(old, s, Pk))

    def r0_normalize_pk(run, bound):
        pass

    # get_Pk called from estimate_R0: remember the returned object so that the postcondition can name it
    def pk_ret_seen(run, s):
        d = pk_ret(run, s)
        run.ghost['Pk_seen'] = d
        # M: the mean degree sum_k k P(k) is positive iff the graph has an edge (finite-sum fact, cited)
        M1, M2 = moments()
        G = s.G
        run.assume(Implies(so.exists(so.U(), lambda u: G.degf(u) > 0), M1(d.dom, d.val) > 0))
        return d
    cs[0].make_ret = pk_ret_seen

    def r0_axioms(s):
        # <k> > 0 : the graph has at least one edge (otherwise psi'(1) = 0 and numpy returns nan/inf)
        return []

    cs.append(Contract(F, 'estimate_R0',
        cases=[Case('tau-gamma', dict(G=T.graph(), tau=T.real, gamma=T.real, transmissibility=T.none)),
               Case('transmissibility', dict(G=T.graph(), tau=T.none, gamma=T.none, transmissibility=T.real)),
               Case('nothing', dict(G=T.graph(), tau=T.none, gamma=T.none, transmissibility=T.none)),
               Case('only-tau', dict(G=T.graph(), tau=T.real, gamma=T.none, transmissibility=T.none))],
        requires=r0_requires,
        must_raise=lambda old: BoolVal(old.transmissibility is NONE and (old.tau is NONE or old.gamma is NONE)),
        ensures=r0_post))
    return cs
