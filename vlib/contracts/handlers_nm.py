"""Sidecar contract for _process_trans_SIS_nonMarkov_ (EoN/simulation.py), the event handler of fast_nonMarkov_SIS.  Property C13.

An event "attempt source -> target at time h, later attempts L" is the queue record Ev(h, counter, kind 5, source, target) plus the
ghost payload  fut[counter] = L  (the list handed on as future_transmissions).  `carries(e, base, n, cond)` says that the event
carries exactly the attempt times { base(k) | k < n, cond(base(k)) }: the head is the earliest, the list holds the others in order.

Postcondition (for every graph, every answer of the user's rule, every queue content):
  target susceptible   status/rows/transmissions/infection_times updated, rec_time[target] = time + the user's duration, the
                       recovery queued at that time iff < tmax, and for every neighbour v exactly one event target -> v carrying
                       { time + d | d in the user's list for v, and  time + d > rec_time[v] if v is infected } (none if that set
                       has no member < tmax)
  in either case       the chain source -> target continues with one event carrying { x in future_transmissions | x > rec_time[target] }
  nothing else         older events and their payloads are untouched, no other status / row / recovery time changes."""
import z3
from z3 import And, Or, Not, Implies, If, IntVal, RealVal, BoolVal
from ..pyvc import sorts as so
from ..pyvc.sorts import fresh, I, R, B, cnt
from ..pyvc.values import SList, SDict, SObj, NONE, PyConst, FuncRef, Callback, TupleSpec, Unsupported, coerce, SDictOfLists
from ..pyvc.verify import Contract, Case, LoopSpec
from . import types as T
from . import handlers as H
from . import handlers_sis as HS

F = 'EoN/simulation.py'
SC = H.SC
K5 = H.KINDS['_process_trans_SIS_nonMarkov_']
K_R = H.KINDS['_process_rec_SIS_']
UA = (PyConst('ua0'), PyConst('ua1'))


def mk_queue_f(run, name, **kw):
    q = H.mk_queue(run, name, **kw)
    q.f['fut_n'] = fresh(name + '_futn', z3.ArraySort(I, I))
    q.f['fut_a'] = fresh(name + '_futa', z3.ArraySort(I, z3.ArraySort(I, R)))
    return q


def mk_user(run, name, **kw):
    """the user's joint rule: any dict {neighbour: list of delays >= 0} and any duration >= 0, possibly different at every call"""
    def fn(run2, args, kw2, lineno):
        env = run2.env_view()
        ok = (len(args) == 2 + len(UA) and not kw2 and all(a is b for a, b in zip(args[2:], UA))
              and z3.is_expr(args[0]) and isinstance(args[1], SList))
        if ok:
            want = env['G'].nbrs(env['target'])
            ok = args[1].n.eq(want.n) and args[1].a.eq(want.a)
        run2.oblige('site', 'callback-args:trans_and_rec_time_fxn', lineno, (args[0] == env['target']) if ok else BoolVal(False))
        d = SDictOfLists(so.U(), R, default_empty=False, name='user_delays')
        rd = fresh('user_duration', R)
        run2.assume(d.wellformed())
        run2.assume(rd >= 0)
        run2.assume(so.forall(so.U(), lambda v: so.forall_idx(d.lens[v], lambda k: d.vals[v][k] >= 0)))
        run2.ghost.setdefault('user_answers', []).append((d.snap(), rd))
        return (d, rd)
    cb = Callback('trans_and_rec_time_fxn', fn)
    cb.modifies_args = []
    return cb


def _carry_parts(h, fn, fa, ln, la, t0, uc, thr):
    """the event (head time h, later times fa[0..fn), in order) carries only listed attempt times t0 + la[k], k < ln, and all the admissible
    ones, admissible(x) = (uc -> x > thr).  (Attempts that are not admissible are doomed - the target is infected until thr - so an
    implementation may prune them, as the current one does, or keep them.)"""
    base = lambda k: t0 + la[k]
    cond = lambda x: Implies(uc, x > thr)
    inl = lambda x: so.exists_idx(ln, lambda k: x == base(k))
    return [('head', And(fn >= 0, inl(h))),
            ('members', so.forall_idx(fn, lambda i: And(h <= fa[i], inl(fa[i])))),
            ('ordered', so.forall_idx(fn, lambda i: so.forall_idx(fn, lambda i2: Implies(i < i2, fa[i] <= fa[i2])))),
            ('complete', so.forall_idx(ln, lambda k: Implies(cond(base(k)), Or(base(k) == h, so.exists_idx(fn, lambda i: fa[i] == base(k))))))]


CARRY = so.Abbrev('carries', [R, I, lambda: z3.ArraySort(I, R), I, lambda: z3.ArraySort(I, R), R, B, R],
                  lambda *a: And(*[f for _, f in _carry_parts(*a)]))


WFP = so.Abbrev('payload_in_order', [R, I, lambda: z3.ArraySort(I, R)],
                lambda h, fn, fa: And(fn >= 0, so.forall_idx(fn, lambda i: h <= fa[i]),
                                      so.forall_idx(fn, lambda i: so.forall_idx(fn, lambda i2: Implies(i < i2, fa[i] <= fa[i2])))))


def wf_args(Q, D, e):
    c = D.counter(e)
    return (D.time(e), Q.fut_n[c], Q.fut_a[c])


def carry_args(Q, D, e, ln, la, t0, uc, thr):
    c = D.counter(e)
    return (D.time(e), Q.fut_n[c], Q.fut_a[c], ln, la, t0, uc, thr)


def sorted_from(lst, lo):
    return And(so.forall_idx(lst.n, lambda k: lst.a[k] >= lo),
               so.forall_idx(lst.n, lambda k: so.forall_idx(lst.n, lambda k2: Implies(k < k2, lst.a[k] <= lst.a[k2]))))


def has_source(s):
    return s.source is not NONE


def own_spec(s, Q, D, e, delays, time, tgt):
    """e is the event target -> v for the neighbour v = D.tgt(e)"""
    v = D.tgt(e)
    return And(D.kind(e) == K5, D.has_src(e), D.src(e) == tgt, s.G.adj(tgt, v), so.xr_lt(so.xr_fin(D.time(e)), Q.tmax), delays.dom[v], D.time(e) >= time,
               CARRY(*own_args(s, Q, D, e, delays, time)), WFP(*wf_args(Q, D, e)))


def own_args(s, Q, D, e, delays, time):
    v = D.tgt(e)
    return carry_args(Q, D, e, delays.lens[v], delays.vals[v], time, s.status.val[v] == SC('I'), s.rec_time.val[v])


def own_enabled(s, Q, delays, time, v):
    cond = lambda x: Implies(s.status.val[v] == SC('I'), x > s.rec_time.val[v])
    return And(delays.dom[v], so.exists_idx(delays.lens[v], lambda k: And(cond(time + delays.vals[v][k]),
                                                                          so.xr_lt(so.xr_fin(time + delays.vals[v][k]), Q.tmax))))


def fut_frame(Q1, Q0):
    """payloads of the events that existed before are untouched"""
    c = fresh('c', I)
    return z3.ForAll([c], Implies(c < Q0.counter, And(Q1.fut_n[c] == Q0.fut_n[c], Q1.fut_a[c] == Q0.fut_a[c])),
                     patterns=[z3.MultiPattern(Q1.fut_n[c]), z3.MultiPattern(Q1.fut_a[c])] if False else [])


def contracts():
    cs = [c for c in H.contracts() if c.qualname.startswith('myQueue.')]
    cs += [c for c in HS.contracts() if c.qualname == '_process_rec_SIS_']
    for c in cs:
        c.verify = False
    lI, lR = T.list_of('I'), T.list_of('R')
    status_t = T.dict_of('U', 'Status', default=lambda: SC('S'))
    TRl = T.list_of(H.TR)

    def rows2(s):
        n = s.times.n
        return And(n >= 1, s.S.n == n, s.I.n == n, s.S.last() == cnt(s.status.val, SC('S')), s.I.last() == cnt(s.status.val, SC('I')))

    def cases():
        base = dict(time=T.real, G=T.graph(), source=T.node, target=T.node, future_transmissions=lR, times=lR, S=lI, I=lI, Q=mk_queue_f,
                    status=status_t, rec_time=T.dict_of('U', 'R', default=lambda: fresh('tmin_minus_1', R)),
                    infection_times=T.dict_of_lists('U', 'R'), recovery_times=T.dict_of_lists('U', 'R'), transmissions=TRl,
                    trans_and_rec_time_fxn=mk_user, trans_and_rec_time_args=T.const(UA))
        return [Case('from-neighbour', base), Case('initial-infection', dict(base, source=T.none, future_transmissions=lambda run, name, **kw: lR(run, name, empty=True)))]

    def requires(s):
        return And(rows2(s), s.time >= s.times.last(), so.xr_lt(so.to_xr(s.time), s.Q.tmax), s.Q._Q_.n >= 0,
                   s.future_transmissions.n >= 0, sorted_from(s.future_transmissions, s.time))

    def counters_ok(D, q1, lo, c0, c1):
        return And(c1 >= c0, c1 - c0 == q1.n - lo, so.forall_idx(q1.n, lambda j: D.counter(q1.a[j]) == c0 + (j - lo), lo=lo))

    def chain_enabled(old, s):
        if not has_source(old):
            return BoolVal(False)
        ft = old.future_transmissions
        rn = s.rec_time.val[old.target]
        return so.exists_idx(ft.n, lambda k: And(ft.a[k] > rn, so.xr_lt(so.xr_fin(ft.a[k]), old.Q.tmax)))

    def chain_spec(old, s, e):
        D = old.Q._Q_.esort.D
        ft = old.future_transmissions
        rn = s.rec_time.val[old.target]
        return And(D.kind(e) == K5, D.has_src(e), D.src(e) == old.source, D.tgt(e) == old.target, so.xr_lt(so.xr_fin(D.time(e)), old.Q.tmax),
                   D.time(e) >= old.time,
                   CARRY(*carry_args(s.Q, D, e, ft.n, ft.a, RealVal(0), BoolVal(True), rn)), WFP(*wf_args(s.Q, D, e)))

    def post(old, s, ret):
        # nc = 1 iff the last new event continues the chain source -> target (it must when an admissible later attempt exists)
        if s.has('caller_view'):
            nc = fresh('nc', I)
        else:
            qb = s.run.ghost.get('qn_before_chain')          # queue length just before the chain's Q.add on this path (None: not reached)
            nc = (s.Q._Q_.n - qb) if qb is not None else IntVal(0)
        return And(0 <= nc, nc <= 1, post_nc(old, s, ret, nc))

    def post_nc(old, s, ret, nc):
        D = old.Q._Q_.esort.D
        q0, q1 = old.Q._Q_, s.Q._Q_
        tgt, time = old.target, old.time
        was_S = old.status.val[tgt] == SC('S')
        tmax = old.Q.tmax
        it0, it1 = old.infection_times, s.infection_times
        rec_new = s.rec_time.val[tgt]
        ans = s.run.ghost.get('user_answers', [])
        chainE = chain_enabled(old, s)
        m = q1.n - nc
        common = And(s.Q.tmax == tmax, H.extends(q1, q0), counters_ok(D, q1, q0.n, old.Q.counter, s.Q.counter), fut_frame(s.Q, old.Q),
                     m >= q0.n, Implies(chainE, nc == 1),
                     Implies(nc == 1, chain_spec(old, s, q1.a[q1.n - 1])) if has_source(old) else nc == 0,
                     so.forall(so.U(), lambda x: And(s.recovery_times.lens[x] == old.recovery_times.lens[x],
                                                     s.recovery_times.vals[x] == old.recovery_times.vals[x])))
        frame_lists = And(H.same_list(s.times, old.times), H.same_list(s.S, old.S), H.same_list(s.I, old.I),
                          H.same_list(s.transmissions, old.transmissions), s.status.val == old.status.val, s.rec_time.val == old.rec_time.val,
                          so.forall(so.U(), lambda x: And(it1.lens[x] == it0.lens[x], it1.vals[x] == it0.vals[x])))
        not_infected = And(frame_lists, m == q0.n, BoolVal(len(ans) == 0))
        if s.has('caller_view'):
            # a caller does not see the user's answer: it is some duration >= 0 and some dict of delay lists
            delays = SDictOfLists(so.U(), R, default_empty=False, name='some_delays')
            rd = fresh('some_duration', R)
            ans = [(delays, rd)]
            extra = And(delays.wellformed(), rd >= 0, so.forall(so.U(), lambda v: so.forall_idx(delays.lens[v], lambda k: delays.vals[v][k] >= 0)))
        else:
            extra = BoolVal(True)
        if len(ans) != 1:
            infected = BoolVal(False)         # the user's rule is asked exactly once per infection
        else:
            delays, rd = ans[0]
            is_rec = lambda e: And(D.kind(e) == K_R, Not(D.has_src(e)), D.tgt(e) == tgt, D.time(e) == rec_new)
            infected = And(
                extra,
                s.status.val == z3.Store(old.status.val, tgt, SC('I')),
                H.appended(s.times, old.times, time), H.appended(s.S, old.S, old.S.last() - 1), H.appended(s.I, old.I, old.I.last() + 1), rows2(s),
                H.appended(s.transmissions, old.transmissions, old.transmissions.esort.pack((time, old.source, tgt))),
                s.rec_time.val == z3.Store(old.rec_time.val, tgt, time + rd),
                it1.lens[tgt] == it0.lens[tgt] + 1, it1.vals[tgt][it0.lens[tgt]] == time,
                so.forall_idx(it0.lens[tgt], lambda j: it1.vals[tgt][j] == it0.vals[tgt][j]),
                so.forall(so.U(), lambda x: Implies(x != tgt, And(it1.lens[x] == it0.lens[x], it1.vals[x] == it0.vals[x]))),
                # the recovery is queued first, iff it happens before tmax
                If(so.xr_lt(so.xr_fin(rec_new), tmax), And(m > q0.n, is_rec(q1.a[q0.n])), BoolVal(True)),
                so.forall_idx(m, lambda j: If(And(j == q0.n, so.xr_lt(so.xr_fin(rec_new), tmax)), is_rec(q1.a[j]),
                                              own_spec(s, s.Q, D, q1.a[j], delays, time, tgt)), lo=q0.n),
                # every neighbour with an admissible attempt before tmax gets its event, and only one
                so.forall(so.U(), lambda v: Implies(And(s.G.adj(tgt, v), own_enabled(s, s.Q, delays, time, v)),
                                                    so.exists_idx(m, lambda j: And(D.kind(q1.a[j]) == K5, D.tgt(q1.a[j]) == v), lo=q0.n))),
                so.forall_idx(m, lambda j: so.forall_idx(m, lambda j2: Implies(
                    And(D.kind(q1.a[j]) == K5, D.kind(q1.a[j2]) == K5, D.tgt(q1.a[j]) == D.tgt(q1.a[j2])), j == j2), lo=q0.n), lo=q0.n))
        return And(common, If(was_S, infected, not_infected))

    def loop_inv(s, it):
        """for v in G.neighbors(target): one event target -> v per neighbour with an admissible attempt"""
        D = s.Q._Q_.esort.D
        e0 = it.entry
        q0, q1 = e0.Q._Q_, s.Q._Q_
        tgt, time = s.target, s.time
        ans = s.run.ghost.get('user_answers', [])
        if len(ans) != 1:
            return BoolVal(False)
        delays, rd = ans[0]
        return And(s.Q.tmax == e0.Q.tmax, H.extends(q1, q0), counters_ok(D, q1, q0.n, e0.Q.counter, s.Q.counter), fut_frame(s.Q, e0.Q),
                   s.rec_time.val == e0.rec_time.val, s.status.val == e0.status.val,
                   so.forall_idx(q1.n, lambda j: And(own_spec(s, s.Q, D, q1.a[j], delays, time, tgt), it.done(D.tgt(q1.a[j]))), lo=q0.n),
                   so.forall(so.U(), lambda v: Implies(And(it.done(v), own_enabled(s, s.Q, delays, time, v)),
                                                       so.exists_idx(q1.n, lambda j: And(D.kind(q1.a[j]) == K5, D.tgt(q1.a[j]) == v), lo=q0.n))),
                   so.forall_idx(q1.n, lambda j: so.forall_idx(q1.n, lambda j2: Implies(D.tgt(q1.a[j]) == D.tgt(q1.a[j2]), j == j2), lo=q0.n), lo=q0.n))

    def steps_for(TT, e, args, base, ln, cond, added, now):
        """proof steps for "the event just queued (head TT[0], payload TT[1:]) carries the admissible attempt times": position maps
        through sorted() / the filter are named explicitly (w: position in TT -> position in the user's list, u: the way back)"""
        if getattr(TT, 'src', None) is not None:            # TT = [x for x in SRT if ...]
            SRT = TT.base
            if getattr(SRT, 'perm', None) is not None:
                w, u = (lambda i: SRT.perm(TT.src(i))), (lambda k: TT.dst(SRT.inv(k)))
            else:
                w, u = (lambda i: TT.src(i)), (lambda k: TT.dst(k))
        elif getattr(TT, 'perm', None) is not None:
            w, u = (lambda i: TT.perm(i)), (lambda k: TT.inv(k))
        else:
            w, u = (lambda i: i), (lambda k: k)                # the list itself (no pruning, already in order)
        steps = [('to-user-list', so.forall_idx(TT.n, lambda i: And(0 <= w(i), w(i) < ln, TT.a[i] == base(w(i))))),
                 ('from-user-list', so.forall_idx(ln, lambda k: Implies(cond(base(k)), And(0 <= u(k), u(k) < TT.n, TT.a[u(k)] == base(k))))),
                 ('in-order', so.forall_idx(TT.n, lambda i: so.forall_idx(TT.n, lambda i2: Implies(i < i2, TT.a[i] <= TT.a[i2])))),
                 ('unfold', (CARRY, args))]
        h, fn, fa = args[0], args[1], args[2]
        steps.append(('payload-is-tail', Implies(added, And(h == TT.a[0], fn == TT.n - 1, so.forall_idx(fn, lambda i: fa[i] == TT.a[i + 1])))))
        steps.append(('complete-witnessed', Implies(added, so.forall_idx(ln, lambda k: Implies(cond(base(k)), Or(
            And(u(k) == 0, base(k) == h), And(0 <= u(k) - 1, u(k) - 1 < fn, fa[u(k) - 1] == base(k))))))))
        steps += [(nm, Implies(added, f)) for nm, f in _carry_parts(*args)]       # Q.add drops events at or after tmax
        steps.append(('keep:carries', Implies(added, CARRY(*args))))
        steps.append(('keep:not-before-now', Implies(added, h >= now)))
        steps.append(('unfold', (WFP, args[:3])))
        steps.append(('keep:payload-in-order', Implies(added, WFP(*args[:3]))))
        return steps

    def after_add_own(s, b):
        D = s.Q._Q_.esort.D
        q = s.Q._Q_
        e = q.a[q.n - 1]
        ans = s.run.ghost.get('user_answers', [])
        if len(ans) != 1:
            return [('user-rule-asked-once', BoolVal(False))]
        delays, rd = ans[0]
        v = s.v
        cond = lambda x: Implies(s.status.val[v] == SC('I'), x > s.rec_time.val[v])
        added = so.xr_lt(so.xr_fin(s.trans_times.a[0]), s.Q.tmax)
        return [('keep:event-is-last', Implies(added, And(D.tgt(e) == v, D.kind(e) == K5)))] + \
            steps_for(s.trans_times, e, own_args(s, s.Q, D, e, delays, s.time), lambda k: s.time + delays.vals[v][k], delays.lens[v], cond, added, s.time)

    def before_add_chain(s, b):
        s.run.ghost['qn_before_chain'] = s.Q._Q_.n
        return BoolVal(True)

    def after_add_chain(s, b):
        D = s.Q._Q_.esort.D
        q = s.Q._Q_
        e = q.a[q.n - 1]
        ft = s.future_transmissions
        rn = s.rec_time.val[s.target]
        added = so.xr_lt(so.xr_fin(s.trans_times.a[0]), s.Q.tmax)
        return steps_for(s.trans_times, e, carry_args(s.Q, D, e, ft.n, ft.a, RealVal(0), BoolVal(True), rn), lambda k: ft.a[k], ft.n, lambda x: x > rn, added, s.time)

    cs.append(Contract(F, '_process_trans_SIS_nonMarkov_',
        cases=cases(), axioms=lambda s: so.cnt_axioms(so.U(), so.Status()), requires=requires,
        modifies=['times', 'S', 'I', 'Q', 'status', 'rec_time', 'infection_times', 'transmissions'],
        locals_={'trans_times': lR, 'following_transmissions': lR, 'trans_delays': T.dict_of_lists('U', 'R', default_empty=False)},
        local_sorts={'rec_delay': 'R'},
        loops={0: loop_inv},
        sites={('call:myQueue.add', 2): before_add_chain, ('after:myQueue.add', 1): after_add_own, ('after:myQueue.add', 2): after_add_chain},
        sites_strict=('random.expovariate', 'random.random', 'random.choice', 'random.sample'),
        ensures=post))
    return cs


def install(lib):
    H.install(lib)
