"""fast_nonMarkov_SIS (EoN/simulation.py): main body and the event-loop rule for the non-Markovian SIS handlers.  Property C13.

QUEUE RULE as in fast_sir.py / fast_sis.py: the lemma unit `event_step_nmSIS` shows that popping a minimal event and running the
handler it names (through the handler's CONTRACT, for an arbitrary user rule) re-establishes the global invariant GI_NM; the real
loop must be exactly `Q.pop_and_run()`.

GI_NM (what holds between any two events of any run, any graph, any user rule with delays >= 0 and durations >= 0):
  rows        S, I as long as times, last row = head counts, nobody is ever 'R', S+I = N, unit steps, times non-decreasing from
              tmin and < tmax   (=> nothing at or after tmax is reported)
  pending     every pending event lies in [last reported time, tmax), has a unique counter below the queue's counter and is a
              recovery or a transmission attempt
  recoveries  a pending recovery belongs to an infected node, at exactly rec_time[node], one per node; an infected node's
              rec_time is not in the past
  attempts    a pending attempt u -> v goes along an edge; its payload (the later attempt times of the same pair) is in order and
              not before the attempt itself
  initial     the k synthetic initial infections are processed first, in order, at tmin, each infecting a fresh node
"""
import z3
from z3 import And, Or, Not, Implies, If, IntVal, RealVal, BoolVal
from ..pyvc import sorts as so
from ..pyvc.sorts import fresh, I, R, B, cnt
from ..pyvc.values import SList, SDict, SObj, NONE, PyConst, FuncRef, Callback, TupleSpec, Unsupported, coerce, SHeap
from ..pyvc.verify import Contract, Case, LoopSpec
from . import types as T
from . import handlers as H
from . import handlers_sis as HS
from . import handlers_nm as HN
from . import fast_sis as FS
from . import nonmarkov_sis as NM

F = 'EoN/simulation.py'
SC = H.SC
K5, K_R = HN.K5, HN.K_R
axioms_for = FS.axioms_for
Ctx = FS.Ctx


def GI(s, cx):
    G, tmin, tmax, k, II = cx.G, cx.tmin, cx.tmax, cx.k, cx.II
    times, S, I_ = s.times, s.S, s.I
    Q = s.Q
    q = Q._Q_
    D = q.esort.D
    stv = s.status.val
    rt = s.rec_time.val
    n = times.n
    m = n - 1
    mk = If(m < k, m, k)
    N = G.N
    alive = lambda j: Not(q.dead[j])
    c = []
    # rows
    c += [n >= 1, S.n == n, I_.n == n, S.last() == cnt(stv, SC('S')), I_.last() == cnt(stv, SC('I')),
          so.forall(so.U(), lambda x: stv[x] != SC('R'))]
    c.append(times.a[0] == tmin)
    c.append(so.forall_idx(n - 1, lambda j: times.a[j] <= times.a[j + 1]))
    c.append(so.forall_idx(n, lambda j: so.xr_lt(so.xr_fin(times.a[j]), tmax), lo=1))
    c.append(so.forall_idx(n, lambda j: And(S.a[j] + I_.a[j] == N, S.a[j] >= 0, I_.a[j] >= 0)))
    c.append(so.forall_idx(n, lambda j: Or(And(S.a[j] == S.a[j - 1] - 1, I_.a[j] == I_.a[j - 1] + 1),
                                           And(S.a[j] == S.a[j - 1] + 1, I_.a[j] == I_.a[j - 1] - 1)), lo=1))
    # pending
    c.append(Q.tmax == tmax)
    c.append(q.wellformed())
    c.append(so.forall_idx(q.n, lambda j: Implies(alive(j), And(
        times.last() <= D.time(q.a[j]), so.xr_lt(so.xr_fin(D.time(q.a[j])), tmax), D.counter(q.a[j]) < Q.counter, D.counter(q.a[j]) >= 0,
        Or(D.kind(q.a[j]) == K5, D.kind(q.a[j]) == K_R)))))
    c.append(so.forall_idx(q.n, lambda j: so.forall_idx(q.n, lambda j2: Implies(
        And(alive(j), alive(j2), j != j2), D.counter(q.a[j]) != D.counter(q.a[j2])))))
    # recoveries
    c.append(so.forall_idx(q.n, lambda j: Implies(And(alive(j), D.kind(q.a[j]) == K_R), And(
        stv[D.tgt(q.a[j])] == SC('I'), D.time(q.a[j]) == rt[D.tgt(q.a[j])], D.counter(q.a[j]) >= k))))
    c.append(so.forall_idx(q.n, lambda j: so.forall_idx(q.n, lambda j2: Implies(
        And(alive(j), alive(j2), D.kind(q.a[j]) == K_R, D.kind(q.a[j2]) == K_R, D.tgt(q.a[j]) == D.tgt(q.a[j2])), j == j2))))
    c.append(so.forall(so.U(), lambda x: Implies(stv[x] == SC('I'), And(rt[x] >= times.last(), Or(
        Not(so.xr_lt(so.xr_fin(rt[x]), tmax)),
        so.exists_idx(q.n, lambda j: And(alive(j), D.kind(q.a[j]) == K_R, D.tgt(q.a[j]) == x)))))))
    # attempts
    c.append(so.forall_idx(q.n, lambda j: Implies(And(alive(j), D.kind(q.a[j]) == K5, D.has_src(q.a[j])), And(
        G.adj(D.src(q.a[j]), D.tgt(q.a[j])), D.counter(q.a[j]) >= k, HN.WFP(*HN.wf_args(Q, D, q.a[j]))))))
    # initial phase
    c.append(so.forall_idx(q.n, lambda j: Implies(alive(j), And(
        (D.counter(q.a[j]) < k) == And(D.kind(q.a[j]) == K5, Not(D.has_src(q.a[j]))),
        Implies(D.counter(q.a[j]) < k, And(D.counter(q.a[j]) >= m, D.tgt(q.a[j]) == II.a[D.counter(q.a[j])],
                                           D.time(q.a[j]) == tmin, Q.fut_n[D.counter(q.a[j])] == 0))))))
    c.append(so.forall_idx(k, lambda i: And(so.exists_idx(q.n, lambda j: And(alive(j), D.counter(q.a[j]) == i)),
                                            stv[II.a[i]] == SC('S')), lo=mk))
    c.append(so.forall_idx(mk + 1, lambda j: And(times.a[j] == tmin, I_.a[j] == j, S.a[j] == N - j)))
    c.append(Q.counter >= k)
    return And(*c)


STATE = ('times', 'S', 'I', 'Q', 'status', 'rec_time', 'infection_times', 'recovery_times', 'transmissions')


def rec_time_t():
    return T.dict_of('U', 'R', default=lambda: fresh('tmin_minus_1', R))


def lemma_params():
    lI, lR = T.list_of('I'), T.list_of('R')
    return dict(G=T.graph(), tmin=T.real, tmax=T.xreal, II=T.distinct_list('U'),
                times=lR, S=lI, I=lI, Q=HN.mk_queue_f,
                status=T.dict_of('U', 'Status', default=lambda: SC('S')), rec_time=rec_time_t(),
                infection_times=T.dict_of_lists('U', 'R'), recovery_times=T.dict_of_lists('U', 'R'),
                transmissions=T.list_of(H.TR),
                trans_and_rec_time_fxn=HN.mk_user, trans_and_rec_time_args=T.const(HN.UA))


def ctx_of(s):
    return Ctx(s.G, s.tmin, s.tmax, s.II)


def step_body(run, env):
    Q = env['Q']
    heap = Q.f['_Q_']
    t, counter, fn, args = H.heappop(run, [heap], {}, 0)
    ev, m = run.ghost['popped']
    D = heap.esort.D
    kind = D.kind(ev)
    rows_done = env['times'].n - 1
    k = env['II'].n
    cut = And(Implies(rows_done < k, And(D.counter(ev) == rows_done, D.time(ev) == env['tmin'], Not(D.has_src(ev)),
                                         kind == K5, D.tgt(ev) == env['II'].a[rows_done])),
              Implies(rows_done >= k, D.counter(ev) >= k))
    run.oblige('lemma', 'cut:popped-event-vs-initial-phase', 0, cut)
    if run.branch(kind == K_R):
        run.call_contract('_process_rec_SIS_', [t, D.tgt(ev), env['times'], env['recovery_times'], env['S'], env['I'], env['status']], {}, 0)
        return
    if run.branch(kind == K5):
        # the payload of the popped event is what the handler receives as future_transmissions
        c = D.counter(ev)
        fut = SList(R, n=Q.f['fut_n'][c], a=Q.f['fut_a'][c], name='payload')
        if run.branch(D.has_src(ev)):
            src = D.src(ev)
            run.assume(HN.WFP.instance(*HN.wf_args(Q, D, ev)))        # unfold the abbreviation at the popped event
        else:
            src = NONE
        run.call_contract('_process_trans_SIS_nonMarkov_',
                          [t, env['G'], src, D.tgt(ev), fut, env['times'], env['S'], env['I'], Q, env['status'], env['rec_time'],
                           env['infection_times'], env['recovery_times'], env['transmissions'], env['trans_and_rec_time_fxn'],
                           env['trans_and_rec_time_args']], {}, 0)
        return
    run.oblige('safety', 'event-kind-known', 0, BoolVal(False))


def lemma_requires(s):
    return And(GI(s, ctx_of(s)), s.Q._Q_.size() > 0, so.xr_lt(so.xr_fin(s.tmin), s.tmax), s.G.N >= 1)


def lemma_ensures(old, s, ret):
    return GI(s, ctx_of(s))


# ---------------------------------------------------------------------------------------------------
# fast_nonMarkov_SIS
# ---------------------------------------------------------------------------------------------------

def main_requires(s):
    c = [so.xr_lt(so.to_xr(s.tmin), so.to_xr(s.tmax)), s.G.N >= 1]
    if s.rho is not NONE:
        c += [s.rho >= 0, s.rho <= 1]
    return And(*c)


def main_ctx(s):
    return Ctx(s.G, s.old.tmin, so.to_xr(s.old.tmax), s.initial_infecteds)


def inv_initial_events(s, it):
    """for u in initial_infecteds: Q.add(tmin, _process_trans_SIS_nonMarkov_, args=(G, None, u, [], ...))"""
    cx = main_ctx(s)
    q = s.Q._Q_
    D = q.esort.D
    return And(s.Q.tmax == cx.tmax, q.n == it.i, q.ndead == 0, s.Q.counter == it.i,
               so.forall_idx(q.n, lambda j: And(Not(q.dead[j]), D.time(q.a[j]) == cx.tmin, D.counter(q.a[j]) == j,
                                                D.kind(q.a[j]) == K5, Not(D.has_src(q.a[j])), D.tgt(q.a[j]) == cx.II.a[j],
                                                s.Q.fut_n[j] == 0)))


def rule_binding_ok(s):
    """the rule handed to the handlers: the user's joint rule with its arguments, or the adapter with the two user rules and their
    arguments bound onto the adapter's CURRENT signature (after node, neighbors)"""
    fx, fa = s.trans_and_rec_time_fxn, s.trans_and_rec_time_args
    same = lambda a, b: a is b or (isinstance(a, tuple) and isinstance(b, tuple) and len(a) == len(b) and all(x is y for x, y in zip(a, b)))
    if s.old.trans_and_rec_time_fxn is not NONE:
        return BoolVal(fx is s.old.trans_and_rec_time_fxn and same(fa, s.old.trans_and_rec_time_args))
    if not (isinstance(fx, FuncRef) and fx.qualname == '_find_trans_and_rec_delays_SIS_' and isinstance(fa, tuple)):
        return BoolVal(False)
    node = s.run.registry.node(fx.qualname)
    params = [a.arg for a in node.args.posonlyargs + node.args.args][2:]
    if len(fa) > len(params):
        return BoolVal(False)
    bound = dict(zip(params, fa))
    want = dict(trans_time_fxn=s.old.trans_time_fxn, rec_time_fxn=s.old.rec_time_fxn, trans_time_args=s.old.trans_time_args,
                rec_time_args=s.old.rec_time_args)
    return BoolVal(all(k in bound and same(bound[k], v) for k, v in want.items()))


def inv_event_loop(s, it):
    return And(GI(s, main_ctx(s)), rule_binding_ok(s))


def main_raises(old):
    joint = old.trans_and_rec_time_fxn is not NONE
    tt, rr = old.trans_time_fxn is not NONE, old.rec_time_fxn is not NONE
    return BoolVal((old.rho is not NONE and old.initial_infecteds is not NONE) or (tt != rr) or (joint and tt) or (not joint and not tt))


def user_fn(label):
    def mk(run, name, **kw):
        def fn(run2, args, kw2, lineno):
            raise Unsupported('the user rule %s is not called by fast_nonMarkov_SIS itself' % label)
        cb = Callback(label, fn)
        cb.modifies_args = []
        return cb
    return mk


def main_cases():
    out = []
    joint = dict(trans_and_rec_time_fxn=HN.mk_user, trans_and_rec_time_args=T.const(HN.UA), trans_time_fxn=T.none, rec_time_fxn=T.none,
                 trans_time_args=T.const(()), rec_time_args=T.const(()))
    separate = dict(trans_and_rec_time_fxn=T.none, trans_and_rec_time_args=T.const(()), trans_time_fxn=user_fn('trans_time_fxn'),
                    rec_time_fxn=user_fn('rec_time_fxn'), trans_time_args=T.const(NM.UA), rec_time_args=T.const(NM.RA))
    for rname, rule in (('joint', joint), ('separate', separate)):
        for nm, ii, rho in (('list', T.distinct_list('U'), T.none), ('node', T.node, T.none), ('rho', T.none, T.real),
                            ('default', T.none, T.none), ('both-given', T.distinct_list('U'), T.real)):
            if rname == 'separate' and nm in ('default', 'both-given', 'rho'):
                continue
            out.append(Case('%s-%s' % (nm, rname), dict(rule, G=T.graph(), initial_infecteds=ii, rho=rho, tmin=T.real, tmax=T.xreal,
                                                          return_full_data=T.false, sim_kwargs=T.none)))
    # inconsistent rule arguments must be rejected
    out.append(Case('only-trans-rule', dict(separate, rec_time_fxn=T.none, G=T.graph(), initial_infecteds=T.distinct_list('U'), rho=T.none,
                                            tmin=T.real, tmax=T.xreal, return_full_data=T.false, sim_kwargs=T.none)))
    out.append(Case('joint-and-separate', dict(separate, trans_and_rec_time_fxn=HN.mk_user, G=T.graph(), initial_infecteds=T.distinct_list('U'),
                                               rho=T.none, tmin=T.real, tmax=T.xreal, return_full_data=T.false, sim_kwargs=T.none)))
    out.append(Case('no-rule', dict(joint, trans_and_rec_time_fxn=T.none, G=T.graph(), initial_infecteds=T.distinct_list('U'),
                                    rho=T.none, tmin=T.real, tmax=T.xreal, return_full_data=T.false, sim_kwargs=T.none)))
    return out


def contracts(verify_callees=False):
    cs = list(HN.contracts())
    for c in cs:
        c.verify = verify_callees and c.qualname == '_process_trans_SIS_nonMarkov_'
    for c in NM.contracts():
        c.verify = False
        cs.append(c)
    lI, lR = T.list_of('I'), T.list_of('R')
    cs.append(Contract(F, 'event_step_nmSIS', body=step_body,
        depends=('_process_trans_SIS_nonMarkov_', '_process_rec_SIS_', 'myQueue.pop_and_run', 'myQueue.add'),
        cases=[Case('any', lemma_params())], axioms=axioms_for,
        requires=lemma_requires, ensures=lemma_ensures,
        note='LEMMA over contracts: a step of the non-Markovian SIS event loop preserves the global invariant'))

    cs.append(Contract(F, 'fast_nonMarkov_SIS',
        cases=main_cases(), axioms=axioms_for, requires=main_requires, must_raise=main_raises,
        locals_={'status': T.dict_of('U', 'Status', default=lambda: SC('S')), 'rec_time': T.dict_of('U', 'R'),
                 'infection_times': T.dict_of_lists('U', 'R'), 'recovery_times': T.dict_of_lists('U', 'R'),
                 'Q': HN.mk_queue_f, 'transmissions': T.list_of(H.TR), 'times': lR, 'S': lI, 'I': lI},
        loops={0: inv_initial_events,
               1: LoopSpec(inv_event_loop, step_lemma='event_step_nmSIS', step_body_src='Q.pop_and_run()', havoc_names=STATE)},
        sites={('random.sample', 0): FS.site_sample},
        sites_strict=('random.sample', 'random.random', 'random.expovariate', 'random.choice'),
        make_ret=lambda run, s: tuple(FS._fresh_list(run, nm, srt) for nm, srt in (('t', R), ('S', I), ('I', I))),
        ensures=FS.main_post))
    return cs


def install(lib):
    H.install(lib)
