"""Sidecar contracts for the discrete-time simulators (EoN/simulation.py): _simple_test_transmission_, discrete_SIR,
basic_discrete_SIS, percolate_network.  Property C12 (also C04 / C05 rows for these simulators)."""
import z3
from z3 import And, Or, Not, Implies, If, IntVal, RealVal, BoolVal
from ..pyvc import sorts as so
from ..pyvc.sorts import fresh, I, R, B, cnt
from ..pyvc.values import SList, SDict, SSet, SObj, NONE, PyConst, FuncRef, Callback, Unsupported, coerce
from ..pyvc.verify import Contract, Case, LoopSpec
from . import types as T

F = 'EoN/simulation.py'
TRUE = lambda: BoolVal(True)
UARGS = (PyConst('rule-arg-0'),)


def TT():
    """outcome of the user's transmission test for the ordered pair (u, v) in the current step"""
    return z3.Function('test_transmission_%d' % so.Mode.gen, so.U(), so.U(), B)


def TRf():
    return z3.Function('test_recovery_%d' % so.Mode.gen, so.U(), B)


def mk_tt(run, name, **kw):
    def fn(run2, args, kw2, lineno):
        ok = len(args) == 2 + len(UARGS) and not kw2 and all(a is b for a, b in zip(args[2:], UARGS)) \
            and z3.is_expr(args[0]) and z3.is_expr(args[1])
        run2.oblige('site', 'callback-args:test_transmission', lineno,
                    And(args[0] == run2.local('u'), args[1] == run2.local('v')) if ok else BoolVal(False))
        calls = run2.ghost.setdefault('tt_calls', [])
        calls.append((args[0], args[1]) if ok else None)
        return TT()(args[0], args[1]) if ok else fresh('tt', B)
    return Callback('test_transmission', fn)


def mk_tr(run, name, **kw):
    def fn(run2, args, kw2, lineno):
        ok = len(args) == 1 and not kw2 and z3.is_expr(args[0])
        run2.oblige('site', 'callback-args:test_recovery', lineno, (args[0] == run2.local('u')) if ok else BoolVal(False))
        return TRf()(args[0]) if ok else fresh('tr', B)
    return Callback('test_recovery', fn)


def axioms_for(s):
    U = so.U()
    ax = so.cnt_axioms(U, B)
    if not so.Mode.finite:
        A = z3.ArraySort(U, B)
        a = z3.Const('ba', A)
        ax.append(z3.ForAll([a], cnt(a, BoolVal(True)) + cnt(a, BoolVal(False)) == s.G.N, patterns=[cnt(a, BoolVal(True))]))
        ax.append(cnt(z3.K(U, BoolVal(True)), BoolVal(True)) == s.G.N)
        ax.append(cnt(z3.K(U, BoolVal(False)), BoolVal(True)) == 0)
        ax.append(z3.ForAll([a], Implies(cnt(a, BoolVal(True)) == 0, so.forall(U, lambda u: Not(a[u]))), patterns=[cnt(a, BoolVal(True))]))
        ax.append(z3.ForAll([a], Implies(so.forall(U, lambda u: Not(a[u])), cnt(a, BoolVal(True)) == 0), patterns=[cnt(a, BoolVal(True))]))
    return ax


def card(st):
    return cnt(st.dom, BoolVal(True))


def nsus(s):
    return cnt(s.susceptible.val, BoolVal(True))


def requires(s):
    c = [s.G.N >= 1]
    ii, ir = s.initial_infecteds, s.initial_recovereds
    if s.rho is not NONE:
        c += [s.rho >= 0, s.rho <= 1]
    if isinstance(ii, SList) and isinstance(ir, SList):
        c.append(so.forall(so.U(), lambda x: Not(And(ii.memberf(x), ir.memberf(x)))))
    if (not isinstance(ii, SList)) and ii is not NONE and isinstance(ir, SList):
        c.append(Not(ir.memberf(ii)))
    return And(*c)


def init_count(old):
    ii = old.initial_infecteds
    if isinstance(ii, SList):
        return ii.n
    if ii is NONE and old.rho is not NONE:
        x = z3.ToReal(old.G.N) * old.rho
        fl = z3.ToInt(x)
        fr = x - z3.ToReal(fl)
        return If(fr < RealVal('1/2'), fl, If(fr > RealVal('1/2'), fl + 1, If(fl % 2 == 0, fl, fl + 1)))
    return IntVal(1)


def mem_inf(s):
    ii = s.initial_infecteds
    if getattr(ii, 'memberf', None) is not None:
        return ii.memberf
    return lambda x: so.exists_idx(ii.n, lambda j: ii.a[j] == x)


def mem_rec(s):
    ir = s.old.initial_recovereds
    return ir.memberf if isinstance(ir, SList) else (lambda x: BoolVal(False))


def r0_of(s):
    ir = s.old.initial_recovereds
    return ir.n if isinstance(ir, SList) else IntVal(0)


def inv_sus_inf(s, it):
    """for u in initial_infecteds: susceptible[u] = False"""
    sus = s.susceptible.val
    return And(so.forall(so.U(), lambda x: sus[x] == Not(it.done(x))), cnt(sus, BoolVal(True)) == s.G.N - it.i)


def inv_sus_rec(s, it):
    sus = s.susceptible.val
    inf = mem_inf(s)
    return And(so.forall(so.U(), lambda x: sus[x] == Not(Or(inf(x), it.done(x)))),
               cnt(sus, BoolVal(True)) == s.G.N - s.initial_infecteds.n - it.i)


def rows(s):
    n = s.t.n
    return And(n >= 1, s.S.n == n, s.I.n == n, s.R.n == n,
               so.forall_idx(n, lambda j: And(s.t.a[j] == s.old.tmin + j, s.S.a[j] + s.I.a[j] + s.R.a[j] == s.G.N,
                                              s.S.a[j] >= 0, s.I.a[j] >= 0, s.R.a[j] >= 0)),
               so.forall_idx(n, lambda j: And(s.S.a[j] <= s.S.a[j - 1], s.R.a[j] >= s.R.a[j - 1]), lo=1),
               so.forall_idx(n, lambda j: so.xr_le(s.t.a[j] - 1, s.old.tmax) if False else so.xr_lt(s.t.a[j] - 1, so.to_xr(s.old.tmax)), lo=1),
               s.I.a[0] == init_count(s.old), s.R.a[0] == r0_of(s), s.S.a[0] == s.G.N - init_count(s.old) - r0_of(s))


def main_inv(s, it):
    sus = s.susceptible.val
    inf = s.infecteds
    return And(rows(s), s.S.last() == s.nS, s.I.last() == card(inf), s.R.last() == s.totR,
               s.nS == nsus(s), s.nS + card(inf) + s.totR == s.G.N, s.totR >= 0,
               so.forall(so.U(), lambda x: Implies(inf.dom[x], Not(sus[x]))),
               so.forall(so.U(), lambda x: Implies(mem_rec(s)(x), And(Not(sus[x]), Not(inf.dom[x])))))


def gen_common(s, entry_sus, pair_done):
    """generation loops: new_infecteds = nodes susceptible at step start that are reached by an already processed
    successful contact from an infectious node (the BFS layer recurrence in the digraph of successful contacts)"""
    G = s.G
    sus = s.susceptible.val
    new = s.new_infecteds
    inf = s.infecteds
    reached = lambda v: so.exists(so.U(), lambda u: And(inf.dom[u], G.adj(u, v), TT()(u, v), pair_done(u, v)))
    return And(
        so.forall(so.U(), lambda v: new.dom[v] == And(entry_sus[v], reached(v))),
        so.forall(so.U(), lambda v: sus[v] == And(entry_sus[v], Not(new.dom[v]))),
        s.nS == nsus(s), card(new) == cnt(entry_sus, BoolVal(True)) - s.nS, s.nS >= 0,
        so.forall(so.U(), lambda x: Implies(inf.dom[x], Not(entry_sus[x]))))


def inv_gen_outer(s, it):
    """for u in infecteds:"""
    return gen_common(s, it.entry.susceptible.val, lambda u, v: it.done(u))


def inv_gen_inner(s, it):
    """for v in G.neighbors(u):  u = the current infectious node of the enclosing loop"""
    outer = it.outer
    u0 = s.u
    return And(s.infecteds.dom[u0],
               gen_common(s, outer.entry.susceptible.val, lambda u, v: Or(outer.done(u), And(u == u0, it.done(v)))))


def inv_recovery(s, it):
    """for u in infecteds: if test_recovery(u): totR += 1  else: new_infecteds.add(u)"""
    new, new0 = s.new_infecteds, it.entry.new_infecteds
    inf = s.infecteds
    return And(so.forall(so.U(), lambda x: new.dom[x] == Or(new0.dom[x], And(inf.dom[x], it.done(x), Not(TRf()(x))))),
               so.forall(so.U(), lambda x: Implies(inf.dom[x], Not(new0.dom[x]))),
               card(new) + s.totR == card(new0) + it.entry.totR + it.i, s.totR >= it.entry.totR)


def post(old, s, ret):
    if not (isinstance(ret, tuple) and len(ret) == 4 and all(isinstance(x, SList) for x in ret)):
        return BoolVal(False)
    t, S_, I_, R_ = ret
    n = t.n
    N = old.G.N
    ir = old.initial_recovereds
    r0 = ir.n if isinstance(ir, SList) else IntVal(0)
    k = init_count(old)
    return And(n >= 1, S_.n == n, I_.n == n, R_.n == n,
               so.forall_idx(n, lambda j: And(t.a[j] == old.tmin + j, S_.a[j] + I_.a[j] + R_.a[j] == N,
                                              S_.a[j] >= 0, I_.a[j] >= 0, R_.a[j] >= 0)),
               so.forall_idx(n, lambda j: And(S_.a[j] <= S_.a[j - 1], R_.a[j] >= R_.a[j - 1]), lo=1),
               so.forall_idx(n, lambda j: so.xr_lt(t.a[j] - 1, so.to_xr(old.tmax)), lo=1),
               I_.a[0] == k, R_.a[0] == r0, S_.a[0] == N - k - r0)


def dsir_cases():
    out = []
    for nm, ii, rho, ir, tr in (('list', T.distinct_list('U'), T.none, T.distinct_list('U'), T.none),
                                ('node', T.node, T.none, T.distinct_list('U'), T.none),
                                ('rho', T.none, T.real, T.none, T.none),
                                ('default', T.none, T.none, T.none, T.none),
                                ('list-recovery-rule', T.distinct_list('U'), T.none, T.distinct_list('U'), mk_tr),
                                ('both-given', T.distinct_list('U'), T.real, T.none, T.none)):
        out.append(Case(nm, dict(G=T.graph(), test_transmission=mk_tt, args=T.const(UARGS), test_recovery=tr,
                                 initial_infecteds=ii, initial_recovereds=ir, rho=rho, tmin=T.integer, tmax=T.xreal,
                                 return_full_data=T.false, sim_kwargs=T.none, progress=T.false)))
    return out


def site_sample(s, info):
    G = s.G
    return And(info['k'] == init_count(s.old), info['pop'].n == G.nodelist.n, info['pop'].a == G.nodelist.a)


def contracts():
    cs = []
    # ---------------------------------------------------------------- _simple_test_transmission_
    cs.append(Contract(F, '_simple_test_transmission_',
        cases=[Case('any', dict(u=T.node, v=T.node, p=T.real))],
        make_ret=lambda run, s: fresh('bern', B),
        ensures=lambda old, s, ret: _bernoulli(old, s, ret),
        note='returns random.random() < p : one U01 draw compared with p'))

    cs.append(Contract(F, 'discrete_SIR',
        cases=dsir_cases(), axioms=axioms_for, requires=requires,
        must_raise=lambda old: BoolVal(old.rho is not NONE and old.initial_infecteds is not NONE),
        locals_={'susceptible': T.dict_of('U', 'B', default=TRUE), 'new_infecteds': T.set_of('U'),
                 'infector': T.dict_of_lists('U', 'U'), 'infecteds': T.set_of('U'),
                 't': T.list_of('I'), 'S': T.list_of('I'), 'I': T.list_of('I'), 'R': T.list_of('I')},
        loops={2: inv_sus_inf, 3: inv_sus_rec, 4: main_inv, 5: inv_gen_outer, 6: inv_gen_inner, 10: inv_recovery},
        sites={('random.sample', 0): site_sample},
        sites_strict=('random.sample', 'random.random', 'random.choice', 'random.expovariate'),
        ensures=post))
    cs.extend(sis_contracts())
    return cs


# ---------------------------------------------------------------------------------------------------
# basic_discrete_SIS (plain arrays): Reed-Frost step of the discrete SIS chain
# ---------------------------------------------------------------------------------------------------
def DRAW():
    """ghost name of the U01 draw made for the ordered contact (u, v) in the current step.  Naming is sound because the draw site is
    executed at most once per pair and step: the two loops enumerate the infectious set / the neighbours without repetition (assumed
    contracts of set iteration and G.neighbors) and every other draw site is rejected (sites_strict)"""
    return z3.Function('contact_draw_%d' % so.Mode.gen, so.U(), so.U(), R)


def sis_rows(s):
    n = s.t.n
    k = init_count(s.old)
    return And(n >= 1, s.S.n == n, s.I.n == n, s.N == s.G.N,
               so.forall_idx(n, lambda j: And(s.t.a[j] == s.old.tmin + j, s.S.a[j] + s.I.a[j] == s.G.N, s.S.a[j] >= 0, s.I.a[j] >= 0)),
               so.forall_idx(n, lambda j: so.xr_le(so.to_xr(s.t.a[j]), s.old.tmax), lo=1),
               s.I.a[0] == k, s.S.a[0] == s.G.N - k)


def sis_main_inv(s, it):
    return And(sis_rows(s), s.I.last() == card(s.infecteds), s.p == s.old.p)


def sis_step(s, it):
    """ONE pass of the main loop is one step of the discrete SIS chain: exactly one row is appended, and the new infectious set is
    the set of nodes that were not infectious and had a successful contact (own draw < p) from a node that was"""
    h = it.head
    G = s.G
    inf0, inf1 = h.infecteds, s.infecteds
    hit = lambda v: so.exists(so.U(), lambda u: And(inf0.dom[u], G.adj(u, v), DRAW()(u, v) < s.old.p))
    return And(s.t.n == h.t.n + 1, s.t.last() == h.t.last() + 1,
               so.forall(so.U(), lambda v: inf1.dom[v] == And(Not(inf0.dom[v]), hit(v))))


def sis_gen(s, pair_done):
    """new_infecteds = the nodes outside the infectious set reached by an already processed successful contact (draw < p) from an
    infectious neighbour; the infectious set itself is not touched during the step (so it is S one step later unless re-infected)"""
    G = s.G
    new, inf = s.new_infecteds, s.infecteds
    reached = lambda v: so.exists(so.U(), lambda u: And(inf.dom[u], G.adj(u, v), DRAW()(u, v) < s.p, pair_done(u, v)))
    return And(sis_rows(s), s.I.last() == card(inf), s.p == s.old.p,
               so.forall(so.U(), lambda v: new.dom[v] == And(Not(inf.dom[v]), reached(v))))


def sis_gen_outer(s, it):
    return sis_gen(s, lambda u, v: it.done(u))


def sis_gen_inner(s, it):
    outer = it.outer
    u0 = s.u
    return And(s.infecteds.dom[u0], sis_gen(s, lambda u, v: Or(outer.done(u), And(u == u0, it.done(v)))))


def sis_site_contact(s, info):
    """the contact (u, v) is tested only for v outside the infectious set, by its own uniform draw compared with p"""
    u, v = s.u, s.v
    s.run.assume(info['value'] == DRAW()(u, v))
    return info['cond'] == And(Not(s.infecteds.dom[v]), info['value'] < s.p)


def sis_post(old, s, ret):
    if not (isinstance(ret, tuple) and len(ret) == 3 and all(isinstance(x, SList) for x in ret)):
        return BoolVal(False)
    t, S_, I_ = ret
    n = t.n
    N = old.G.N
    k = init_count(old)
    return And(n >= 1, S_.n == n, I_.n == n,
               so.forall_idx(n, lambda j: And(t.a[j] == old.tmin + j, S_.a[j] + I_.a[j] == N, S_.a[j] >= 0, I_.a[j] >= 0)),
               so.forall_idx(n, lambda j: so.xr_le(so.to_xr(t.a[j]), old.tmax), lo=1),
               I_.a[0] == k, S_.a[0] == N - k,
               # stops only by extinction or when the next step would pass tmax
               Or(I_.last() == 0, Not(so.xr_le(so.to_xr(t.last() + 1), old.tmax))))


def dsis_cases():
    out = []
    for nm, ii, rho in (('list', T.distinct_list('U'), T.none), ('node', T.node, T.none), ('rho', T.none, T.real),
                        ('default', T.none, T.none), ('both-given', T.distinct_list('U'), T.real)):
        out.append(Case(nm, dict(G=T.graph(), p=T.real, initial_infecteds=ii, rho=rho, tmin=T.integer, tmax=T.xreal,
                                 return_full_data=T.false, sim_kwargs=T.none)))
    return out


def sis_requires(s):
    c = [s.G.N >= 1, s.p >= 0, s.p <= 1]
    if s.rho is not NONE:
        c += [s.rho >= 0, s.rho <= 1]
    return And(*c)


def sis_contracts():
    return [Contract(F, 'basic_discrete_SIS',
        cases=dsis_cases(), axioms=axioms_for, requires=sis_requires,
        must_raise=lambda old: BoolVal(old.rho is not NONE and old.initial_infecteds is not NONE),
        locals_={'new_infecteds': T.set_of('U'), 'infector': T.dict_of_lists('U', 'U'), 'infecteds': T.set_of('U'),
                 't': T.list_of('I'), 'S': T.list_of('I'), 'I': T.list_of('I')},
        loops={1: LoopSpec(sis_main_inv, step_post=sis_step), 2: sis_gen_outer, 3: sis_gen_inner},
        sites={('random.sample', 0): site_sample, ('random.random:test', 0): sis_site_contact},
        sites_strict=('random.sample', 'random.random', 'random.choice', 'random.expovariate'),
        ensures=sis_post)]


def _bernoulli(old, s, ret):
    draws = [d for d in s.run.draws if d[0] == 'random.random']
    if len(draws) != 1 or len(s.run.draws) != 1 or not (z3.is_expr(ret) and z3.is_bool(ret)):
        return BoolVal(False)
    return ret == (draws[0][2]['value'] < old.p)
