"""Sidecar contracts for Gillespie_SIR / Gillespie_SIS (EoN/simulation.py) — properties C01, C02, C04, C05, C09.

State abstraction (DESIGN section 5, C01):
  V(infecteds) = { u -> w_u   | status[u] = I }
  V(IS_links)  = { (u,v) -> w_uv | adj(u,v), status[u] = I, status[v] = S }
  total_recovery_rate = gamma * sum V(infecteds),  total_transmission_rate = tau * sum V(IS_links)
These are loop invariants of the main loop (with prefix forms for the neighbour loops), so they hold in
EVERY reachable state of EVERY graph; the draw-site obligations then say that the waiting time is
Exp(total rate of the chain) and the branch probability is recovery rate / total rate; the actor is drawn
through the _ListDict_ contracts (C16)."""
import z3
from z3 import And, Or, Not, Implies, If, IntVal, RealVal, BoolVal
from ..pyvc import sorts as so
from ..pyvc.sorts import fresh, I, R, B, wsum, cnt
from ..pyvc.values import SList, SDict, SObj, NONE, PyConst
from ..pyvc.verify import Contract, Case, LoopSpec
from . import types as T
from . import listdict as LD

F = 'EoN/simulation.py'
RW, TW = 'rw', 'tw'          # attribute labels used in the weighted cases


def SC(x):
    return so.S['status_const'][x]


def st(s):
    return s.status.val


def nodeweight_of(s):
    """(is weighted, weight function u -> real)"""
    if s.recovery_weight is NONE:
        return False, None
    return True, s.G.nw(s.recovery_weight.v)


def edgeweight_of(s):
    if s.transmission_weight is NONE:
        return False, None
    return True, s.G.ew(s.transmission_weight.v)


def INF(s, member=None):
    """infecteds represents { u -> w_u | member(u) }   (default member: status[u] == I)"""
    ld = s.infecteds
    U = so.U()
    m = member or (lambda u: st(s)[u] == SC('I'))
    c = [LD.WF(ld), so.forall(U, lambda u: LD.members(ld)[u] == m(u))]
    wtd, nw = nodeweight_of(s)
    if wtd:
        c.append(so.forall(U, lambda u: ld.weight.val[u] == If(m(u), nw(u), RealVal(0))))
    return And(*c)


def LNK(s, member):
    """IS_links represents { (a,b) -> w_ab | member(a,b) }"""
    ld = s.IS_links
    U = so.U()
    c = [LD.WF(ld), so.forall2(U, U, lambda a, b: LD.members(ld)[so.mkpair(a, b)] == member(a, b))]
    wtd, ew = edgeweight_of(s)
    if wtd:
        c.append(so.forall2(U, U, lambda a, b: ld.weight.val[so.mkpair(a, b)] == If(member(a, b), ew(a, b), RealVal(0))))
    return And(*c)


def is_link(s):
    G = s.G
    return lambda a, b: And(G.adj(a, b), st(s)[a] == SC('I'), st(s)[b] == SC('S'))


def counts_match(s, sir=True):
    c = [s.S.last() == cnt(st(s), SC('S')), s.I.last() == cnt(st(s), SC('I'))]
    if sir:
        c.append(s.R.last() == cnt(st(s), SC('R')))
    else:
        c.append(cnt(st(s), SC('R')) == 0)
    return And(*c)


def rows(times, S, I_, R_, tmin, tmax, N, sir=True):
    """the C04 row invariant over whole arrays"""
    n = times.n
    lists = [S, I_] + ([R_] if sir else [])
    c = [n >= 1] + [l.n == n for l in lists]
    c.append(times.a[0] == tmin)
    c.append(so.forall_idx(n - 1, lambda j: times.a[j] <= times.a[j + 1]))
    c.append(so.forall_idx(n, lambda j: so.xr_lt(times.a[j], tmax), lo=1))
    tot = (lambda j: S.a[j] + I_.a[j] + R_.a[j]) if sir else (lambda j: S.a[j] + I_.a[j])
    c.append(so.forall_idx(n, lambda j: And(tot(j) == N, *[l.a[j] >= 0 for l in lists])))
    if sir:
        step = lambda j: Or(And(S.a[j] == S.a[j - 1] - 1, I_.a[j] == I_.a[j - 1] + 1, R_.a[j] == R_.a[j - 1]),
                            And(S.a[j] == S.a[j - 1], I_.a[j] == I_.a[j - 1] - 1, R_.a[j] == R_.a[j - 1] + 1))
    else:
        step = lambda j: Or(And(S.a[j] == S.a[j - 1] - 1, I_.a[j] == I_.a[j - 1] + 1),
                            And(S.a[j] == S.a[j - 1] + 1, I_.a[j] == I_.a[j - 1] - 1))
    c.append(so.forall_idx(n, step, lo=1))
    return And(*c)


def axioms_for(s):
    U, P = so.U(), so.Pair()
    ax = so.wsum_axioms(U) + so.wsum_axioms(P) + so.cnt_axioms(U, so.Status())
    if not so.Mode.finite:
        A = z3.ArraySort(U, so.Status())
        a = z3.Const('pa', A)
        # every node has exactly one status, and U is the node set of G
        ax.append(z3.ForAll([a], cnt(a, SC('S')) + cnt(a, SC('I')) + cnt(a, SC('R')) == s.G.N,
                            patterns=[cnt(a, SC('S'))]))
        for c0 in ('S', 'I', 'R'):
            for x0 in ('S', 'I', 'R'):
                ax.append(cnt(z3.K(U, SC(c0)), SC(x0)) == (s.G.N if c0 == x0 else 0))
        ax.append(z3.ForAll([a], Implies(cnt(a, SC('I')) == 0, so.forall(U, lambda u: a[u] != SC('I'))),
                            patterns=[cnt(a, SC('I'))]))
        ax.append(z3.ForAll([a], Implies(so.forall(U, lambda u: a[u] != SC('I')), cnt(a, SC('I')) == 0),
                            patterns=[cnt(a, SC('I'))]))
    return ax


def sum_lemmas(s, it=None):
    """finite-sum sign lemmas instantiated for the two current weight maps (trusted base item 4)"""
    return [LD.sign_lemmas(s.infecteds), LD.sign_lemmas(s.IS_links)]


def rates_ok(s):
    return And(s.total_recovery_rate == s.gamma * LD.total(s.infecteds),
               s.total_transmission_rate == s.tau * LD.total(s.IS_links),
               s.total_rate == s.total_recovery_rate + s.total_transmission_rate)


def init_count(s):
    """number of initially infected nodes as the prefix computes it"""
    ii = s.old.initial_infecteds
    if isinstance(ii, SList):
        return ii.n
    if ii is NONE:
        if s.old.rho is NONE:
            return IntVal(1)
        x = z3.ToReal(s.G.N) * s.old.rho
        fl = z3.ToInt(x)
        fr = x - z3.ToReal(fl)
        return If(fr < RealVal('1/2'), fl, If(fr > RealVal('1/2'), fl + 1, If(fl % 2 == 0, fl, fl + 1)))
    return IntVal(1)


def rec_list(s):
    ir = s.old.initial_recovereds
    return ir if isinstance(ir, SList) else None


def is_init_inf(s):
    ii = s.initial_infecteds         # after normalisation: always a list
    if getattr(ii, 'memberf', None) is not None:
        return ii.memberf
    return lambda x: so.exists_idx(ii.n, lambda j: ii.a[j] == x)


def is_init_rec(s):
    ir = rec_list(s)
    if ir is None:
        return lambda x: BoolVal(False)
    return ir.memberf


# ---------------------------------------------------------------------------------------------------
# Gillespie_SIR
# ---------------------------------------------------------------------------------------------------

def sir_requires(s):
    c = [s.tau >= 0, s.gamma >= 0, so.xr_lt(s.tmin, s.tmax), s.G.N >= 1]
    ii, ir = s.initial_infecteds, s.initial_recovereds
    if s.rho is not NONE:
        c += [s.rho >= 0, s.rho <= 1]
    if isinstance(ii, SList) and isinstance(ir, SList):
        c.append(so.forall(so.U(), lambda x: Not(And(ii.memberf(x), ir.memberf(x)))))     # disjoint
    if (not isinstance(ii, SList)) and ii is not NONE and isinstance(ir, SList):
        c.append(Not(ir.memberf(ii)))
    return And(*c)


def sir_inv_loop0(s, it):
    """for node in initial_infecteds: status[node] = 'I'"""
    return And(so.forall(so.U(), lambda x: st(s)[x] == If(it.done(x), SC('I'), SC('S'))),
               cnt(st(s), SC('I')) == it.i, cnt(st(s), SC('R')) == 0)


def sir_inv_loop1(s, it):
    """for node in initial_recovereds: status[node] = 'R'"""
    inf = is_init_inf(s)
    return And(so.forall(so.U(), lambda x: st(s)[x] == If(inf(x), SC('I'), If(it.done(x), SC('R'), SC('S')))),
               cnt(st(s), SC('I')) == s.initial_infecteds.n, cnt(st(s), SC('R')) == it.i)


def status_initialised(s):
    inf, rec = is_init_inf(s), is_init_rec(s)
    ir = rec_list(s)
    return And(so.forall(so.U(), lambda x: st(s)[x] == If(inf(x), SC('I'), If(rec(x), SC('R'), SC('S')))),
               cnt(st(s), SC('I')) == s.initial_infecteds.n,
               cnt(st(s), SC('R')) == (ir.n if ir is not None else 0))


def sir_inv_loop2(s, it):
    """for node in initial_infecteds: infecteds.update(node); for nbr ...: IS_links.update((node,nbr))"""
    G = s.G
    return And(status_initialised(s),
               INF(s, member=lambda u: it.done(u)),
               LNK(s, lambda a, b: And(it.done(a), G.adj(a, b), st(s)[b] == SC('S'))))


def sir_inv_loop3(s, it):
    """inner neighbour loop of the initialisation; `node` is the current initial node (index of loop 2 is
    not visible here, so the outer facts are phrased through the position function of the initial list)"""
    G = s.G
    ii = s.initial_infecteds
    node = s.node
    before = lambda a: And(ii.memberf(a), ii.posf(a) < ii.posf(node)) if getattr(ii, 'posf', None) is not None else BoolVal(False)
    return And(status_initialised(s),
               is_init_inf(s)(node),
               INF(s, member=lambda u: Or(before(u), u == node)),
               LNK(s, lambda a, b: And(G.adj(a, b), st(s)[b] == SC('S'), Or(before(a), And(a == node, it.done(b))))))


def sir_main_inv(s, it):
    G = s.G
    return And(rows(s.times, s.S, s.I, s.R, s.old.tmin, s.old.tmax, G.N),
               counts_match(s),
               so.xr_le(s.times.last(), s.t),
               INF(s), LNK(s, is_link(s)), rates_ok(s),
               Or(so.xr_isinf(s.t), s.total_rate > 0), Implies(so.xr_isinf(s.t), s.total_rate <= 0),
               row0(s), s.tau == s.old.tau, s.gamma == s.old.gamma,
               initially_recovered_stay(s))


def initially_recovered_stay(s):
    rec = is_init_rec(s)
    return so.forall(so.U(), lambda x: Implies(rec(x), st(s)[x] == SC('R')))


def row0(s):
    ir = rec_list(s)
    k = init_count(s)
    r0 = ir.n if ir is not None else IntVal(0)
    return And(s.I.a[0] == k, s.R.a[0] == r0, s.S.a[0] == s.G.N - k - r0)


def sir_inv_rec_nbrs(s, it):
    """recover branch: status[r] = R set, r removed from infecteds; links (r, nbr) to susceptible nbrs being removed"""
    G = s.G
    r = s.recovering_node
    link = is_link(s)
    return And(rows(s.times, s.S, s.I, s.R, s.old.tmin, s.old.tmax, G.N),
               so.xr_le(s.times.last(), s.t), so.xr_lt(s.t, s.old.tmax),
               st(s)[r] == SC('R'),
               s.S.last() == cnt(st(s), SC('S')), s.I.last() == cnt(st(s), SC('I')) + 1, s.R.last() == cnt(st(s), SC('R')) - 1,
               INF(s),
               LNK(s, lambda a, b: Or(link(a, b), And(a == r, G.adj(r, b), st(s)[b] == SC('S'), Not(it.done(b))))),
               row0(s), s.tau == s.old.tau, s.gamma == s.old.gamma, initially_recovered_stay(s))


def sir_inv_trans_nbrs(s, it):
    """transmit branch: status[recipient] = I set, recipient added to infecteds; links out of the recipient
    being added, links into it being removed"""
    G = s.G
    x = s.recipient
    link = is_link(s)

    def member(a, b):
        return If(And(a == x, G.adj(x, b)), And(it.done(b), st(s)[b] == SC('S')),
                  If(And(b == x, G.adj(a, x)), And(st(s)[a] == SC('I'), a != x, Not(it.done(a))),
                     link(a, b)))
    return And(rows(s.times, s.S, s.I, s.R, s.old.tmin, s.old.tmax, G.N),
               so.xr_le(s.times.last(), s.t), so.xr_lt(s.t, s.old.tmax),
               st(s)[x] == SC('I'),
               s.S.last() == cnt(st(s), SC('S')) + 1, s.I.last() == cnt(st(s), SC('I')) - 1, s.R.last() == cnt(st(s), SC('R')),
               INF(s), LNK(s, member),
               row0(s), s.tau == s.old.tau, s.gamma == s.old.gamma, initially_recovered_stay(s))


def site_clock(s, info):
    """waiting time ~ Exp(total rate of the chain in the current state)"""
    return And(INF(s), LNK(s, is_link(s)),
               info['rate'] == s.gamma * LD.total(s.infecteds) + s.tau * LD.total(s.IS_links))


def site_branch(s, info):
    """recover with probability (recovery rate)/(total rate), else transmit"""
    rec = s.gamma * LD.total(s.infecteds)
    tot = rec + s.tau * LD.total(s.IS_links)
    return And(tot > 0, info['cond'] == (info['value'] < rec / tot))


def site_sample(s, info):
    """rho selects int(round(N*rho)) distinct nodes (1 node by default) from the node list of G"""
    G = s.G
    return And(info['k'] == init_count(s), info['pop'].n == G.nodelist.n, info['pop'].a == G.nodelist.a)


def sir_post(old, s, ret):
    if not (isinstance(ret, tuple) and len(ret) == 4 and all(isinstance(x, SList) for x in ret)):
        return BoolVal(False)
    t, S_, I_, R_ = ret
    G = old.G
    ir = old.initial_recovereds if isinstance(old.initial_recovereds, SList) else None
    sview = s
    c = [rows(t, S_, I_, R_, old.tmin, old.tmax, G.N)]
    # C05: row 0 is the requested initial condition
    k = init_count(sview)
    r0 = ir.n if ir is not None else IntVal(0)
    c += [I_.a[0] == k, R_.a[0] == r0, S_.a[0] == G.N - k - r0]
    # C04: unbounded horizon and positive recovery rate -> ends with no infected node
    c.append(Implies(And(so.xr_isinf(old.tmax), old.gamma > 0), I_.last() == 0))
    return And(*c)


# ---------------------------------------------------------------------------------------------------
# Gillespie_SIS
# ---------------------------------------------------------------------------------------------------

def sis_requires(s):
    c = [s.tau >= 0, s.gamma >= 0, so.xr_lt(s.tmin, s.tmax), s.G.N >= 1]
    if s.rho is not NONE:
        c += [s.rho >= 0, s.rho <= 1]
    return And(*c)


def no_R(s):
    return And(so.forall(so.U(), lambda x: st(s)[x] != SC('R')), cnt(st(s), SC('R')) == 0)


def sis_inv_loop0(s, it):
    return And(so.forall(so.U(), lambda x: st(s)[x] == If(it.done(x), SC('I'), SC('S'))),
               cnt(st(s), SC('I')) == it.i, cnt(st(s), SC('R')) == 0)


def sis_status_initialised(s):
    inf = is_init_inf(s)
    return And(so.forall(so.U(), lambda x: st(s)[x] == If(inf(x), SC('I'), SC('S'))),
               cnt(st(s), SC('I')) == s.initial_infecteds.n, cnt(st(s), SC('R')) == 0)


def sis_inv_loop1(s, it):
    G = s.G
    return And(sis_status_initialised(s),
               INF(s, member=lambda u: it.done(u)),
               LNK(s, lambda a, b: And(it.done(a), G.adj(a, b), st(s)[b] == SC('S'))))


def sis_inv_loop2(s, it):
    G = s.G
    ii = s.initial_infecteds
    node = s.node
    before = lambda a: And(ii.memberf(a), ii.posf(a) < ii.posf(node)) if getattr(ii, 'posf', None) is not None else BoolVal(False)
    return And(sis_status_initialised(s), is_init_inf(s)(node),
               INF(s, member=lambda u: Or(before(u), u == node)),
               LNK(s, lambda a, b: And(G.adj(a, b), st(s)[b] == SC('S'), Or(before(a), And(a == node, it.done(b))))))


def sis_row0(s):
    k = init_count(s)
    return And(s.I.a[0] == k, s.S.a[0] == s.G.N - k)


def sis_main_inv(s, it):
    G = s.G
    return And(rows(s.times, s.S, s.I, None, s.old.tmin, s.old.tmax, G.N, sir=False),
               counts_match(s, sir=False), no_R(s),
               so.xr_le(s.times.last(), s.t),
               INF(s), LNK(s, is_link(s)), rates_ok(s),
               Or(so.xr_isinf(s.t), s.total_rate > 0), Implies(so.xr_isinf(s.t), s.total_rate <= 0),
               sis_row0(s), s.tau == s.old.tau, s.gamma == s.old.gamma)


def sis_inv_rec_nbrs(s, it):
    """recover branch: status[r] = S set, r removed from infecteds; links out of r being removed, links
    from infectious neighbours into r being inserted"""
    G = s.G
    r = s.recovering_node
    link = is_link(s)

    def member(a, b):
        return If(And(a == r, G.adj(r, b)), And(st(s)[b] == SC('S'), b != r, Not(it.done(b))),
                  If(And(b == r, G.adj(a, r)), And(st(s)[a] == SC('I'), it.done(a)),
                     link(a, b)))
    return And(rows(s.times, s.S, s.I, None, s.old.tmin, s.old.tmax, G.N, sir=False),
               so.xr_le(s.times.last(), s.t), so.xr_lt(s.t, s.old.tmax),
               st(s)[r] == SC('S'), no_R(s),
               s.S.last() == cnt(st(s), SC('S')) - 1, s.I.last() == cnt(st(s), SC('I')) + 1,
               INF(s), LNK(s, member),
               sis_row0(s), s.tau == s.old.tau, s.gamma == s.old.gamma)


def sis_inv_trans_nbrs(s, it):
    G = s.G
    x = s.recipient
    link = is_link(s)

    def member(a, b):
        return If(And(a == x, G.adj(x, b)), And(it.done(b), st(s)[b] == SC('S')),
                  If(And(b == x, G.adj(a, x)), And(st(s)[a] == SC('I'), a != x, Not(it.done(a))),
                     link(a, b)))
    return And(rows(s.times, s.S, s.I, None, s.old.tmin, s.old.tmax, G.N, sir=False),
               so.xr_le(s.times.last(), s.t), so.xr_lt(s.t, s.old.tmax),
               st(s)[x] == SC('I'), no_R(s),
               s.S.last() == cnt(st(s), SC('S')) + 1, s.I.last() == cnt(st(s), SC('I')) - 1,
               INF(s), LNK(s, member),
               sis_row0(s), s.tau == s.old.tau, s.gamma == s.old.gamma)


def sis_post(old, s, ret):
    if not (isinstance(ret, tuple) and len(ret) == 3 and all(isinstance(x, SList) for x in ret)):
        return BoolVal(False)
    t, S_, I_ = ret
    G = old.G
    k = init_count(s)
    return And(rows(t, S_, I_, None, old.tmin, old.tmax, G.N, sir=False),
               I_.a[0] == k, S_.a[0] == G.N - k)


def gillespie_cases(sir=True, full=False):
    def base(ii, rho, weighted):
        p = dict(G=T.graph(weight_labels=(TW,) if weighted else (), node_labels=(RW,) if weighted else ()),
                 tau=T.real, gamma=T.real, initial_infecteds=ii, rho=rho, tmin=T.real, tmax=T.xreal,
                 recovery_weight=T.pyconst(RW) if weighted else T.none,
                 transmission_weight=T.pyconst(TW) if weighted else T.none,
                 return_full_data=T.true if full else T.false, sim_kwargs=T.none)
        if sir:
            # rho together with initial_recovereds is outside the property's quantifier ("disjoint initial sets":
            # a random sample cannot be promised disjoint from a given recovered set)
            p['initial_recovereds'] = T.distinct_list('U') if ii is not T.none else T.none
        return p
    cases = []
    for wname, w in (('unweighted', False), ('weighted', True)):
        cases.append(Case('list-%s' % wname, base(T.distinct_list('U'), T.none, w)))
        cases.append(Case('node-%s' % wname, base(T.node, T.none, w)))
        cases.append(Case('rho-%s' % wname, base(T.none, T.real, w)))
    cases.append(Case('default-unweighted', base(T.none, T.none, False)))
    c = Case('list-norecovered-unweighted', base(T.distinct_list('U'), T.none, False))
    if sir:
        c.params['initial_recovereds'] = T.none
        cases.append(c)
    cases.append(Case('both-given', base(T.distinct_list('U'), T.real, False)))
    return cases


TRANS = lambda: T.tuple_list('Trans', [('time', 'R'), ('src', ('opt', 'U')), ('tgt', 'U')])


def contracts():
    cs = list(LD.contracts('U'))
    for c in cs:
        c.verify = False          # verified under C16; here they are the callee contracts
    locals_sir = {
        'status': T.dict_of('U', 'Status', default=lambda: SC('S')),
        'transmissions': TRANS(),
        'infection_times': T.dict_of_lists('U', 'R'), 'recovery_times': T.dict_of_lists('U', 'R'),
        'I': T.list_of('I'), 'R': T.list_of('I'), 'S': T.list_of('I'), 'times': T.list_of('R'),
    }

    def locals_for(case_weighted):
        d = dict(locals_sir)
        return d

    # the typed locals for the two _ListDict_ objects depend on the weight mode: resolved per case below
    def mk_infecteds(run, name, **kw):
        wtd = run.local('recovery_weight') is not NONE
        return LD.mk_ld('U', wtd)(run, name, **kw)

    def mk_links(run, name, **kw):
        wtd = run.local('transmission_weight') is not NONE
        return LD.mk_ld('Pair', wtd)(run, name, **kw)
    locals_sir['infecteds'] = mk_infecteds
    locals_sir['IS_links'] = mk_links
    locals_sir['recovering_node'] = T.node
    locals_sir['recipient'] = T.node
    locals_sir['transmitter'] = T.node
    locals_sir['delay'] = T.xreal

    cs.append(Contract(F, 'Gillespie_SIR',
        cases=gillespie_cases(sir=True, full=False),
        requires=sir_requires, axioms=axioms_for,
        must_raise=lambda old: BoolVal(old.rho is not NONE and old.initial_infecteds is not NONE),
        loops={0: sir_inv_loop0, 1: sir_inv_loop1, 2: sir_inv_loop2, 3: sir_inv_loop3,
               4: LoopSpec(sir_main_inv, lemmas=sum_lemmas), 5: sir_inv_rec_nbrs, 6: sir_inv_trans_nbrs},
        sites={('random.expovariate', 0): site_clock, ('random.expovariate', 1): site_clock,
               ('random.random:test', 0): site_branch, ('random.sample', 0): site_sample},
        sites_strict=('random.random', 'random.expovariate', 'random.choice', 'random.sample'),
        locals_=locals_sir, local_sorts={'t': 'XR', 'delay': 'XR'},
        ensures=sir_post))

    cs.append(Contract(F, 'Gillespie_SIS',
        cases=gillespie_cases(sir=False, full=False),
        requires=sis_requires, axioms=axioms_for,
        must_raise=lambda old: BoolVal(old.rho is not NONE and old.initial_infecteds is not NONE),
        loops={0: sis_inv_loop0, 1: sis_inv_loop1, 2: sis_inv_loop2,
               3: LoopSpec(sis_main_inv, lemmas=sum_lemmas), 4: sis_inv_rec_nbrs, 5: sis_inv_trans_nbrs},
        sites={('random.expovariate', 0): site_clock, ('random.expovariate', 1): site_clock,
               ('random.random:test', 0): site_branch, ('random.sample', 0): site_sample},
        sites_strict=('random.random', 'random.expovariate', 'random.choice', 'random.sample'),
        locals_=locals_sir, local_sorts={'t': 'XR', 'delay': 'XR'},
        ensures=sis_post))
    return cs
