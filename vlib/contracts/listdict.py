"""Sidecar contracts for EoN/simulation.py::_ListDict_  (property C16; used by C01, C02, C03, C15).
Nothing here is imported by /repo.

Abstract view of a _ListDict_  (DESIGN section 5, C16):
    unweighted : the set  dom(item_to_position)
    weighted   : the finite map  k -> weight[k]   (0 outside the set; weight is a defaultdict(int))
Representation invariant WF: items / item_to_position are mutually inverse; weights lie in
[0, max_weight]; dom(weight) = dom(position); _total_weight = sum of the weights.
max_weight_count is deliberately NOT part of the invariant (the property only needs max_weight to be an
upper bound), so harmless changes to the max-tracking do not raise alarms.
"""
import z3
from z3 import And, Or, Not, Implies, If, IntVal, RealVal, BoolVal
from ..pyvc import sorts as so
from ..pyvc.sorts import fresh, I, R, B, wsum
from ..pyvc.values import SList, SDict, SObj, NONE
from ..pyvc.verify import Contract, Case, LoopSpec
from . import types as T

F = 'EoN/simulation.py'


def mk_ld(ksort, weighted):
    """maker of a symbolic _ListDict_ over key sort `ksort` ('U' or 'Pair').  With empty=True it is the
    result of the constructor call `_ListDict_(weighted=...)`: the postcondition of __init__ is assumed
    (caller view of the constructor) and the `weighted` argument must match the declared mode."""
    def mk(run, name, empty=False, ctor_args=None, **kw):
        K = T.sort_of(ksort)
        if ctor_args is not None:
            args, kws = ctor_args
            w = kws.get('weighted', args[0] if args else BoolVal(False))
            if not (z3.is_expr(w) and (z3.is_true(w) if weighted else z3.is_false(w))):
                from ..pyvc.engine import Unbindable
                raise Unbindable('constructor _ListDict_(weighted=%s) does not match the declared mode weighted=%s of %s' % (w, weighted, name))
        f = dict(items=SList(K, name=name + '_items'),
                 item_to_position=SDict(K, I, name=name + '_pos'),
                 weighted=BoolVal(weighted))
        if weighted:
            f.update(weight=SDict(K, R, default=RealVal(0), name=name + '_w'),
                     max_weight=fresh(name + '_max', R),
                     _total_weight=fresh(name + '_tot', R),
                     max_weight_count=fresh(name + '_cnt', I))
        ld = SObj('_ListDict_', f, name=name)
        if empty:
            run.assume(ld.wellformed())
            run.assume(And(WF(ld), so.forall(K, lambda k: Not(members(ld)[k])), total(ld) == 0, ld.items.n == 0))
        return ld
    return mk


def is_weighted(ld):
    return z3.is_true(ld.weighted)


def K_of(ld):
    return ld.item_to_position.ksort


def WF(ld):
    it, pos = ld.items, ld.item_to_position
    K = K_of(ld)
    c = [it.n >= 0,
         so.forall_idx(it.n, lambda i: And(pos.dom[it.a[i]], pos.val[it.a[i]] == i)),
         so.forall(K, lambda k: Implies(pos.dom[k], And(0 <= pos.val[k], pos.val[k] < it.n, it.a[pos.val[k]] == k)))]
    if is_weighted(ld):
        w = ld.weight
        c += [so.forall(K, lambda k: w.dom[k] == pos.dom[k]),
              so.forall(K, lambda k: Implies(Not(pos.dom[k]), w.val[k] == 0)),
              so.forall(K, lambda k: And(0 <= w.val[k], w.val[k] <= ld.max_weight)),
              ld._total_weight == wsum(w.val)]
    return And(*c)


def members(ld):
    return ld.item_to_position.dom


def weight_of(ld, k):
    return ld.weight.val[k]


def total(ld):
    """the abstract total weight (what the clock must use)"""
    if is_weighted(ld):
        return wsum(ld.weight.val)
    return z3.ToReal(ld.items.n)


def view_is(new, old, item, present, wnew):
    """WHOLE-view postcondition: every key other than `item` is unchanged"""
    K = K_of(old)
    c = [new.weighted == old.weighted,
         so.forall(K, lambda k: members(new)[k] == If(k == item, present, members(old)[k]))]
    if is_weighted(old):
        c.append(so.forall(K, lambda k: new.weight.val[k] == If(k == item, wnew, old.weight.val[k])))
    return And(*c)


def same_view(new, old):
    K = K_of(old)
    c = [new.weighted == old.weighted, so.forall(K, lambda k: members(new)[k] == members(old)[k])]
    if is_weighted(old):
        c.append(so.forall(K, lambda k: new.weight.val[k] == old.weight.val[k]))
    return And(*c)


def same_repr(new, old):
    """nothing observable changed (fields identical, except that reading the defaultdict may be replayed)"""
    c = [new.items.n == old.items.n, new.items.a == old.items.a,
         new.item_to_position.dom == old.item_to_position.dom, new.item_to_position.val == old.item_to_position.val]
    if is_weighted(old):
        c += [new.weight.val == old.weight.val, new.max_weight == old.max_weight,
              new._total_weight == old._total_weight,
              so.forall(K_of(old), lambda k: new.weight.dom[k] == old.weight.dom[k])]
    return And(*c)


def sign_lemmas(ld):
    """true facts about finite sums, instantiated for this weight map (trusted base: sum lemmas)"""
    if not is_weighted(ld) or so.Mode.finite:
        return BoolVal(True)
    a = ld.weight.val
    K = K_of(ld)
    return And(Implies(so.forall(K, lambda k: a[k] >= 0), And(wsum(a) >= 0, so.forall(K, lambda k: a[k] <= wsum(a)))),
               Implies(so.forall(K, lambda k: a[k] <= 0), wsum(a) <= 0))


def _axioms(s):
    ld = s.self
    return so.wsum_axioms(K_of(ld)) if is_weighted(ld) else []


def _num(v):
    return v is not NONE and z3.is_expr(v)


def _inc_ok(s):
    """weight argument matches the mode: weighted <-> a number >= 0 ; unweighted <-> None"""
    w = s.weight_increment if s.has('weight_increment') else s.weight
    if is_weighted(s.self):
        return (w >= 0) if _num(w) else BoolVal(False)
    return BoolVal(w is NONE)


def _norm(*names):
    def n(run, bound):
        from ..pyvc.values import coerce
        K = K_of(bound['self'])
        for nm in names:
            if nm in bound and bound[nm] is not NONE:
                bound[nm] = coerce(bound[nm], K)
    return n


def contracts(ksort='U'):
    ldW, ldU = mk_ld(ksort, True), mk_ld(ksort, False)
    key = T.scalar(ksort)
    cs = []

    cs.append(Contract(F, '_ListDict_.__len__',
        cases=[Case('weighted', dict(self=ldW)), Case('unweighted', dict(self=ldU))],
        pure=lambda s: s.self.items.n,
        ensures=lambda old, s, ret: And(ret == old.self.items.n, same_repr(s.self, old.self))))

    cs.append(Contract(F, '_ListDict_.__contains__',
        cases=[Case('weighted', dict(self=ldW, item=key)), Case('unweighted', dict(self=ldU, item=key))],
        normalize=_norm('item'),
        pure=lambda s: members(s.self)[s.item],
        ensures=lambda old, s, ret: And(ret == members(old.self)[old.item], same_repr(s.self, old.self))))

    cs.append(Contract(F, '_ListDict_.total_weight',
        cases=[Case('weighted', dict(self=ldW)), Case('unweighted', dict(self=ldU))],
        requires=lambda s: WF(s.self), axioms=_axioms,
        pure=lambda s: total(s.self),
        ensures=lambda old, s, ret: And((z3.ToReal(ret) if z3.is_int(ret) else ret) == total(old.self),
                                        same_repr(s.self, old.self))))

    cs.append(Contract(F, '_ListDict_._update_max_weight',
        cases=[Case('weighted', dict(self=ldW))],
        requires=lambda s: so.exists(K_of(s.self), lambda k: s.self.weight.dom[k]),
        modifies=['self'],
        ensures=lambda old, s, ret: And(
            s.self.items.n == old.self.items.n, s.self.items.a == old.self.items.a,
            s.self.item_to_position.dom == old.self.item_to_position.dom,
            s.self.item_to_position.val == old.self.item_to_position.val,
            s.self.weight.dom == old.self.weight.dom, s.self.weight.val == old.self.weight.val,
            s.self._total_weight == old.self._total_weight,
            so.forall(K_of(old.self), lambda k: Implies(old.self.weight.dom[k], old.self.weight.val[k] <= s.self.max_weight)),
            so.exists(K_of(old.self), lambda k: And(old.self.weight.dom[k], old.self.weight.val[k] == s.self.max_weight)))))

    cs.append(Contract(F, '_ListDict_.remove',
        cases=[Case('weighted', dict(self=ldW, choice=key)), Case('unweighted', dict(self=ldU, choice=key))],
        requires=lambda s: And(WF(s.self), members(s.self)[s.choice]), axioms=_axioms,
        modifies=['self'], normalize=_norm('choice'),
        ensures=lambda old, s, ret: And(WF(s.self), view_is(s.self, old.self, old.choice, BoolVal(False), RealVal(0)))))

    cs.append(Contract(F, '_ListDict_.update',
        cases=[Case('weighted', dict(self=ldW, item=key, weight_increment=T.real)),
               Case('unweighted', dict(self=ldU, item=key, weight_increment=T.none))],
        requires=lambda s: And(WF(s.self), _inc_ok(s)), axioms=_axioms,
        modifies=['self'], normalize=_norm('item'),
        ensures=lambda old, s, ret: And(WF(s.self), view_is(
            s.self, old.self, old.item, BoolVal(True),
            (old.self.weight.val[old.item] + old.weight_increment) if is_weighted(old.self) else None))))

    cs.append(Contract(F, '_ListDict_.insert',
        cases=[Case('weighted', dict(self=ldW, item=key, weight=T.real)),
               Case('unweighted', dict(self=ldU, item=key, weight=T.none))],
        requires=lambda s: And(WF(s.self), _inc_ok(s)), axioms=_axioms,
        modifies=['self'], normalize=_norm('item'),
        ensures=lambda old, s, ret: And(WF(s.self), view_is(
            s.self, old.self, old.item,
            (old.weight != 0) if is_weighted(old.self) else BoolVal(True),
            old.weight if is_weighted(old.self) else None))))

    def choose_pre(s):
        ld = s.self
        c = [WF(ld), ld.items.n > 0]
        if is_weighted(ld):
            c.append(wsum(ld.weight.val) > 0)
        return And(*c)

    def choose_post(old, s, ret):
        c = [members(old.self)[ret], same_view(s.self, old.self), WF(s.self)]
        if is_weighted(old.self):
            c.append(old.self.weight.val[ret] > 0)       # zero-weight candidates are never selected
        return And(*c)

    def accept_test(s, info):
        """the accept test compares the U01 draw with weight[choice]/max_weight, a ratio in [0,1]"""
        ld, ch, u = s.self, s.choice, info['value']
        # any candidate-independent positive normaliser D >= every weight gives the law weight/sum;
        # the two such quantities the structure maintains are max_weight and _total_weight
        alts = []
        for D in (ld.max_weight, ld._total_weight):
            thr = ld.weight.val[ch] / D
            alts.append(And(D > 0, info['cond'] == (u < thr), 0 <= thr, thr <= 1))
        return Or(*alts)

    def proposal(s, info):
        """the proposal is uniform over exactly the current candidate list"""
        return And(info['seq'].n == s.self.items.n, info['seq'].a == s.self.items.a)

    cs.append(Contract(F, '_ListDict_.choose_random',
        cases=[Case('weighted', dict(self=ldW)), Case('unweighted', dict(self=ldU))],
        requires=choose_pre, axioms=lambda s: _axioms(s) + [sign_lemmas(s.self)],
        modifies=['self'],
        make_ret=lambda run, s: fresh('chosen', K_of(s.self)),
        loops={0: lambda s, it: And(same_repr(s.self, it.entry.self))},
        sites={('random.choice', 0): proposal, ('random.random:test', 0): accept_test},
        sites_strict=('random.choice', 'random.random', 'random.expovariate'),
        ensures=choose_post))

    def removal_post(old, s, ret):
        c = [members(old.self)[ret], WF(s.self),
             view_is(s.self, old.self, ret, BoolVal(False), RealVal(0))]
        if is_weighted(old.self):
            c.append(old.self.weight.val[ret] > 0)
        return And(*c)

    cs.append(Contract(F, '_ListDict_.random_removal',
        cases=[Case('weighted', dict(self=ldW)), Case('unweighted', dict(self=ldU))],
        requires=choose_pre, axioms=_axioms,
        modifies=['self'],
        make_ret=lambda run, s: fresh('removed', K_of(s.self)),
        ensures=removal_post))

    def utw_sum_hook(run, e, env, seqv):
        """sum(self.weight[item] for item in self.items): the sum over a duplicate-free enumeration of a
        superset of the support equals the sum over all keys (finite-sum fact, trusted base item 4)."""
        ld = env['self']
        if not (isinstance(seqv, SList) and seqv is ld.items):
            return None
        K = K_of(ld)
        pos, w = ld.item_to_position, ld.weight
        run.oblige('safety', 'sum-enumeration-duplicate-free', e.lineno,
                   so.forall_idx(ld.items.n, lambda i: pos.val[ld.items.a[i]] == i))
        run.oblige('safety', 'sum-enumeration-covers-support', e.lineno,
                   so.forall(K, lambda k: Implies(w.val[k] != 0, And(pos.dom[k], ld.items.a[pos.val[k]] == k,
                                                                      0 <= pos.val[k], pos.val[k] < ld.items.n))))
        return wsum(w.val)

    def utw_pre(s):
        """update_total_weight repairs rounding drift: everything of WF except the total"""
        ld = s.self
        it, pos, w = ld.items, ld.item_to_position, ld.weight
        K = K_of(ld)
        return And(it.n >= 0,
                   so.forall_idx(it.n, lambda i: And(pos.dom[it.a[i]], pos.val[it.a[i]] == i)),
                   so.forall(K, lambda k: Implies(pos.dom[k], And(0 <= pos.val[k], pos.val[k] < it.n, it.a[pos.val[k]] == k))),
                   so.forall(K, lambda k: w.dom[k] == pos.dom[k]),
                   so.forall(K, lambda k: Implies(Not(pos.dom[k]), w.val[k] == 0)),
                   so.forall(K, lambda k: And(0 <= w.val[k], w.val[k] <= ld.max_weight)))

    cs.append(Contract(F, '_ListDict_.update_total_weight',
        cases=[Case('weighted', dict(self=ldW))],
        requires=utw_pre, axioms=_axioms, modifies=['self'], sum_hook=utw_sum_hook,
        ensures=lambda old, s, ret: And(WF(s.self), same_view(s.self, old.self))))

    def init_post(old, s, ret):
        ld = s.self
        K = K_of(ld)
        return And(WF(ld), so.forall(K, lambda k: Not(members(ld)[k])), total(ld) == 0)

    def mk_blank(weighted):
        def mk(run, name, **kw):
            return SObj('_ListDict_', {}, name=name)
        return mk

    init_locals = {'self.item_to_position': T.dict_of(ksort, 'I'), 'self.items': T.list_of(ksort),
                   'self.weight': T.dict_of(ksort, 'R', default=0)}
    cs.append(Contract(F, '_ListDict_.__init__',
        cases=[Case('weighted', dict(self=mk_blank(True), weighted=T.true)),
               Case('unweighted', dict(self=mk_blank(False), weighted=T.false))],
        axioms=lambda s: so.wsum_axioms(T.sort_of(ksort)),
        locals_=init_locals, modifies=['self'],
        ensures=init_post))
    return cs
