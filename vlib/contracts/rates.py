"""Sidecar contracts: EoN._get_rate_functions_ (EoN/__init__.py), _truncated_exponential_,
_find_trans_and_rec_delays_SIR_, _trans_and_rec_time_Markovian_const_trans_ (EoN/simulation.py). C01 / C11."""
import z3
from z3 import And, Or, Not, Implies, If, IntVal, RealVal, BoolVal
from ..pyvc import sorts as so
from ..pyvc.sorts import fresh, I, R, B
from ..pyvc.values import SList, SDict, SObj, NONE, PyConst, FuncRef, Callback, Closure, Unsupported, coerce
from ..pyvc.verify import Contract, Case, LoopSpec
from . import types as T

F = 'EoN/simulation.py'
FI = 'EoN/__init__.py'
TW, RW = 'tw', 'rw'


def rate_callbacks(G, tau, gamma, tw, rw):
    """caller view of _get_rate_functions_: the two returned rate functions"""
    def trans(run, args, kw, lineno):
        x, y = coerce(args[0], so.U()), coerce(args[1], so.U())
        if tw is NONE:
            return tau
        run.oblige('safety', 'edge-present', lineno, G.adj(x, y))
        return tau * G.ew(tw.v)(x, y)

    def rec(run, args, kw, lineno):
        x = coerce(args[0], so.U())
        if rw is NONE:
            return gamma
        return gamma * G.nw(rw.v)(x)
    return Callback('trans_rate_fxn', trans), Callback('rec_rate_fxn', rec)


def contracts():
    cs = []

    # ---------------------------------------------------------------- _get_rate_functions_
    def rf_post(old, s, ret):
        run = s.run
        if s.has('caller_view'):
            return BoolVal(True)          # caller view: the returned call-backs (make_ret) ARE the specification
        if not (isinstance(ret, tuple) and len(ret) == 2 and all(isinstance(x, Closure) for x in ret)):
            return BoolVal(False)
        G = old.G
        x, y = fresh('x', so.U()), fresh('y', so.U())
        saved = len(run.temp_assume)
        run.temp_assume.append(G.adj(x, y))
        try:
            tv = run.call_closure(ret[0], [x, y], {}, 0)
            rv = run.call_closure(ret[1], [x], {}, 0)
        finally:
            del run.temp_assume[saved:]
        want_t = old.tau if old.transmission_weight is NONE else old.tau * G.ew(old.transmission_weight.v)(x, y)
        want_r = old.gamma if old.recovery_weight is NONE else old.gamma * G.nw(old.recovery_weight.v)(x)
        return And(Implies(G.adj(x, y), tv == want_t), rv == want_r)

    def rf_cases():
        out = []
        for nm, tw, rw in (('unweighted', None, None), ('weighted', TW, RW), ('edge-weighted', TW, None), ('node-weighted', None, RW)):
            out.append(Case(nm, dict(G=T.graph(weight_labels=(TW,) if tw else (), node_labels=(RW,) if rw else ()),
                                     tau=T.real, gamma=T.real,
                                     transmission_weight=T.pyconst(tw) if tw else T.none,
                                     recovery_weight=T.pyconst(rw) if rw else T.none)))
        return out

    cs.append(Contract(FI, '_get_rate_functions_', cases=rf_cases(),
        make_ret=lambda run, s: rate_callbacks(s.G, s.tau, s.gamma, s.transmission_weight, s.recovery_weight),
        ensures=rf_post))

    # ---------------------------------------------------------------- _truncated_exponential_
    cs.append(Contract(F, '_truncated_exponential_',
        cases=[Case('any', dict(rate=T.real, T=T.real))],
        requires=lambda s: And(s.rate > 0, s.T > 0),
        make_ret=lambda run, s: fresh('trunc', R),
        sites={('random.expovariate', 0): lambda s, info: info['rate'] == s.rate},
        sites_strict=('random.expovariate', 'random.random'),
        ensures=lambda old, s, ret: And(ret >= 0, ret < old.T)))

    # ---------------------------------------------------------------- _find_trans_and_rec_delays_SIR_
    UA = (PyConst('ta0'), PyConst('ta1'))
    RA = (PyConst('ra0'),)

    def tt_fun():
        return z3.Function('user_trans_delay_%d' % so.Mode.gen, so.U(), so.U(), so.XR())

    def rt_fun():
        return z3.Function('user_rec_delay_%d' % so.Mode.gen, so.U(), so.XR())

    def mk_trans_cb(run, name, **kw):
        def fn(run2, args, kw2, lineno):
            ok = (len(args) == 2 + len(UA) and not kw2 and all(a is b for a, b in zip(args[2:], UA))
                  and z3.is_expr(args[0]) and z3.is_expr(args[1]))
            run2.oblige('site', 'callback-args:trans_time_fxn', lineno,
                        And(args[0] == run2.local('node'), args[1] == run2.local('target')) if ok else BoolVal(False))
            if not ok:
                return fresh('delay', so.XR())
            return tt_fun()(args[0], args[1])
        return Callback('trans_time_fxn', fn)

    def mk_rec_cb(run, name, **kw):
        def fn(run2, args, kw2, lineno):
            ok = (len(args) == 1 + len(RA) and not kw2 and all(a is b for a, b in zip(args[1:], RA)) and z3.is_expr(args[0]))
            run2.oblige('site', 'callback-args:rec_time_fxn', lineno, (args[0] == run2.local('node')) if ok else BoolVal(False))
            if not ok:
                return fresh('dur', so.XR())
            return rt_fun()(args[0])
        return Callback('rec_time_fxn', fn)

    def fd_post(old, s, ret):
        if not (isinstance(ret, tuple) and len(ret) == 2 and isinstance(ret[0], SDict)):
            return BoolVal(False)
        td, rd = ret
        sus = old.sus_neighbors
        return And(rd == rt_fun()(old.node),
                   so.forall(so.U(), lambda x: td.dom[x] == sus.contains(x)),
                   so.forall(so.U(), lambda x: Implies(td.dom[x], td.val[x] == tt_fun()(old.node, x))))

    def fd_inv(s, it):
        td = s.trans_delay
        return And(so.forall(so.U(), lambda x: td.dom[x] == it.done(x)),
                   so.forall(so.U(), lambda x: Implies(td.dom[x], td.val[x] == tt_fun()(s.node, x))))

    cs.append(Contract(F, '_find_trans_and_rec_delays_SIR_',
        cases=[Case('any', dict(node=T.node, sus_neighbors=T.list_of('U'), trans_time_fxn=mk_trans_cb, rec_time_fxn=mk_rec_cb,
                                trans_time_args=T.const(UA), rec_time_args=T.const(RA)))],
        locals_={'trans_delay': T.dict_of('U', 'XR')}, loops={0: fd_inv}, ensures=fd_post))

    # ---------------------------------------------------------------- _trans_and_rec_time_Markovian_const_trans_
    def rr_fun():
        return z3.Function('rec_rate_%d' % so.Mode.gen, so.U(), R)

    def mk_rr(run, name, **kw):
        return Callback('rec_rate_fxn', lambda run2, args, kw2, lineno: rr_fun()(coerce(args[0], so.U())))

    def ct_post(old, s, ret):
        if not (isinstance(ret, tuple) and len(ret) == 2 and isinstance(ret[0], SDict)):
            return BoolVal(False)
        td, dur = ret
        sus = old.sus_neighbors
        return And(dur >= 0,
                   so.forall(so.U(), lambda x: Implies(td.dom[x], And(sus.memberf(x), td.val[x] >= 0, td.val[x] < dur))))

    def ct_inv(s, it):
        td = s.trans_delay
        dur = s.duration
        sus = s.sus_neighbors
        return And(so.forall(so.U(), lambda x: Implies(td.dom[x], And(sus.memberf(x), td.val[x] >= 0, td.val[x] < dur))))

    cs.append(Contract(F, '_trans_and_rec_time_Markovian_const_trans_',
        cases=[Case('any', dict(node=T.node, sus_neighbors=T.distinct_list('U'), tau=T.real, rec_rate_fxn=mk_rr))],
        requires=lambda s: And(s.tau > 0, rr_fun()(s.node) > 0),
        locals_={'trans_delay': T.dict_of('U', 'R')}, loops={0: ct_inv},
        sites={('random.expovariate', 0): lambda s, info: info['rate'] == rr_fun()(s.node),
               ('np.random.binomial', 0): lambda s, info: And(info['n'] == s.sus_neighbors.n,
                                                              info['p'] == 1 - z3.Function('exp', R, R)(-s.tau * s.duration)),
               ('random.sample', 0): lambda s, info: And(info['pop'].n == s.sus_neighbors.n, info['pop'].a == s.sus_neighbors.a,
                                                         info['k'] == s.number_to_infect)},
        sites_strict=('random.expovariate', 'random.random', 'random.sample', 'np.random.binomial', 'random.choice'),
        ensures=ct_post))
    return cs
