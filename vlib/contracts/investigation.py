"""Sidecar contracts for _transform_to_node_history_ (EoN/simulation.py, SIR branch) - properties C10, C05."""
import z3
from z3 import And, Or, Not, Implies, If, IntVal, RealVal, BoolVal
from ..pyvc import sorts as so
from ..pyvc.sorts import fresh, I, R, B
from ..pyvc.values import SList, SDict, NONE, SHistory
from ..pyvc.verify import Contract, Case, LoopSpec
from . import types as T

F = 'EoN/simulation.py'


def SC(x):
    return so.S['status_const'][x]


def entry(h, x, j, t, s):
    return And(h.times.vals[x][j] == t, h.stats.vals[x][j] == s)


def hist_is(h, x, tmin, inf, ti, rec, tr, upto_rec=True):
    """history of node x after the infection loop (upto_rec False) / after both loops"""
    base_len = If(And(inf, ti == tmin), 0, 1)
    after_inf_len = If(inf, base_len + 1, IntVal(1))
    after_inf = And(h.times.lens[x] == after_inf_len,
                    Implies(Not(inf), entry(h, x, 0, tmin, SC('S'))),
                    Implies(And(inf, ti != tmin), And(entry(h, x, 0, tmin, SC('S')), entry(h, x, 1, ti, SC('I')))),
                    Implies(And(inf, ti == tmin), entry(h, x, 0, ti, SC('I'))))
    if not upto_rec:
        return after_inf
    reset = And(rec, tr == tmin, Not(inf))
    L = after_inf_len
    return If(Not(rec), after_inf,
              If(reset, And(h.times.lens[x] == 1, entry(h, x, 0, tr, SC('R'))),
                 And(h.times.lens[x] == L + 1, entry(h, x, L, tr, SC('R')),
                     Implies(Not(inf), entry(h, x, 0, tmin, SC('S'))),
                     Implies(And(inf, ti != tmin), And(entry(h, x, 0, tmin, SC('S')), entry(h, x, 1, ti, SC('I')))),
                     Implies(And(inf, ti == tmin), entry(h, x, 0, ti, SC('I'))))))


def _fresh_history(run, s):
    h = SHistory(s.tmin, 'node_history_ret')
    run.assume(h.wellformed())
    return h


def contracts():
    cs = []
    IT = T.dict_of('U', 'R')

    def inv_inf(s, it):
        h = s.node_history
        U = so.U()
        return And(h.wellformed(),
                   so.forall(U, lambda x: hist_is(h, x, s.tmin, And(s.infection_times.dom[x], it.done(x)), s.infection_times.val[x],
                                                  BoolVal(False), RealVal(0), upto_rec=False)))

    def inv_rec(s, it):
        h = s.node_history
        U = so.U()
        return And(h.wellformed(),
                   so.forall(U, lambda x: hist_is(h, x, s.tmin, s.infection_times.dom[x], s.infection_times.val[x],
                                                  And(s.recovery_times.dom[x], it.done(x)), s.recovery_times.val[x])))

    def post(old, s, ret):
        if not isinstance(ret, SHistory):
            return BoolVal(False)
        U = so.U()
        tmin = old.tmin
        it, rt = old.infection_times, old.recovery_times
        ok_shape = so.forall(U, lambda x: hist_is(ret, x, tmin, it.dom[x], it.val[x], rt.dom[x], rt.val[x]))
        # C10: under the linking precondition tmin <= t_inf <= t_rec every history starts at tmin, is time-ordered, makes legal moves
        link = so.forall(U, lambda x: And(Implies(it.dom[x], it.val[x] >= tmin), Implies(rt.dom[x], rt.val[x] >= tmin),
                                          Implies(And(it.dom[x], rt.dom[x]), it.val[x] <= rt.val[x])))
        wf = so.forall(U, lambda x: And(ret.times.lens[x] >= 1, ret.times.vals[x][0] == tmin,
                                        so.forall_idx(ret.times.lens[x] - 1, lambda j: ret.times.vals[x][j] <= ret.times.vals[x][j + 1]),
                                        so.forall_idx(ret.times.lens[x] - 1, lambda j: Or(
                                            And(ret.stats.vals[x][j] == SC('S'), ret.stats.vals[x][j + 1] == SC('I')),
                                            And(ret.stats.vals[x][j] == SC('I'), ret.stats.vals[x][j + 1] == SC('R')),
                                            And(ret.stats.vals[x][j] == SC('S'), ret.stats.vals[x][j + 1] == SC('R'), Not(it.dom[x]))))))
        return And(ok_shape, Implies(link, wf))

    cs.append(Contract(F, '_transform_to_node_history_',
        cases=[Case('SIR', dict(infection_times=IT, recovery_times=IT, tmin=T.real, SIR=T.true))],
        locals_={'node_history': T.history('tmin')},
        loops={0: inv_inf, 1: inv_rec},
        make_ret=lambda run, s: _fresh_history(run, s),
        ensures=post))
    return cs


# ---------------------------------------------------------------------------------------------------
# SIS branch: infection_times / recovery_times are dicts of lists, consumed with pop(0)
# NOT REGISTERED in any check: the outer-loop obligations discharge, the preservation of the inner `while Itimes` invariant (pop(0) =
# array shift under a lambda) stays `unknown` within the budgets, so nothing is claimed from this contract (DESIGN 9.11).
# ---------------------------------------------------------------------------------------------------
def sis_ok(IT0, x):
    """only the first recorded infection of x may be at tmin (a later one at tmin would make the code start the history again)"""
    return lambda tmin: so.forall_idx(IT0.lens[x], lambda i: IT0.vals[x][i] != tmin, lo=1)


def sis_alt(IT0, RT0, x):
    """every infection but possibly the last has its recovery recorded"""
    return IT0.lens[x] <= RT0.lens[x] + 1


def sis_hist_prefix(h, x, tmin, IT0, RT0, i, with_rec_of_last=True):
    """history of x after i infections of its list were consumed (and the recoveries that go with them)"""
    a, b = IT0.lens[x], RT0.lens[x]
    base = If(And(a >= 1, IT0.vals[x][0] == tmin), 0, 1)
    nrec = If(i <= b, i, b)
    if not with_rec_of_last:
        nrec = If(i - 1 <= b, i - 1, b)
    return And(h.times.lens[x] == base + i + nrec,
               Implies(base == 1, entry(h, x, 0, tmin, SC('S'))),
               so.forall_idx(i, lambda j: entry(h, x, base + 2 * j, IT0.vals[x][j], SC('I'))),
               so.forall_idx(nrec, lambda j: entry(h, x, base + 2 * j + 1, RT0.vals[x][j], SC('S'))))


def sis_contracts():
    DL = T.dict_of_lists('U', 'R')

    def inv_nodes(s, it):
        h = s.node_history
        U = so.U()
        IT0, RT0 = it.entry.infection_times, it.entry.recovery_times
        itc, rtc = s.infection_times, s.recovery_times
        return And(h.wellformed(),
                   so.forall(U, lambda x: Implies(And(sis_ok(IT0, x)(s.tmin), sis_alt(IT0, RT0, x)),
                       If(And(IT0.dom[x], it.done(x)),
                          sis_hist_prefix(h, x, s.tmin, IT0, RT0, IT0.lens[x]),
                          And(h.times.lens[x] == 1, entry(h, x, 0, s.tmin, SC('S')))))),
                   # lists not yet consumed are untouched
                   so.forall(U, lambda x: Implies(Not(it.done(x)), And(
                       itc.lens[x] == IT0.lens[x], rtc.lens[x] == RT0.lens[x],
                       so.forall_idx(IT0.lens[x], lambda j: itc.vals[x][j] == IT0.vals[x][j]),
                       so.forall_idx(RT0.lens[x], lambda j: rtc.vals[x][j] == RT0.vals[x][j])))),
                   so.forall(U, lambda x: And(IT0.lens[x] >= 0, RT0.lens[x] >= 0)))

    def inv_pops(s, it):
        h = s.node_history
        U = so.U()
        outer = it.outer
        IT0, RT0 = outer.entry.infection_times, outer.entry.recovery_times
        itc, rtc = s.infection_times, s.recovery_times
        x0 = s.node
        a, b = IT0.lens[x0], RT0.lens[x0]
        i = a - itc.lens[x0]
        nrec = If(i <= b, i, b)
        return And(h.wellformed(), Not(outer.done(x0)), IT0.dom[x0],
                   0 <= i, i <= a, rtc.lens[x0] == b - nrec,
                   so.forall_idx(itc.lens[x0], lambda j: itc.vals[x0][j] == IT0.vals[x0][i + j]),
                   so.forall_idx(rtc.lens[x0], lambda j: rtc.vals[x0][j] == RT0.vals[x0][nrec + j]),
                   # the side condition restated over what is left of the list (no index arithmetic into the entry list)
                   Implies(sis_ok(IT0, x0)(s.tmin), so.forall_idx(itc.lens[x0], lambda j: Implies(i + j >= 1, itc.vals[x0][j] != s.tmin))),
                   Implies(And(sis_ok(IT0, x0)(s.tmin), sis_alt(IT0, RT0, x0)),
                           If(i == 0, And(h.times.lens[x0] == 1, entry(h, x0, 0, s.tmin, SC('S'))),
                              sis_hist_prefix(h, x0, s.tmin, IT0, RT0, i))),
                   so.forall(U, lambda x: Implies(And(x != x0, sis_ok(IT0, x)(s.tmin), sis_alt(IT0, RT0, x)),
                       If(And(IT0.dom[x], outer.done(x)),
                          sis_hist_prefix(h, x, s.tmin, IT0, RT0, IT0.lens[x]),
                          And(h.times.lens[x] == 1, entry(h, x, 0, s.tmin, SC('S')))))),
                   so.forall(U, lambda x: Implies(And(x != x0, Not(outer.done(x))), And(
                       itc.lens[x] == IT0.lens[x], rtc.lens[x] == RT0.lens[x],
                       so.forall_idx(IT0.lens[x], lambda j: itc.vals[x][j] == IT0.vals[x][j]),
                       so.forall_idx(RT0.lens[x], lambda j: rtc.vals[x][j] == RT0.vals[x][j])))),
                   so.forall(U, lambda x: And(IT0.lens[x] >= 0, RT0.lens[x] >= 0)))

    def post(old, s, ret):
        if not isinstance(ret, SHistory):
            return BoolVal(False)
        U = so.U()
        IT0, RT0 = old.infection_times, old.recovery_times
        return so.forall(U, lambda x: Implies(And(sis_ok(IT0, x)(old.tmin), sis_alt(IT0, RT0, x)),
                   If(IT0.dom[x], sis_hist_prefix(ret, x, old.tmin, IT0, RT0, IT0.lens[x]),
                      And(ret.times.lens[x] == 1, entry(ret, x, 0, old.tmin, SC('S'))))))

    return [Contract(F, '_transform_to_node_history_',
        cases=[Case('SIS', dict(infection_times=DL, recovery_times=DL, tmin=T.real, SIR=T.false))],
        requires=lambda s: so.forall(so.U(), lambda x: And(s.infection_times.lens[x] >= 0, s.recovery_times.lens[x] >= 0,
                                                           Implies(Not(s.infection_times.dom[x]), s.infection_times.lens[x] == 0))),
        locals_={'node_history': T.history('tmin')},
        loops={2: inv_nodes, 3: inv_pops},
        make_ret=lambda run, s: _fresh_history(run, s),
        ensures=post)]
