"""Sidecar contracts for _transform_to_node_history_ (EoN/simulation.py, SIR branch) - properties C10, C05."""
import z3
from z3 import And, Or, Not, Implies, If, IntVal, RealVal, BoolVal
from ..pyvc import sorts as so
from ..pyvc.sorts import fresh, I, R, B
from ..pyvc.values import SList, SDict, NONE, SHistory
from ..pyvc.verify import Contract, Case, LoopSpec
from . import types as T

F = 'EoN/simulation.py'


def SC(x):
    return so.S['status_const'][x]


def entry(h, x, j, t, s):
    return And(h.times.vals[x][j] == t, h.stats.vals[x][j] == s)


def hist_is(h, x, tmin, inf, ti, rec, tr, upto_rec=True):
    """history of node x after the infection loop (upto_rec False) / after both loops"""
    base_len = If(And(inf, ti == tmin), 0, 1)
    after_inf_len = If(inf, base_len + 1, IntVal(1))
    after_inf = And(h.times.lens[x] == after_inf_len,
                    Implies(Not(inf), entry(h, x, 0, tmin, SC('S'))),
                    Implies(And(inf, ti != tmin), And(entry(h, x, 0, tmin, SC('S')), entry(h, x, 1, ti, SC('I')))),
                    Implies(And(inf, ti == tmin), entry(h, x, 0, ti, SC('I'))))
    if not upto_rec:
        return after_inf
    reset = And(rec, tr == tmin, Not(inf))
    L = after_inf_len
    return If(Not(rec), after_inf,
              If(reset, And(h.times.lens[x] == 1, entry(h, x, 0, tr, SC('R'))),
                 And(h.times.lens[x] == L + 1, entry(h, x, L, tr, SC('R')),
                     Implies(Not(inf), entry(h, x, 0, tmin, SC('S'))),
                     Implies(And(inf, ti != tmin), And(entry(h, x, 0, tmin, SC('S')), entry(h, x, 1, ti, SC('I')))),
                     Implies(And(inf, ti == tmin), entry(h, x, 0, ti, SC('I'))))))


def _fresh_history(run, s):
    h = SHistory(s.tmin, 'node_history_ret')
    run.assume(h.wellformed())
    return h


def contracts():
    cs = []
    IT = T.dict_of('U', 'R')

    def inv_inf(s, it):
        h = s.node_history
        U = so.U()
        return And(h.wellformed(),
                   so.forall(U, lambda x: hist_is(h, x, s.tmin, And(s.infection_times.dom[x], it.done(x)), s.infection_times.val[x],
                                                  BoolVal(False), RealVal(0), upto_rec=False)))

    def inv_rec(s, it):
        h = s.node_history
        U = so.U()
        return And(h.wellformed(),
                   so.forall(U, lambda x: hist_is(h, x, s.tmin, s.infection_times.dom[x], s.infection_times.val[x],
                                                  And(s.recovery_times.dom[x], it.done(x)), s.recovery_times.val[x])))

    def post(old, s, ret):
        if not isinstance(ret, SHistory):
            return BoolVal(False)
        U = so.U()
        tmin = old.tmin
        it, rt = old.infection_times, old.recovery_times
        ok_shape = so.forall(U, lambda x: hist_is(ret, x, tmin, it.dom[x], it.val[x], rt.dom[x], rt.val[x]))
        # C10: under the linking precondition tmin <= t_inf <= t_rec every history starts at tmin, is time-ordered, makes legal moves
        link = so.forall(U, lambda x: And(Implies(it.dom[x], it.val[x] >= tmin), Implies(rt.dom[x], rt.val[x] >= tmin),
                                          Implies(And(it.dom[x], rt.dom[x]), it.val[x] <= rt.val[x])))
        wf = so.forall(U, lambda x: And(ret.times.lens[x] >= 1, ret.times.vals[x][0] == tmin,
                                        so.forall_idx(ret.times.lens[x] - 1, lambda j: ret.times.vals[x][j] <= ret.times.vals[x][j + 1]),
                                        so.forall_idx(ret.times.lens[x] - 1, lambda j: Or(
                                            And(ret.stats.vals[x][j] == SC('S'), ret.stats.vals[x][j + 1] == SC('I')),
                                            And(ret.stats.vals[x][j] == SC('I'), ret.stats.vals[x][j + 1] == SC('R')),
                                            And(ret.stats.vals[x][j] == SC('S'), ret.stats.vals[x][j + 1] == SC('R'), Not(it.dom[x]))))))
        return And(ok_shape, Implies(link, wf))

    cs.append(Contract(F, '_transform_to_node_history_',
        cases=[Case('SIR', dict(infection_times=IT, recovery_times=IT, tmin=T.real, SIR=T.true))],
        locals_={'node_history': T.history('tmin')},
        loops={0: inv_inf, 1: inv_rec},
        make_ret=lambda run, s: _fresh_history(run, s),
        ensures=post))
    return cs
