"""Gillespie_SIR with return_full_data=True (EoN/simulation.py): what is recorded for the Simulation_Investigation object.
Properties C09 (transmissions causally valid and complete, forest) and C10 (node histories consistent with the trajectory).

The plain-array invariants of gillespie.py are kept; on top of them the main loop carries FULL:
  per node   infection_times / recovery_times hold at most one time each; status S <=> neither, I <=> infected only,
             R <=> recovered; tmin <= infection <= recovery <= current time
  per entry  the first k entries are the initial infections (tmin, None, u_j); every later entry (t, u, v) goes along an
             edge, v's infection time is t, u was infected not after t and has not recovered before t; times are
             non-decreasing; no node is the target of two entries; #entries = k + number of infections so far
and the value handed to Simulation_Investigation is that transmission list together with the histories built by
_transform_to_node_history_ (its contract: C10) from exactly these two dictionaries."""
import z3
from z3 import And, Or, Not, Implies, If, IntVal, RealVal, BoolVal
from ..pyvc import sorts as so
from ..pyvc.sorts import fresh, I, R, B, cnt
from ..pyvc.values import SList, SDict, SObj, NONE, PyConst, SHistory
from ..pyvc.verify import Contract, Case, LoopSpec
from . import types as T
from . import gillespie as Gi
from . import investigation as Inv

F = 'EoN/simulation.py'
SC = Gi.SC


class Acc:
    """the recorded infection / recovery time of a node, read from the dict-of-lists kept during the run (lists of length <= 1)
    or from the plain dicts {node: L[0]} built from them at the end"""

    def __init__(self, s):
        it, rt = s.infection_times, s.recovery_times
        self.lists = hasattr(it, 'lens')
        if self.lists:
            self.ihas, self.ifirst = (lambda x: it.lens[x] == 1), (lambda x: it.vals[x][0])
            self.rhas, self.rfirst = (lambda x: rt.lens[x] == 1), (lambda x: rt.vals[x][0])
            self.shape = lambda x: And(it.dom[x] == (it.lens[x] >= 1), rt.dom[x] == (rt.lens[x] >= 1),
                                       it.lens[x] >= 0, it.lens[x] <= 1, rt.lens[x] >= 0, rt.lens[x] <= 1)
        else:
            self.ihas, self.ifirst = (lambda x: it.dom[x]), (lambda x: it.val[x])
            self.rhas, self.rfirst = (lambda x: rt.dom[x]), (lambda x: rt.val[x])
            self.shape = lambda x: BoolVal(True)


def per_node(s, now):
    a = Acc(s)
    stv = s.status.val
    tmin = s.old.tmin
    U = so.U()
    return so.forall(U, lambda x: And(
        a.shape(x),
        (stv[x] == SC('S')) == And(Not(a.ihas(x)), Not(a.rhas(x))),
        (stv[x] == SC('I')) == And(a.ihas(x), Not(a.rhas(x))),
        Implies(a.ihas(x), And(tmin <= a.ifirst(x), a.ifirst(x) <= now)),
        Implies(a.rhas(x), And(tmin <= a.rfirst(x), a.rfirst(x) <= now)),
        Implies(And(a.ihas(x), a.rhas(x)), a.ifirst(x) <= a.rfirst(x))))


def entries(s, now, n_inf):
    a = Acc(s)
    Tr = s.transmissions
    TD = Tr.esort.D
    II = s.initial_infecteds
    k = II.n
    G = s.G
    tmin = s.old.tmin
    e = lambda j: Tr.a[j]
    return And(
        Tr.n == k + n_inf, n_inf >= 0, tmin <= now,
        so.forall_idx(Tr.n, lambda j: And(
            TD.has_src(e(j)) == (j >= k),
            a.ihas(TD.tgt(e(j))), a.ifirst(TD.tgt(e(j))) == TD.time(e(j)),
            tmin <= TD.time(e(j)), TD.time(e(j)) <= now,
            Implies(j < k, And(TD.tgt(e(j)) == II.a[j], TD.time(e(j)) == tmin)),
            Implies(j >= k, And(G.adj(TD.src(e(j)), TD.tgt(e(j))),
                                a.ihas(TD.src(e(j))), a.ifirst(TD.src(e(j))) <= TD.time(e(j)),
                                Implies(a.rhas(TD.src(e(j))), TD.time(e(j)) <= a.rfirst(TD.src(e(j)))))))),
        so.forall_idx(Tr.n - 1, lambda j: TD.time(e(j)) <= TD.time(e(j + 1))),
        so.forall_idx(Tr.n, lambda j: so.forall_idx(Tr.n, lambda j2: Implies(j != j2, TD.tgt(e(j)) != TD.tgt(e(j2))))))


def inv_loop0(s, it_):
    """initial infecteds: status, infection time tmin, entry (tmin, None, node)"""
    it, rt = s.infection_times, s.recovery_times
    Tr = s.transmissions
    TD = Tr.esort.D
    II = s.initial_infecteds
    tmin = s.old.tmin
    U = so.U()
    return And(Gi.sir_inv_loop0(s, it_),
               Tr.n == it_.i,
               so.forall_idx(Tr.n, lambda j: And(Not(TD.has_src(Tr.a[j])), TD.tgt(Tr.a[j]) == II.a[j], TD.time(Tr.a[j]) == tmin)),
               so.forall(U, lambda x: And(it.dom[x] == it_.done(x), it.lens[x] == If(it_.done(x), 1, 0),
                                          Implies(it_.done(x), it.vals[x][0] == tmin),
                                          Not(rt.dom[x]), rt.lens[x] == 0)))


def init_entries(s):
    it = s.infection_times
    Tr = s.transmissions
    TD = Tr.esort.D
    II = s.initial_infecteds
    tmin = s.old.tmin
    inf = Gi.is_init_inf(s)
    return And(Tr.n == II.n,
               so.forall_idx(Tr.n, lambda j: And(Not(TD.has_src(Tr.a[j])), TD.tgt(Tr.a[j]) == II.a[j], TD.time(Tr.a[j]) == tmin)),
               so.forall(so.U(), lambda x: And(it.dom[x] == inf(x), it.lens[x] == If(inf(x), 1, 0), Implies(inf(x), it.vals[x][0] == tmin))))


def inv_loop1(s, it_):
    """initial recovereds: status R, recovery time tmin"""
    rt = s.recovery_times
    tmin = s.old.tmin
    return And(Gi.sir_inv_loop1(s, it_), init_entries(s),
               so.forall(so.U(), lambda x: And(rt.dom[x] == it_.done(x), rt.lens[x] == If(it_.done(x), 1, 0),
                                               Implies(it_.done(x), rt.vals[x][0] == tmin))))


def inv_main(s, it_):
    now = s.times.last()
    return And(Gi.sir_main_inv(s, it_), per_node(s, now), entries(s, now, s.S.a[0] - s.S.last()))


def inv_rec_nbrs(s, it_):
    # status / recovery time of the recovering node are already updated, the row is appended after the neighbour loop
    now = so.xr_val(s.t)
    return And(Gi.sir_inv_rec_nbrs(s, it_), per_node(s, now), entries(s, now, s.S.a[0] - s.S.last()))


def inv_trans_nbrs(s, it_):
    now = so.xr_val(s.t)
    return And(Gi.sir_inv_trans_nbrs(s, it_), per_node(s, now), entries(s, now, s.S.a[0] - s.S.last() + 1))


def _is_statuses(ps, want):
    """the literal list of status labels handed to the constructor"""
    if isinstance(ps, SList):
        n = z3.simplify(ps.n)
        if not z3.is_int_value(n) or n.as_long() != len(want):
            return False
        return all(z3.is_true(z3.simplify(ps.a[i] == SC(w))) for i, w in enumerate(want))
    if isinstance(ps, (list, tuple)) and len(ps) == len(want):
        ok = True
        for x, w in zip(ps, want):
            if isinstance(x, PyConst):
                ok = ok and x.v == w
            elif z3.is_expr(x):
                ok = ok and z3.is_true(z3.simplify(x == SC(w)))
            else:
                ok = False
        return ok
    return False


def post(old, s, ret):
    """what is handed to Simulation_Investigation"""
    if not (isinstance(ret, SObj) and ret.cls == 'Simulation_Investigation'):
        return BoolVal(False)
    a = ret.f.get('ctor_args')
    kw = ret.f.get('ctor_kwargs') or {}
    if not (isinstance(a, tuple) and len(a) == 3):
        return BoolVal(False)
    Gv, hist, trans = a
    if Gv is not old.G or trans is not s.transmissions or not isinstance(hist, SHistory):
        return BoolVal(False)
    ps = kw.get('possible_statuses')
    now = s.times.last()
    a = Acc(s)
    U = so.U()
    # C10: each history is the one _transform_to_node_history_ builds from (infection time, recovery time) of that node
    shape = so.forall(U, lambda x: Inv.hist_is(hist, x, old.tmin, a.ihas(x), a.ifirst(x), a.rhas(x), a.rfirst(x)))
    return And(per_node(s, now), entries(s, now, s.S.a[0] - s.S.last()), shape,
               BoolVal(_is_statuses(ps, ['S', 'I', 'R'])))


def sim_investigation_ctor(run, args, kw, lineno):
    """assumed contract of the Simulation_Investigation constructor as far as the simulators are concerned: the object keeps what it
    is given (the constructor's own binding onto its signature is the constructor-binding obligation of C09 / C10)"""
    return SObj('Simulation_Investigation', dict(ctor_args=tuple(args), ctor_kwargs=dict(kw)), name='full_data')


# ---------------------------------------------------------------------------------------------------
# Gillespie_SIS with return_full_data=True
# ---------------------------------------------------------------------------------------------------
# infection_times[x] / recovery_times[x] are lists of unbounded length.  Per node (PN): they alternate
#   it[0] <= rt[0] <= it[1] <= rt[1] <= ...  inside [tmin, now],  status S <=> equally long, I <=> one more infection.
# Per entry (ENT): the first k entries are the initial infections; every later entry j = (t, u, v) goes along an edge and
# names, through the GHOST index maps ghost_pt / ghost_ps (entry index -> position in the infection list of v / of u),
# the infection of v that happened at t and an infection of u at or before t that had not ended before t.  Different
# entries name different infections, and #entries - k = #infection events (from the rows: each event moves I by +-1).

def sis_pn(s, now):
    it, rt = s.infection_times, s.recovery_times
    stv = s.status.val
    tmin = s.old.tmin
    inf0 = Gi.is_init_inf(s)

    def one(x):
        a, b = it.lens[x], rt.lens[x]
        return And(a >= 0, b >= 0, it.dom[x] == (a >= 1), rt.dom[x] == (b >= 1),
                   (stv[x] == SC('S')) == (a == b), (stv[x] == SC('I')) == (a == b + 1),
                   Implies(inf0(x), And(a >= 1, it.vals[x][0] == tmin)),
                   so.forall_idx(a, lambda i: And(tmin <= it.vals[x][i], it.vals[x][i] <= now)),
                   so.forall_idx(b, lambda i: And(it.vals[x][i] <= rt.vals[x][i], rt.vals[x][i] <= now)),
                   so.forall_idx(a - 1, lambda i: rt.vals[x][i] <= it.vals[x][i + 1]))
    return so.forall(so.U(), one)


def sis_entry_named(s, j):
    """the ghost maps name the infection of the target at that time and an infection of the source covering that time"""
    it, rt = s.infection_times, s.recovery_times
    Tr = s.transmissions
    TD = Tr.esort.D
    e = Tr.a[j]
    u, v, t = TD.src(e), TD.tgt(e), TD.time(e)
    p, q = s.ghost_pt.val[j], s.ghost_ps.val[j]
    return And(0 <= p, p < it.lens[v], it.vals[v][p] == t, Implies(Gi.is_init_inf(s)(v), p >= 1),
               0 <= q, q < it.lens[u], it.vals[u][q] <= t, Implies(q < rt.lens[u], t <= rt.vals[u][q]))


def sis_ent(s, now, upto):
    it = s.infection_times
    Tr = s.transmissions
    TD = Tr.esort.D
    II = s.initial_infecteds
    k = II.n
    G = s.G
    tmin = s.old.tmin
    e = lambda j: Tr.a[j]
    return And(
        Tr.n >= k, tmin <= now,
        so.forall_idx(Tr.n, lambda j: And(
            TD.has_src(e(j)) == (j >= k), tmin <= TD.time(e(j)), TD.time(e(j)) <= now,
            Implies(j < k, And(TD.tgt(e(j)) == II.a[j], TD.time(e(j)) == tmin)),
            Implies(j >= k, G.adj(TD.src(e(j)), TD.tgt(e(j)))))),
        so.forall_idx(upto, lambda j: sis_entry_named(s, j), lo=k),
        so.forall_idx(Tr.n - 1, lambda j: TD.time(e(j)) <= TD.time(e(j + 1))),
        so.forall_idx(upto, lambda j: so.forall_idx(upto, lambda j2: Implies(
            And(j != j2, TD.tgt(e(j)) == TD.tgt(e(j2))), s.ghost_pt.val[j] != s.ghost_pt.val[j2]), lo=k), lo=k))


def sis_count(s):
    """#sourced entries = #infection events so far: every row moves I by +1 (infection) or -1 (recovery)"""
    return 2 * (s.transmissions.n - s.initial_infecteds.n) == (s.times.n - 1) + (s.I.last() - s.I.a[0])


def sis_inv_loop0(s, it_):
    it, rt = s.infection_times, s.recovery_times
    Tr = s.transmissions
    TD = Tr.esort.D
    II = s.initial_infecteds
    tmin = s.old.tmin
    U = so.U()
    return And(Gi.sis_inv_loop0(s, it_),
               Tr.n == it_.i,
               so.forall_idx(Tr.n, lambda j: And(Not(TD.has_src(Tr.a[j])), TD.tgt(Tr.a[j]) == II.a[j], TD.time(Tr.a[j]) == tmin)),
               so.forall(U, lambda x: And(it.dom[x] == it_.done(x), it.lens[x] == If(it_.done(x), 1, 0),
                                          Implies(it_.done(x), it.vals[x][0] == tmin),
                                          Not(rt.dom[x]), rt.lens[x] == 0)))


def sis_inv_main(s, it_):
    now = s.times.last()
    return And(Gi.sis_main_inv(s, it_), sis_pn(s, now), sis_ent(s, now, s.transmissions.n), sis_count(s))


def sis_ghost_update(s, it_):
    """a pass that appended an entry (t, u, v): it names the newest infection of v and the current infection of u"""
    it = s.infection_times
    Tr = s.transmissions
    TD = Tr.esort.D
    grew = Tr.n == it_.head.transmissions.n + 1
    j = Tr.n - 1
    e = Tr.a[j]
    pt, ps = s.ghost_pt, s.ghost_ps
    pt.val = If(grew, z3.Store(pt.val, j, it.lens[TD.tgt(e)] - 1), pt.val)
    ps.val = If(grew, z3.Store(ps.val, j, it.lens[TD.src(e)] - 1), ps.val)


class _NodeHistorySIS:
    """opaque result of _transform_to_node_history_(..., SIR=False): the SIS branch of that function is NOT under contract
    (bounded native stand-in only); what is decided here is which objects it is given"""

    def __init__(self, bound):
        self.bound = bound


def sis_post(old, s, ret):
    if not (isinstance(ret, SObj) and ret.cls == 'Simulation_Investigation'):
        return BoolVal(False)
    a = ret.f.get('ctor_args')
    kw = ret.f.get('ctor_kwargs') or {}
    if not (isinstance(a, tuple) and len(a) == 3):
        return BoolVal(False)
    Gv, hist, trans = a
    if Gv is not old.G or trans is not s.transmissions or not isinstance(hist, _NodeHistorySIS):
        return BoolVal(False)
    b = hist.bound
    sir = b.get('SIR')
    handed = (b.get('infection_times') is s.infection_times and b.get('recovery_times') is s.recovery_times
              and z3.is_expr(sir) and z3.is_false(z3.simplify(sir))
              and z3.is_expr(b.get('tmin')) and z3.is_true(z3.simplify(b.get('tmin') == old.tmin)))
    now = s.times.last()
    return And(BoolVal(bool(handed)), sis_pn(s, now), sis_ent(s, now, s.transmissions.n), sis_count(s),
               BoolVal(_is_statuses(kw.get('possible_statuses'), ['S', 'I'])))


def sis_contracts():
    cs = []
    base = {c.qualname: c for c in Gi.contracts()}
    for q, c in base.items():
        if q not in ('Gillespie_SIS', 'Gillespie_SIR'):
            c.verify = False
            cs.append(c)
    cs.append(Contract(F, '_transform_to_node_history_', cases=[], verify=False,
                       make_ret=lambda run, sv: _NodeHistorySIS({k: getattr(sv, k) for k in ('infection_times', 'recovery_times', 'tmin', 'SIR')}),
                       note='assumed: opaque result for SIR=False'))
    g = base['Gillespie_SIS']
    cases = [x for x in Gi.gillespie_cases(sir=False, full=True) if x.name in ('list-unweighted', 'list-weighted', 'node-unweighted', 'rho-unweighted', 'default-unweighted')]
    cs.append(Contract(F, 'Gillespie_SIS', cases=cases, requires=g.requires, axioms=g.axioms,
        loops={0: sis_inv_loop0, 1: g.loops[1], 2: g.loops[2],
               3: LoopSpec(sis_inv_main, lemmas=Gi.sum_lemmas, havoc_names=('ghost_pt', 'ghost_ps'), ghost_update=sis_ghost_update),
               4: g.loops[4], 5: g.loops[5]},
        sites=g.sites, sites_strict=g.sites_strict, locals_=g.locals_, local_sorts=g.local_sorts,
        ghost_locals={'ghost_pt': T.dict_of('I', 'I'), 'ghost_ps': T.dict_of('I', 'I')},
        ensures=sis_post))
    return cs


def install(lib):
    lib.extra_mod['EoN.Simulation_Investigation'] = sim_investigation_ctor


def contracts():
    cs = []
    base = {c.qualname: c for c in Gi.contracts()}
    for q, c in base.items():
        if q != 'Gillespie_SIR':
            c.verify = False
            cs.append(c)
    for c in Inv.contracts():
        c.verify = False
        cs.append(c)
    g = base['Gillespie_SIR']
    cases = [x for x in Gi.gillespie_cases(sir=True, full=True) if x.name in ('list-unweighted', 'list-weighted', 'list-norecovered-unweighted', 'node-unweighted', 'rho-unweighted', 'default-unweighted')]
    cs.append(Contract(F, 'Gillespie_SIR', cases=cases, requires=g.requires, axioms=g.axioms,
        loops={0: inv_loop0, 1: inv_loop1, 2: g.loops[2], 3: g.loops[3],
               4: LoopSpec(inv_main, lemmas=Gi.sum_lemmas), 5: inv_rec_nbrs, 6: inv_trans_nbrs},
        sites=g.sites, sites_strict=g.sites_strict, locals_=g.locals_, local_sorts=g.local_sorts,
        ensures=post))
    return cs
