"""Sidecar contract for _find_trans_and_rec_delays_SIS_ (EoN/simulation.py): the adapter that turns the two user rules of
fast_nonMarkov_SIS (duration of a node; list of transmission delays for an ordered pair given that duration) into the joint
rule the event handler consumes.  Property C13 (the part within reach of the VC generator)."""
import z3
from z3 import And, Or, Not, Implies, If, IntVal, RealVal, BoolVal
from ..pyvc import sorts as so
from ..pyvc.sorts import fresh, I, R, B
from ..pyvc.values import SList, SDict, NONE, PyConst, Callback
from ..pyvc.verify import Contract, Case
from . import types as T

F = 'EoN/simulation.py'
UA = (PyConst('ta0'), PyConst('ta1'))
RA = (PyConst('ra0'),)


def dur_fun():
    return z3.Function('user_duration_%d' % so.Mode.gen, so.U(), so.XR())


def lst_fun():
    # the user's answer (a list of delays) is opaque here: an identifier of the list returned for (node, neighbour, duration)
    return z3.Function('user_delay_list_%d' % so.Mode.gen, so.U(), so.U(), so.XR(), I)


def contracts():
    cs = []

    def mk_rec_cb(run, name, **kw):
        def fn(run2, args, kw2, lineno):
            ok = (len(args) == 1 + len(RA) and not kw2 and all(a is b for a, b in zip(args[1:], RA)) and z3.is_expr(args[0]))
            run2.oblige('site', 'callback-args:rec_time_fxn', lineno, (args[0] == run2.local('node')) if ok else BoolVal(False))
            run2.ghost.setdefault('calls', []).append('rec')
            return dur_fun()(args[0]) if ok else fresh('dur', so.XR())
        return Callback('rec_time_fxn', fn)

    def mk_trans_cb(run, name, **kw):
        def fn(run2, args, kw2, lineno):
            ok = (len(args) == 3 + len(UA) and not kw2 and all(a is b for a, b in zip(args[3:], UA))
                  and z3.is_expr(args[0]) and z3.is_expr(args[1]) and z3.is_expr(args[2]))
            # asked about (this node, the neighbour being filled in, the duration just drawn for this node) - after the duration rule
            # (that the second argument is the neighbour being filled in is what the postcondition says: the entry of x is the answer for x)
            run2.oblige('site', 'callback-args:trans_time_fxn', lineno,
                        And(args[0] == run2.local('node'), so.to_xr(args[2]) == so.to_xr(run2.local('rec_delay'))) if ok else BoolVal(False))
            run2.oblige('site', 'duration-rule-asked-first', lineno, BoolVal(run2.ghost.get('calls', [])[:1] == ['rec']))
            run2.ghost.setdefault('calls', []).append('trans')
            return lst_fun()(args[0], args[1], so.to_xr(args[2])) if ok else fresh('lst', I)
        return Callback('trans_time_fxn', fn)

    def post(old, s, ret):
        if not (isinstance(ret, tuple) and len(ret) == 2 and isinstance(ret[0], SDict)):
            return BoolVal(False)
        td, rd = ret
        nb = old.neighbors
        rd = so.to_xr(rd)
        ncalls = s.run.ghost.get('calls', [])
        return And(rd == dur_fun()(old.node),
                   so.forall(so.U(), lambda x: td.dom[x] == nb.contains(x)),
                   so.forall(so.U(), lambda x: Implies(td.dom[x], td.val[x] == lst_fun()(old.node, x, rd))),
                   BoolVal(ncalls.count('rec') == 1))          # the duration is drawn exactly once per infection

    def inv(s, it):
        td = s.trans_delays
        rd = so.to_xr(s.rec_delay)
        return And(rd == dur_fun()(s.node),
                   so.forall(so.U(), lambda x: td.dom[x] == it.done(x)),
                   so.forall(so.U(), lambda x: Implies(td.dom[x], td.val[x] == lst_fun()(s.node, x, rd))))

    cs.append(Contract(F, '_find_trans_and_rec_delays_SIS_',
        cases=[Case('any', dict(node=T.node, neighbors=T.list_of('U'), trans_time_fxn=mk_trans_cb, rec_time_fxn=mk_rec_cb,
                                trans_time_args=T.const(UA), rec_time_args=T.const(RA)))],
        locals_={'trans_delays': T.dict_of('U', 'I')}, loops={0: inv}, ensures=post))
    return cs
