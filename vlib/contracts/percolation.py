"""Sidecar contracts for the percolation builders and estimators of EoN/simulation.py (C11, C12, C17):
percolate_network, nonMarkov_directed_percolate_network_with_timing, nonMarkov_directed_percolate_network,
_out_component_, _in_component_, estimate_SIR_prob_size_from_dir_perc, estimate_SIR_prob_size."""
import z3
from z3 import And, Or, Not, Implies, If, IntVal, RealVal, BoolVal
from ..pyvc import sorts as so
from ..pyvc.sorts import fresh, I, R, B, cnt
from ..pyvc.values import SList, SDict, SSet, SObj, NONE, PyConst, FuncRef, Callback, Unsupported, coerce
from ..pyvc.lib import SGraph, SGraphB, reach_fun
from ..pyvc.verify import Contract, Case, LoopSpec
from . import types as T

F = 'EoN/simulation.py'
TA = (PyConst('ta0'),)
RA = (PyConst('ra0'),)
mk = lambda a, b: so.mkpair(a, b)


def DUR():
    return z3.Function('user_duration_%d' % so.Mode.gen, so.U(), so.XR())


def DEL():
    return z3.Function('user_delay_%d' % so.Mode.gen, so.U(), so.U(), so.XR())


def cb_trans(run, name, **kw):
    def fn(run2, args, kw2, lineno):
        ok = len(args) == 2 + len(TA) and not kw2 and all(a is b for a, b in zip(args[2:], TA)) and z3.is_expr(args[0]) and z3.is_expr(args[1])
        run2.oblige('site', 'callback-args:trans_time_fxn', lineno,
                    And(args[0] == run2.local('u'), args[1] == run2.local('v')) if ok else BoolVal(False))
        return DEL()(args[0], args[1]) if ok else fresh('d', so.XR())
    return Callback('trans_time_fxn', fn)


def cb_rec(run, name, **kw):
    def fn(run2, args, kw2, lineno):
        ok = len(args) == 1 + len(RA) and not kw2 and all(a is b for a, b in zip(args[1:], RA)) and z3.is_expr(args[0])
        run2.oblige('site', 'callback-args:rec_time_fxn', lineno, (args[0] == run2.local('u')) if ok else BoolVal(False))
        return DUR()(args[0]) if ok else fresh('d', so.XR())
    return Callback('rec_time_fxn', fn)


def bool_axioms(s):
    U = so.U()
    ax = so.cnt_axioms(U, B)
    if not so.Mode.finite:
        A = z3.ArraySort(U, B)
        a = z3.Const('ba', A)
        G = s.G if s.has('G') else None
        if G is not None and isinstance(G, SGraph):
            ax.append(z3.ForAll([a], cnt(a, BoolVal(True)) + cnt(a, BoolVal(False)) == G.N, patterns=[cnt(a, BoolVal(True))]))
            ax.append(cnt(z3.K(U, BoolVal(True)), BoolVal(True)) == G.N)
    return ax


def contracts():
    cs = []
    U = lambda: so.U()

    # ------------------------------------------------------------ nonMarkov_directed_percolate_network_with_timing
    def keep(G):
        return lambda u, v: And(G.adj(u, v), so.xr_le(DEL()(u, v), DUR()(u)))

    def timing_post(old, s, ret):
        if not isinstance(ret, SGraphB):
            return BoolVal(False)
        G = old.G
        k = keep(G)
        c = [BoolVal(ret.directed),
             so.forall(so.U(), lambda x: ret.nodes[x]),                                  # same nodes as G
             so.forall2(so.U(), so.U(), lambda u, v: ret.adj[mk(u, v)] == k(u, v))]      # edge u->v iff delay <= duration
        if z3.is_true(old.weights):
            if 'duration' not in ret.nattr or 'delay_to_infection' not in ret.eattr:
                return BoolVal(False)
            c.append(so.forall(so.U(), lambda x: ret.nattr['duration'][x] == DUR()(x)))
            c.append(so.forall2(so.U(), so.U(), lambda u, v: Implies(k(u, v), ret.eattr['delay_to_infection'][mk(u, v)] == DEL()(u, v))))
        return And(*c)

    def timing_outer(s, it):
        G, H = s.G, s.H
        k = keep(G)
        c = [so.forall(so.U(), lambda x: Implies(it.done(x), H.nodes[x])),
             so.forall2(so.U(), so.U(), lambda u, v: H.adj[mk(u, v)] == And(it.done(u), k(u, v)))]
        if z3.is_true(s.weights):
            c.append(BoolVal('duration' in H.nattr or True))
            if 'duration' in H.nattr:
                c.append(so.forall(so.U(), lambda x: Implies(it.done(x), H.nattr['duration'][x] == DUR()(x))))
            if 'delay_to_infection' in H.eattr:
                c.append(so.forall2(so.U(), so.U(), lambda u, v: Implies(And(it.done(u), k(u, v)),
                                                                       H.eattr['delay_to_infection'][mk(u, v)] == DEL()(u, v))))
        return And(*c)

    def timing_inner(s, it):
        G, H = s.G, s.H
        k = keep(G)
        o = it.outer
        u0 = s.u
        c = [so.forall(so.U(), lambda x: Implies(Or(o.done(x), x == u0), H.nodes[x])),
             s.duration == DUR()(u0),
             so.forall2(so.U(), so.U(), lambda u, v: H.adj[mk(u, v)] == And(k(u, v), Or(o.done(u), And(u == u0, it.done(v)))))]
        if z3.is_true(s.weights) and 'duration' in H.nattr:
            c.append(so.forall(so.U(), lambda x: Implies(Or(o.done(x), x == u0), H.nattr['duration'][x] == DUR()(x))))
            if 'delay_to_infection' in H.eattr:
                c.append(so.forall2(so.U(), so.U(), lambda u, v: Implies(And(k(u, v), Or(o.done(u), And(u == u0, it.done(v)))),
                                                                       H.eattr['delay_to_infection'][mk(u, v)] == DEL()(u, v))))
        return And(*c)

    def mkH(run, name, **kw):
        """H = nx.DiGraph(): empty, with the two attribute maps the weighted branch fills declared up front"""
        U_, P_ = so.U(), so.Pair()
        H = SGraphB(True, name='H', nodes=z3.K(U_, BoolVal(False)), adj=z3.K(P_, BoolVal(False)))
        H.nattr['duration'] = fresh('H_na_duration', z3.ArraySort(U_, so.XR()))
        H.eattr['delay_to_infection'] = fresh('H_ea_delay', z3.ArraySort(P_, so.XR()))
        return H

    cs.append(Contract(F, 'nonMarkov_directed_percolate_network_with_timing',
        cases=[Case('weights', dict(G=T.graph(), trans_time_fxn=cb_trans, rec_time_fxn=cb_rec, trans_time_args=T.const(TA),
                                    rec_time_args=T.const(RA), weights=T.true)),
               Case('no-weights', dict(G=T.graph(), trans_time_fxn=cb_trans, rec_time_fxn=cb_rec, trans_time_args=T.const(TA),
                                       rec_time_args=T.const(RA), weights=T.false))],
        loops={0: timing_outer, 1: timing_inner, 2: timing_outer, 3: timing_inner},
        locals_={'H': mkH}, local_sorts={'duration': 'XR', 'delay': 'XR'},
        ensures=timing_post))

    # ------------------------------------------------------------ nonMarkov_directed_percolate_network
    def TRM():
        return z3.Function('user_transmission_%d' % so.Mode.gen, so.St(), so.St(), B)

    def cb_transmission(run, name, **kw):
        def fn(run2, args, kw2, lineno):
            ok = len(args) == 2 and not kw2 and all(z3.is_expr(a) and a.sort() == so.St() for a in args)
            env = run2.env_view()
            run2.oblige('site', 'callback-args:transmission', lineno,
                        And(args[0] == env['xi'].val[env['u']], args[1] == env['zeta'].val[env['v']]) if ok else BoolVal(False))
            return TRM()(args[0], args[1]) if ok else fresh('b', B)
        return Callback('transmission', fn)

    def xz_keep(s):
        G = s.G
        return lambda u, v: And(G.adj(u, v), TRM()(s.xi.val[u], s.zeta.val[v]))

    def xz_total(run, name, **kw):
        d = SDict(so.U(), so.St(), dom=z3.K(so.U(), BoolVal(True)), name=name)
        return d

    def xz_defaultdict(run, name, **kw):
        # the documented calling style: defaultdict(lambda: value) - some (or all) nodes are not keys yet; reading inserts the default,
        # a membership test does not
        dv = fresh(name + '_default', so.St())
        d = SDict(so.U(), so.St(), default=dv, name=name)
        run.assume(so.forall(so.U(), lambda x: Implies(Not(d.dom[x]), d.val[x] == dv)))
        return d

    cs.append(Contract(F, 'nonMarkov_directed_percolate_network',
        cases=[Case('any', dict(G=T.graph(), xi=xz_total, zeta=xz_total, transmission=cb_transmission)),
               Case('defaultdict-inputs', dict(G=T.graph(), xi=xz_defaultdict, zeta=xz_defaultdict, transmission=cb_transmission))],
        loops={0: lambda s, it: And(so.forall(so.U(), lambda x: Implies(it.done(x), s.H.nodes[x])),
                                   so.forall2(so.U(), so.U(), lambda u, v: s.H.adj[mk(u, v)] == And(it.done(u), xz_keep(s)(u, v)))),
               1: lambda s, it: And(so.forall(so.U(), lambda x: Implies(Or(it.outer.done(x), x == s.u), s.H.nodes[x])),
                                   so.forall2(so.U(), so.U(), lambda u, v: s.H.adj[mk(u, v)] == And(
                                       xz_keep(s)(u, v), Or(it.outer.done(u), And(u == s.u, it.done(v))))))},
        ensures=lambda old, s, ret: And(BoolVal(isinstance(ret, SGraphB) and ret.directed),
                                        so.forall(so.U(), lambda x: ret.nodes[x]),
                                        so.forall2(so.U(), so.U(), lambda u, v: ret.adj[mk(u, v)] == xz_keep(old)(u, v)))
        if True else None))

    # ------------------------------------------------------------ percolate_network
    def perc_inv(s, it):
        G, H = s.G, s.H
        hits = s.run.ghost.get('hits')
        E = it.seq
        return And(so.forall(so.U(), lambda x: H.nodes[x]),
                   so.forall2(so.U(), so.U(), lambda u, v: H.adj[mk(u, v)] == H.adj[mk(v, u)]),
                   so.forall2(so.U(), so.U(), lambda u, v: Implies(H.adj[mk(u, v)], G.adj(u, v))),
                   so.forall(so.Pair(), lambda e: Implies(Not(it.done(e)), Not(Or(H.adj[e], H.adj[mk(so.Pair().snd(e), so.Pair().fst(e))])))
                             if False else BoolVal(True)))

    def perc_post(old, s, ret):
        G = old.G
        if not isinstance(ret, SGraphB) or ret.directed:
            return BoolVal(False)
        return And(so.forall(so.U(), lambda x: ret.nodes[x]),
                   so.forall2(so.U(), so.U(), lambda u, v: ret.adj[mk(u, v)] == ret.adj[mk(v, u)]),
                   so.forall2(so.U(), so.U(), lambda u, v: Implies(ret.adj[mk(u, v)], G.adj(u, v))))

    def perc_site(s, info):
        """each edge is kept iff its own fresh U01 draw is below p"""
        return info['cond'] == (info['value'] < s.p)

    cs.append(Contract(F, 'percolate_network',
        cases=[Case('any', dict(G=T.graph(), p=T.real))],
        requires=lambda s: And(s.p >= 0, s.p <= 1),
        loops={0: perc_inv},
        sites={('random.random:test', 0): perc_site},
        sites_strict=('random.random', 'random.choice', 'random.expovariate', 'random.sample'),
        make_ret=lambda run, s: _fresh_undirected(run, s),
        ensures=perc_post))

    # ------------------------------------------------------------ _out_component_ / _in_component_
    def anyG(run, name, **kw):
        H = SGraphB(True, name=name)
        run.assume(H.wellformed())
        return H

    def comp_requires(s):
        G = s.G
        src = s.source if s.has('source') else s.target
        if isinstance(src, SSet):
            return so.forall(so.U(), lambda x: Implies(src.dom[x], G.nodes[x]))
        return G.nodes[src]

    def comp_post(direction):
        def post(old, s, ret):
            G = old.G
            src = old.source if old.has('source') else old.target
            if not isinstance(ret, SSet):
                return BoolVal(False)
            insrc = (lambda x: src.dom[x]) if isinstance(src, SSet) else (lambda x: x == src)
            rel = (lambda a, x: G.reach(a, x)) if direction == 'out' else (lambda a, x: G.reach(x, a))
            return so.forall(so.U(), lambda x: ret.dom[x] == Or(insrc(x), so.exists(so.U(), lambda a: And(insrc(a), rel(a, x)))))
        return post

    def comp_inv(direction, var):
        def inv(s, it):
            G = s.G
            srcs = it.seq
            cur = s.reachable_nodes if direction == 'out' else s.source_nodes
            base = s.source_nodes if direction == 'out' else s.target_nodes
            rel = (lambda a, x: G.reach(a, x)) if direction == 'out' else (lambda a, x: G.reach(x, a))
            return so.forall(so.U(), lambda x: cur.dom[x] == Or(base.dom[x], so.exists(so.U(), lambda a: And(it.done(a), rel(a, x)))))
        return inv

    for nm, direction, par in (('_out_component_', 'out', 'source'), ('_in_component_', 'in', 'target')):
        cs.append(Contract(F, nm,
            cases=[Case('single-node', {'G': anyG, par: T.node}), Case('node-set', {'G': anyG, par: T.set_of('U')})],
            requires=comp_requires, loops={0: comp_inv(direction, par)},
            locals_={'reachable_nodes': T.set_of('U'), 'source_nodes': T.set_of('U'), 'target_nodes': T.set_of('U')},
            make_ret=lambda run, s: SSet(so.U(), name='component'),
            ensures=comp_post(direction)))

    # ------------------------------------------------------------ estimate_SIR_prob_size_from_dir_perc
    def subset_card_lemmas(s):
        """finite-cardinality fact, instantiated: a subset of the node set has at most order(H) elements"""
        out = []
        H = s.H
        for nm in ('inC', 'outC'):
            if s.has(nm) and isinstance(getattr(s, nm), SSet):
                A = getattr(s, nm)
                out.append(Implies(so.forall(so.U(), lambda x: Implies(A.dom[x], H.nodes[x])),
                                   And(cnt(A.dom, BoolVal(True)) <= cnt(H.nodes, BoolVal(True)), cnt(A.dom, BoolVal(True)) >= 0)))
                out.append(Implies(so.exists(so.U(), lambda x: A.dom[x]), cnt(A.dom, BoolVal(True)) >= 1))
        return out

    def est_post(old, s, ret):
        H = old.H
        if not (isinstance(ret, tuple) and len(ret) == 2 and s.has('Hscc') and isinstance(s.Hscc, SSet)):
            return BoolVal(False)
        sccs = [c for (h, c) in s.run.ghost.get('scc_of', []) if h is s.H]
        if len(sccs) != 1 or sccs[0] is not s.Hscc:
            return BoolVal(False)              # the component used must be the largest SCC of H
        C = s.Hscc
        PE, AR = ret
        N = z3.ToReal(H.order())
        U_ = so.U()
        # some u in the largest SCC such that PE*N = #{x | x reaches u}, AR*N = #{x | reachable from u}
        return so.exists(U_, lambda u: And(
            C.dom[u],
            so.exists(z3.ArraySort(U_, B), lambda din: And(
                so.forall(U_, lambda x: din[x] == Or(x == u, H.reach(x, u))), PE * N == z3.ToReal(cnt(din, BoolVal(True))))),
            so.exists(z3.ArraySort(U_, B), lambda dout: And(
                so.forall(U_, lambda x: dout[x] == Or(x == u, H.reach(u, x))), AR * N == z3.ToReal(cnt(dout, BoolVal(True))))),
            PE >= 0, PE <= 1, AR >= 0, AR <= 1))

    def anyH(run, name, **kw):
        H = SGraphB(True, name=name)
        run.assume(H.wellformed())
        return H

    cs.append(Contract(F, 'estimate_SIR_prob_size_from_dir_perc',
        cases=[Case('any', dict(H=anyH))],
        requires=lambda s: s.H.order() >= 1,
        axioms=lambda s: so.cnt_axioms(so.U(), B),
        post_lemmas=subset_card_lemmas,
        ensures=est_post))

    # ------------------------------------------------------------ estimate_SIR_prob_size
    def esp_post(old, s, ret):
        lc = s.run.ghost.get('largest_cc')
        if lc is None or not (isinstance(ret, tuple) and len(ret) == 2 and s.has('H')):
            return BoolVal(False)
        H, m = lc
        if H is not s.H:
            return BoolVal(False)
        N = z3.ToReal(old.G.N)
        return And(ret[0] * N == z3.ToReal(m), ret[1] * N == z3.ToReal(m), ret[0] >= 0, ret[0] <= 1)

    cs.append(Contract(F, 'estimate_SIR_prob_size',
        cases=[Case('any', dict(G=T.graph(), p=T.real))],
        requires=lambda s: And(s.G.N >= 1, s.p >= 0, s.p <= 1), axioms=bool_axioms,
        sites={('call:percolate_network', 0): lambda s, b: BoolVal(b.get('G') is s.G and z3.is_expr(b.get('p')) and b.get('p').eq(s.p))},
        ensures=esp_post))

    return cs


def _fresh_undirected(run, s):
    H = SGraphB(False, name='Hperc')
    run.assume(H.wellformed())
    return H
