"""Sidecar contracts for EoN/auxiliary.py: subsample, get_time_shift (property C20)."""
import hashlib
import z3
from z3 import And, Or, Not, Implies, If, IntVal, RealVal, BoolVal
from ..pyvc import sorts as so
from ..pyvc.sorts import fresh, I, R, B
from ..pyvc.values import SList, NONE
from ..pyvc.verify import Contract, Case, LoopSpec
from . import types as T

F = 'EoN/auxiliary.py'


def nondecreasing(l):
    return so.forall_idx(l.n, lambda a: so.forall_idx(l.n, lambda b: Implies(a <= b, l.a[a] <= l.a[b])))


def lastidx(times, rt):
    """SPEC FUNCTION  L(j) = the last observation index i with times[i] <= rt[j].
    Definitional extension: for non-decreasing `times` and rt[j] >= times[0] such an index exists and is
    unique, so the defining axiom is satisfiable whenever the precondition holds."""
    key = hashlib.sha256(('%s|%s|%s|%s' % (times.n.sexpr(), times.a.sexpr(), rt.n.sexpr(), rt.a.sexpr())).encode()).hexdigest()[:10]
    L = z3.Function('lastidx_%s_%d' % (key, so.Mode.gen), I, I)
    ax = so.forall_idx(rt.n, lambda j: Implies(times.a[0] <= rt.a[j], And(
        0 <= L(j), L(j) < times.n, times.a[L(j)] <= rt.a[j],
        Or(L(j) + 1 == times.n, times.a[L(j) + 1] > rt.a[j]))))
    return L, ax


def series_ok(ret, status, times, rt):
    L, ax = lastidx(times, rt)
    return And(ret.n == rt.n, so.forall_idx(rt.n, lambda j: ret.a[j] == status.a[L(j)]))


def sub_requires(s):
    c = [s.report_times.n >= 1, s.times.n >= 1, nondecreasing(s.times), nondecreasing(s.report_times),
         s.status1.n == s.times.n]
    if s.status2 is not NONE:
        c.append(s.status2.n == s.times.n)
    if s.status3 is not NONE:
        c.append(s.status3.n == s.times.n)
        c.append(BoolVal(s.status2 is not NONE))
    return And(*c)


def sub_axioms(s):
    L, ax = lastidx(s.times, s.report_times)
    return [ax]


def sub_ensures(old, s, ret):
    t, rt = old.times, old.report_times
    if old.status2 is NONE:
        if not isinstance(ret, SList):
            return BoolVal(False)
        return series_ok(ret, old.status1, t, rt)
    if old.status3 is NONE:
        if not (isinstance(ret, tuple) and len(ret) == 2 and all(isinstance(x, SList) for x in ret)):
            return BoolVal(False)
        return And(series_ok(ret[0], old.status1, t, rt), series_ok(ret[1], old.status2, t, rt))
    if not (isinstance(ret, tuple) and len(ret) == 3 and all(isinstance(x, SList) for x in ret)):
        return BoolVal(False)
    return And(series_ok(ret[0], old.status1, t, rt), series_ok(ret[1], old.status2, t, rt),
               series_ok(ret[2], old.status3, t, rt))


def sub_make_ret(run, s):
    def one(k):
        l = SList(R, name='sub%d' % k)
        run.assume(l.wellformed())
        return l
    L, ax = lastidx(s.times, s.report_times)
    run.assume(ax)
    if s.status2 is NONE:
        return one(1)
    if s.status3 is NONE:
        return (one(1), one(2))
    return (one(1), one(2), one(3))


def outer_inv(s, it):
    rt, times, st1 = s.report_times, s.times, s.status1
    ri, oi, rs = s.next_report_index, s.next_observation_index, s.report_status1
    L, ax = lastidx(times, rt)
    cand = s.val('candidate', R)
    return And(0 <= ri, ri <= rt.n, 0 <= oi, oi <= times.n, rs.n == ri,
               Implies(ri > 0, oi >= 1), Implies(ri == 0, oi == 0),
               Implies(oi >= 1, And(s.bound('candidate'), cand == st1.a[oi - 1])),
               Implies(And(ri > 0, oi >= 1), times.a[oi - 1] <= rt.a[ri - 1]),
               so.forall_idx(ri, lambda j: rs.a[j] == st1.a[L(j)]))


def inner_inv(s, it):
    rt, times, st1 = s.report_times, s.times, s.status1
    ri, oi, rs = s.next_report_index, s.next_observation_index, s.report_status1
    L, ax = lastidx(times, rt)
    cand = s.val('candidate', R)
    return And(0 <= ri, ri < rt.n, 0 <= oi, oi <= times.n, rs.n == ri,
               Implies(ri > 0, oi >= 1),
               Implies(oi >= 1, And(s.bound('candidate'), cand == st1.a[oi - 1])),
               Implies(oi >= 1, times.a[oi - 1] <= rt.a[ri]),
               so.forall_idx(ri, lambda j: rs.a[j] == st1.a[L(j)]))


def contracts():
    lst = T.list_of('R')
    cs = []
    base = dict(report_times=lst, times=lst, status1=lst)
    cs.append(Contract(F, 'subsample',
        cases=[Case('one-series', dict(base, status2=T.none, status3=T.none)),
               Case('two-series', dict(base, status2=lst, status3=T.none)),
               Case('three-series', dict(base, status2=lst, status3=lst))],
        requires=sub_requires, axioms=sub_axioms,
        must_raise=lambda old: old.report_times.a[0] < old.times.a[0],
        may_raise=lambda old: old.report_times.a[0] < old.times.a[0],
        make_ret=sub_make_ret,
        loops={0: outer_inv, 1: inner_inv},
        locals_={'report_status1': T.list_of('R'), 'candidate': T.real},
        ensures=sub_ensures))

    def gts_requires(s):
        return And(s.times.n >= 1, s.L.n >= s.times.n)

    def gts_ensures(old, s, ret):
        times, L, thr = old.times, old.L, old.threshold
        reached = so.exists_idx(times.n, lambda i: L.a[i] >= thr)
        first = lambda i: And(L.a[i] >= thr, so.forall_idx(i, lambda j: L.a[j] < thr))
        return And(
            Implies(reached, so.exists_idx(times.n, lambda i: And(first(i), ret == times.a[i]))),
            Implies(Not(reached), ret == times.a[times.n - 1]))

    def gts_inv(s, it):
        L, thr = s.L, s.threshold
        return so.forall_idx(it.i, lambda j: L.a[j] < thr)

    cs.append(Contract(F, 'get_time_shift',
        cases=[Case('lists', dict(times=lst, L=lst, threshold=T.real))],
        requires=gts_requires, loops={0: gts_inv}, ensures=gts_ensures))
    return cs
