"""E1 — forward symbolic execution of the REAL function text (ast of /repo source) generating
verification conditions.  One path per run; paths are enumerated by re-execution with a decision
prefix (no state copying, so Python object identity = heap identity).  See DESIGN 3.1."""
import ast
import os
import z3
from z3 import And, Or, Not, Implies, If, IntVal, RealVal, BoolVal
from . import sorts as so
from .sorts import fresh, I, R, B
from .values import (SList, SDict, SSet, SObj, TupleSpec, Closure, Callback, FuncRef, PyConst, NONE, NoneV,
                     Unsupported, coerce, SDictOfLists, SListRef, SHistory)


class PathEnd(Exception):
    pass


class ReturnEx(Exception):
    def __init__(self, value):
        self.value = value


class RaiseEx(Exception):
    def __init__(self, name, lineno):
        self.name, self.lineno = name, lineno


class BreakEx(Exception):
    pass


class ContinueEx(Exception):
    pass


class Obligation:
    __slots__ = ('id', 'kind', 'label', 'lineno', 'pc', 'goal', 'unit', 'ordinal')

    def __init__(self, kind, label, lineno, pc, goal):
        self.kind, self.label, self.lineno, self.pc, self.goal = kind, label, lineno, pc, goal
        self.id = None
        self.unit = None
        self.ordinal = 0


class MaybeUnbound:
    """a local name that is bound only on some paths through a loop: (ghost flag, value)"""

    def __init__(self, flag, value):
        self.flag, self.value = flag, value


RENAME = [{}]          # contract-name -> current-name of locals that were purely renamed (set per unit by Run)


class View:
    """attribute access to an environment for contract lambdas: s.times, s.status ..."""

    def __init__(self, env, extra=None):
        object.__setattr__(self, '_env', env)
        object.__setattr__(self, '_extra', extra or {})

    def __getattr__(self, k):
        ex = object.__getattribute__(self, '_extra')
        if k in ex:
            return ex[k]
        env = object.__getattribute__(self, '_env')
        if k not in env and RENAME[0].get(k) in env:
            k = RENAME[0][k]          # the local was renamed in the current code (pure renaming w.r.t. the pinned tree)
        if k in env:
            v = env[k]
            return v.value if isinstance(v, MaybeUnbound) else v
        raise Unbindable('contract refers to %r which is not bound in the analysed function' % k)

    def has(self, k):
        env = object.__getattribute__(self, '_env')
        return k in env or RENAME[0].get(k) in env or k in object.__getattribute__(self, '_extra')

    def bound(self, k):
        """is the local name k definitely bound here? (z3 Bool)"""
        env = object.__getattribute__(self, '_env')
        if k not in env and RENAME[0].get(k) in env:
            k = RENAME[0][k]
        if k not in env:
            return BoolVal(False)
        v = env[k]
        return v.flag if isinstance(v, MaybeUnbound) else BoolVal(True)

    def val(self, k, sort):
        """value of local k, or an arbitrary value of `sort` when it is not bound"""
        env = object.__getattribute__(self, '_env')
        if k not in env and RENAME[0].get(k) in env:
            k = RENAME[0][k]
        if k not in env:
            return fresh('unbound_' + k, sort)
        v = env[k]
        return v.value if isinstance(v, MaybeUnbound) else v


class _PyDictLit:
    """dict built from a concrete sequence of (key, value) pairs (a comprehension over a python-level sequence): becomes a typed
    container when it is assigned to a local the contract declares"""

    def __init__(self, pairs):
        self.pairs = pairs


class Unbindable(Exception):
    """a contract can no longer be bound to the code (renamed variable / parameter) -> undecided"""


def ceval(fn, *args):
    """evaluate a piece of a sidecar contract; if the code changed shape so that the contract text no longer
    applies (a loop disappeared, a variable changed type ...) this is 'cannot bind', never a crash or a violation"""
    try:
        return fn(*args)
    except (Unbindable, Unsupported, PathEnd, RaiseEx, ReturnEx):
        raise
    except (AttributeError, TypeError, KeyError, IndexError, ValueError, z3.Z3Exception) as e:
        if os.environ.get("VERIF_TRACE"):
            import traceback; traceback.print_exc()
        raise Unbindable("contract text does not apply to the current code (%s: %s)" % (type(e).__name__, str(e)[:120]))


class LoopIter:
    """what a loop invariant sees of the iteration: index i, the iterated sequence, snapshot at entry"""

    def __init__(self, i, seq, entry, item=None, outer=None):
        self.i, self.seq, self.entry, self.item = i, seq, entry, item
        self.outer = outer          # LoopIter of the enclosing loop (its index, sequence and entry snapshot)

    def done(self, x):
        """x is among the already processed elements (needs a sequence with a position function)"""
        if getattr(self.seq, 'posf', None) is not None:
            return And(self.seq.memberf(x), self.seq.posf(x) < self.i)
        return so.exists_idx(self.i, lambda j: self.seq.a[j] == x)

    def todo(self, x):
        if getattr(self.seq, 'posf', None) is not None:
            return And(self.seq.memberf(x), self.seq.posf(x) >= self.i)
        return so.exists_idx(self.seq.n, lambda j: self.seq.a[j] == x, lo=self.i)


def snap_env(env):
    out = {}
    for k, v in env.items():
        out[k] = snap_val(v)
    return out


def snap_val(v):
    if hasattr(v, 'snap'):
        return v.snap()
    if isinstance(v, tuple):
        return tuple(snap_val(x) for x in v)
    return v


MUTATING_METHODS = {'append', 'pop', 'add', 'remove', 'update', 'insert', 'clear', 'extend', 'sort', 'discard',
                    'popitem', 'setdefault', 'reverse', 'add_node', 'add_edge', 'remove_node', 'remove_edge',
                    'add_nodes_from', 'add_edges_from', 'remove_nodes_from'}


class Run:
    """one symbolic path through one function"""

    def __init__(self, unit, registry, lib, prefix, skip, solver_timeout_ms=200):
        self.unit, self.registry, self.lib = unit, registry, lib
        self.prefix, self.skip = prefix, skip
        self.trace = []
        self.forks = []
        self.pc = []
        self.obls = []
        self.nobl = 0
        self.loop_ord = 0
        from . import values as _values
        _values.CURRENT_RUN[0] = self
        RENAME[0] = dict(getattr(unit, 'rename', None) or {})
        self._rename_rev = {v: k for k, v in RENAME[0].items()}
        self.site_ord = {}
        self.call_log = []          # (callee, static ordinal, line) of every modular call made on this path
        self.draws = []
        self.ghost = {}
        self.solver = z3.Solver()
        self.solver.set('timeout', solver_timeout_ms)
        self.depth = 0
        self.old = None
        self.temp_assume = []
        self.loop_stack = []

    # ----------------------------------------------------------------------------------------------
    def assume(self, f):
        if f is None:
            return
        if isinstance(f, bool):
            f = BoolVal(f)
        self.pc.append(f)
        self.solver.add(f)

    def oblige(self, kind, label, lineno, goal):
        if isinstance(goal, bool):
            goal = BoolVal(goal)

        idx = self.nobl
        self.nobl += 1
        if idx < self.skip:
            self._after_oblige(kind, goal)
            return
        g = z3.simplify(goal)
        if z3.is_true(g):
            # still counted as an obligation (trivially discharged) so that counts are stable
            pass
        ob = Obligation(kind, label, lineno, list(self.pc) + list(self.temp_assume), goal)
        self.obls.append(ob)
        self._after_oblige(kind, goal)

    def emit_site(self, label, lineno, goal):
        """a site hook gives one formula (obligation) or a list of steps: ('unfold', (abbrev, args)) unfolds an abbreviation the contract
        itself introduced (an instance of its defining equation, built here), (name, f) is a lemma: an obligation that is then available"""
        if isinstance(goal, list):
            # a proof block: the steps see each other, the rest of the path only sees the conclusions (names starting with 'keep:')
            mark = len(self.pc)
            kept = []
            for name, f in goal:
                if name == 'unfold':
                    ab, args = f          # Abbrev instance: only an instance of its own defining equation can be assumed
                    self.assume(ab.instance(*args))
                else:
                    self.oblige('lemma', '%s:%s' % (label, name), lineno, f)
                    if name.startswith('keep:'):
                        kept.append(f)
            del self.pc[mark:]
            for f in kept:
                self.pc.append(f)
        else:
            self.oblige('site', label, lineno, goal)

    def _after_oblige(self, kind, goal):
        # execution continues past a safety check only if it succeeded (otherwise Python raised)
        if kind in ('safety', 'lemma') and not self.temp_assume and z3.is_expr(goal) and not z3.is_false(z3.simplify(goal)):
            self.assume(goal)

    def feasible(self, cond):
        r = self.solver.check(*(self.temp_assume + [cond]))
        return r != z3.unsat

    def branch(self, cond, lineno=0):
        if isinstance(cond, bool):
            return cond
        c = z3.simplify(cond)
        if z3.is_true(c):
            return True
        if z3.is_false(c):
            return False
        k = len(self.trace)
        if k < len(self.prefix):
            d = self.prefix[k]
        else:
            ft, ff = self.feasible(cond), self.feasible(Not(cond))
            if ft and ff:
                d = True
                self.forks.append((self.trace + [False], self.nobl))
            elif ft:
                d = True
            elif ff:
                d = False
            else:
                raise PathEnd()
        self.trace.append(d)
        self.assume(cond if d else Not(cond))
        return d

    # ----------------------------------------------------------------------------------------------
    # expressions
    # ----------------------------------------------------------------------------------------------
    def ev(self, e, env):
        m = getattr(self, 'ev_' + type(e).__name__, None)
        if m is None:
            raise Unsupported('expression %s at line %d' % (type(e).__name__, getattr(e, 'lineno', 0)))
        return m(e, env)

    def ev_Constant(self, e, env):
        v = e.value
        if v is None:
            return NONE
        if isinstance(v, bool):
            return BoolVal(v)
        if isinstance(v, int):
            return IntVal(v)
        if isinstance(v, float):
            return RealVal(repr(v))
        if isinstance(v, str):
            return PyConst(v)
        raise Unsupported('constant %r' % (v,))

    def ev_JoinedStr(self, e, env):
        return PyConst('<fstring>')

    def ev_Name(self, e, env):
        if e.id in env:
            v = env[e.id]
            if isinstance(v, MaybeUnbound):
                self.oblige('safety', 'name-bound:%s' % e.id, e.lineno, v.flag)
                self.assume(v.flag)
                return v.value
            return v
        g = self.unit.globals_.get(e.id)
        if g is not None:
            return g
        if e.id in self.registry.functions:
            return FuncRef(e.id)
        if e.id in self.registry.classes():
            return PyConst(('class', e.id))
        if e.id in self.lib.modules:
            return PyConst(('module', e.id))
        if e.id in self.lib.builtins:
            return PyConst(('builtin', e.id))
        if e.id in ('True', 'False'):
            return BoolVal(e.id == 'True')
        # definite-assignment obligation: a name that is not bound on this path
        self.oblige('safety', 'name-bound:%s' % e.id, e.lineno, BoolVal(False))
        raise PathEnd()

    def ev_Tuple(self, e, env):
        return tuple(self.ev(x, env) for x in e.elts)

    def ev_List(self, e, env):
        items = [self.ev(x, env) for x in e.elts]
        return self.new_list(items, e.lineno)

    def new_list(self, items, lineno=0, esort=None):
        if not items and esort is None:
            l = SList(None, n=IntVal(0), a=None, name='lit') if False else _EmptyList()
            return l
        if esort is None:
            v0 = items[0]
            if isinstance(v0, PyConst) and isinstance(v0.v, str) and v0.v in so.S['status_const']:
                esort = so.Status()
            elif z3.is_expr(v0):
                esort = v0.sort()
                if esort == I and any(z3.is_expr(x) and z3.is_real(x) for x in items):
                    esort = R
            else:
                return _PyList(items)
        zs = esort.zsort() if isinstance(esort, TupleSpec) else esort
        a = fresh('lit_a', z3.ArraySort(I, zs))
        for k, v in enumerate(items):
            a = z3.Store(a, IntVal(k), self.pack(v, esort))
        return SList(esort, IntVal(len(items)), a, name='lit')

    def pack(self, v, esort):
        if so.is_xr(v) and not isinstance(esort, TupleSpec) and esort == R:
            # storing an extended real where a finite number is expected: must be finite here
            self.oblige('safety', 'finite-value', getattr(self, 'cur_line', 0), Not(so.xr_isinf(v)))
            return so.xr_val(v)
        if isinstance(esort, TupleSpec):
            if isinstance(v, tuple):
                return esort.pack(v)
            if z3.is_expr(v) and v.sort() == esort.zsort():
                return v
            raise Unsupported('packing %r into %s' % (v, esort.name))
        return coerce(v, esort)

    def ev_Set(self, e, env):
        items = [self.ev(x, env) for x in e.elts]
        if not items or not all(z3.is_expr(x) for x in items):
            raise Unsupported('set literal at line %d' % e.lineno)
        ks = items[0].sort()
        dom = z3.K(ks, BoolVal(False))
        for x in items:
            dom = z3.Store(dom, x, BoolVal(True))
        return SSet(ks, dom=dom, name='setlit')

    def ev_Dict(self, e, env):
        if e.keys:
            raise Unsupported('non-empty dict literal at line %d' % e.lineno)
        return _EmptyDict()

    def ev_Attribute(self, e, env):
        base = self.ev(e.value, env)
        return self.getattr(base, e.attr, e.lineno)

    def getattr(self, base, attr, lineno):
        if isinstance(base, PyConst) and isinstance(base.v, tuple) and base.v[0] == 'module':
            return PyConst(('modattr', base.v[1], attr))
        if isinstance(base, PyConst) and isinstance(base.v, tuple) and base.v[0] == 'modattr':
            return PyConst(('modattr', base.v[1] + '.' + base.v[2], attr))
        if isinstance(base, SObj):
            if attr in base.f:
                return base.f[attr]
            q = base.cls + '.' + attr
            if self.registry.has(q):
                return ('boundmethod', base, q)
            self.oblige('safety', 'attribute:%s.%s' % (base.cls, attr), lineno, BoolVal(False))
            raise PathEnd()
        h = self.lib.attr(self, base, attr, lineno)
        if h is not None:
            return h
        return ('boundlib', base, attr)

    def ev_UnaryOp(self, e, env):
        v = self.ev(e.operand, env)
        if isinstance(e.op, ast.Not):
            return Not(self.truth(v, e.lineno))
        if isinstance(e.op, ast.USub):
            if so.is_xr(v):
                raise Unsupported('negating an extended real')
            return -v
        if isinstance(e.op, ast.UAdd):
            return v
        raise Unsupported('unary op')

    def ev_BoolOp(self, e, env):
        # short-circuit: later operands are evaluated under the assumption that evaluation got there
        vals = []
        saved = len(self.temp_assume)
        try:
            for x in e.values:
                v = self.truth(self.ev(x, env), e.lineno)
                vals.append(v)
                vs = z3.simplify(v) if z3.is_expr(v) else v
                if (isinstance(e.op, ast.Or) and z3.is_true(vs)) or (isinstance(e.op, ast.And) and z3.is_false(vs)):
                    break                  # python does not evaluate the remaining operands
                self.temp_assume.append(v if isinstance(e.op, ast.And) else Not(v))
        finally:
            del self.temp_assume[saved:]
        return And(*vals) if isinstance(e.op, ast.And) else Or(*vals)

    def ev_IfExp(self, e, env):
        c = self.truth(self.ev(e.test, env), e.lineno)
        if self.branch(c, e.lineno):
            return self.ev(e.body, env)
        return self.ev(e.orelse, env)

    def num2(self, a, b):
        if isinstance(a, bool) or isinstance(a, int) and not isinstance(a, bool):
            a = IntVal(int(a))
        if isinstance(b, int):
            b = IntVal(int(b))
        if so.is_xr(a) or so.is_xr(b):
            return so.to_xr(a), so.to_xr(b), 'xr'
        if not (z3.is_expr(a) and z3.is_expr(b)):
            raise Unsupported('arithmetic on non-numeric values %r, %r' % (a, b))
        if z3.is_bool(a):
            a = If(a, IntVal(1), IntVal(0))
        if z3.is_bool(b):
            b = If(b, IntVal(1), IntVal(0))
        if z3.is_int(a) and z3.is_real(b):
            a = z3.ToReal(a)
        if z3.is_real(a) and z3.is_int(b):
            b = z3.ToReal(b)
        if not ((z3.is_int(a) or z3.is_real(a)) and (z3.is_int(b) or z3.is_real(b))):
            # DESIGN 3.2 opacity: nodes / statuses are not numbers
            raise Unsupported('arithmetic on sort %s / %s' % (a.sort(), b.sort()))
        return a, b, 'num'

    def ev_BinOp(self, e, env):
        l, r = self.ev(e.left, env), self.ev(e.right, env)
        return self.binop(e.op, l, r, e.lineno)

    def binop(self, op, l, r, lineno):
        if isinstance(op, ast.Add) and isinstance(l, (SList, _EmptyList, _PyList)) and isinstance(r, (SList, _EmptyList, _PyList)):
            return self.lib.list_concat(self, l, r)
        if isinstance(op, ast.Add) and isinstance(l, tuple) and isinstance(r, tuple):
            return l + r
        a, b, k = self.num2(l, r)
        if k == 'xr':
            if isinstance(op, ast.Add):
                return so.xr_add(a, b)
            if isinstance(op, ast.Sub):
                # x - finite ; inf - inf is NaN in Python: obligation that the subtrahend is finite
                self.oblige('safety', 'sub-infinite', lineno, Not(so.xr_isinf(b)))
                return If(so.xr_isinf(a), so.xr_inf(), so.xr_fin(so.xr_val(a) - so.xr_val(b)))
            raise Unsupported('operator on extended reals at line %d' % lineno)
        if isinstance(op, ast.Add):
            return a + b
        if isinstance(op, ast.Sub):
            return a - b
        if isinstance(op, ast.Mult):
            return a * b
        if isinstance(op, ast.Div):
            self.oblige('safety', 'div-by-zero', lineno, b != 0)
            a = z3.ToReal(a) if z3.is_int(a) else a
            b = z3.ToReal(b) if z3.is_int(b) else b
            return a / b
        if isinstance(op, ast.FloorDiv):
            self.oblige('safety', 'div-by-zero', lineno, b != 0)
            if z3.is_int(a) and z3.is_int(b):
                # python floor division == z3 div only for positive divisor
                self.oblige('safety', 'floordiv-positive-divisor', lineno, b > 0)
                return a / b
            raise Unsupported('floor division on reals')
        if isinstance(op, ast.Mod):
            if z3.is_int(a) and z3.is_int(b):
                self.oblige('safety', 'mod-positive-divisor', lineno, b > 0)
                return a % b
            raise Unsupported('mod on reals')
        if isinstance(op, ast.Pow):
            if z3.is_int_value(b) and 0 <= b.as_long() <= 4:
                out = IntVal(1) if z3.is_int(a) else RealVal(1)
                for _ in range(b.as_long()):
                    out = out * a
                return out
            # constant ** constant (e.g. 10**(-7))
            sa, sb = z3.simplify(a), z3.simplify(b)
            if (z3.is_rational_value(sa) or z3.is_int_value(sa)) and z3.is_int_value(sb):
                from fractions import Fraction
                fa = Fraction(sa.numerator_as_long(), sa.denominator_as_long()) if z3.is_rational_value(sa) else Fraction(sa.as_long())
                v = fa ** sb.as_long()
                return RealVal('%d/%d' % (v.numerator, v.denominator))
            raise Unsupported('power at line %d' % lineno)
        raise Unsupported('binary operator %s' % type(op).__name__)

    def cmp1(self, op, left, right, lineno):
        if isinstance(op, (ast.In, ast.NotIn)):
            c = self.contains(right, left, lineno)
            return c if isinstance(op, ast.In) else Not(c)
        if isinstance(op, (ast.Is, ast.IsNot)):
            if left is NONE or right is NONE:
                c = BoolVal(left is right)
            elif z3.is_expr(left) and z3.is_expr(right):
                c = left == right
            else:
                c = BoolVal(left is right)
            return c if isinstance(op, ast.Is) else Not(c)
        if left is NONE or right is NONE:
            if isinstance(op, (ast.Eq, ast.NotEq)):
                c = BoolVal(left is right)
                return c if isinstance(op, ast.Eq) else Not(c)
            # ordering None against a number raises TypeError in Python 3
            self.oblige('safety', 'compare-with-None', lineno, BoolVal(False))
            raise PathEnd()
        if isinstance(left, PyConst) or isinstance(right, PyConst):
            return self.cmp_const(op, left, right, lineno)
        if isinstance(left, tuple) or isinstance(right, tuple):
            if isinstance(left, tuple) and isinstance(right, tuple) and isinstance(op, (ast.Eq, ast.NotEq)):
                if len(left) != len(right):
                    c = BoolVal(False)
                else:
                    c = And(*[self.cmp1(ast.Eq(), x, y, lineno) for x, y in zip(left, right)])
                return c if isinstance(op, ast.Eq) else Not(c)
            if isinstance(left, tuple) and z3.is_expr(right):
                left = coerce(left, right.sort())
            elif isinstance(right, tuple) and z3.is_expr(left):
                right = coerce(right, left.sort())
            else:
                raise Unsupported('tuple comparison')
        if z3.is_expr(left) and z3.is_expr(right) and not (so.is_xr(left) or so.is_xr(right)):
            ls, rs = left.sort(), right.sort()
            numeric = lambda s: s == I or s == R
            if not (numeric(ls) and numeric(rs)):
                if isinstance(op, (ast.Eq, ast.NotEq)):
                    if ls != rs:
                        c = BoolVal(False)       # values of different types are never equal
                    else:
                        c = left == right
                    return c if isinstance(op, ast.Eq) else Not(c)
                raise Unsupported('order comparison on sort %s (opaque values) at line %d' % (ls, lineno))
        a, b, k = self.num2(left, right)
        if k == 'xr':
            tab = {ast.Eq: lambda: so.xr_eq(a, b), ast.NotEq: lambda: Not(so.xr_eq(a, b)),
                   ast.Lt: lambda: so.xr_lt(a, b), ast.LtE: lambda: so.xr_le(a, b),
                   ast.Gt: lambda: so.xr_lt(b, a), ast.GtE: lambda: so.xr_le(b, a)}
        else:
            tab = {ast.Eq: lambda: a == b, ast.NotEq: lambda: a != b, ast.Lt: lambda: a < b,
                   ast.LtE: lambda: a <= b, ast.Gt: lambda: a > b, ast.GtE: lambda: a >= b}
        return tab[type(op)]()

    def cmp_const(self, op, left, right, lineno):
        # status literals compared with status terms; other strings compared structurally
        def conv(x, other):
            if isinstance(x, PyConst) and isinstance(x.v, str) and z3.is_expr(other) and other.sort() == so.Status():
                if x.v in so.S['status_const']:
                    return so.S['status_const'][x.v]
                return None
            return x
        l2, r2 = conv(left, right), conv(right, left)
        if not isinstance(op, (ast.Eq, ast.NotEq)):
            raise Unsupported('ordering of constants')
        if l2 is None or r2 is None:
            c = BoolVal(False)
        elif isinstance(l2, PyConst) and isinstance(r2, PyConst):
            c = BoolVal(l2.v == r2.v)
        elif z3.is_expr(l2) and z3.is_expr(r2):
            c = l2 == r2
        else:
            c = BoolVal(False)
        return c if isinstance(op, ast.Eq) else Not(c)

    def ev_Compare(self, e, env):
        left = self.ev(e.left, env)
        res = []
        for op, r in zip(e.ops, e.comparators):
            right = self.ev(r, env)
            res.append(self.cmp1(op, left, right, e.lineno))
            left = right
        return And(*res) if len(res) > 1 else res[0]

    def contains(self, cont, item, lineno):
        if isinstance(cont, (SDict, SDictOfLists)):
            return cont.dom[coerce(item, cont.ksort)]
        if isinstance(cont, SSet):
            return cont.dom[coerce(item, cont.ksort)]
        if isinstance(cont, SList):
            x = self.pack(item, cont.esort)
            return so.exists_idx(cont.n, lambda i: cont.a[i] == x)
        if isinstance(cont, (_EmptyList, _EmptyDict)):
            return BoolVal(False)
        if isinstance(cont, SObj):
            return self.call_contract(cont.cls + '.__contains__', [cont, item], {}, lineno)
        if isinstance(cont, _PyList) or isinstance(cont, tuple):
            items = cont.items if isinstance(cont, _PyList) else cont
            return Or(*[self.cmp1(ast.Eq(), item, x, lineno) for x in items]) if items else BoolVal(False)
        h = self.lib.contains(self, cont, item, lineno)
        if h is not None:
            return h
        raise Unsupported('membership test on %r' % (cont,))

    def truth(self, v, lineno=0):
        if v is NONE:
            return BoolVal(False)
        if isinstance(v, bool):
            return BoolVal(v)
        if z3.is_expr(v):
            if z3.is_bool(v):
                return v
            if z3.is_int(v) or z3.is_real(v):
                return v != 0
            if so.is_xr(v):
                return Or(so.xr_isinf(v), so.xr_val(v) != 0)
            if v.sort() == so.U() or v.sort() == so.St():
                # truthiness of a hashable label is unknown (0 and '' are falsy): uninterpreted predicate
                f = z3.Function('truthy_%s' % v.sort(), v.sort(), B)
                return f(v)
            raise Unsupported('truthiness of sort %s' % v.sort())
        if isinstance(v, SList):
            return v.n > 0
        if isinstance(v, (_EmptyList, _EmptyDict)):
            return BoolVal(False)
        if isinstance(v, _PyList):
            return BoolVal(len(v.items) > 0)
        if isinstance(v, tuple):
            return BoolVal(len(v) > 0)
        if isinstance(v, SObj):
            q = v.cls + '.__len__'
            if self.registry.has(q):
                return self.call_contract(q, [v], {}, lineno) != 0
            return BoolVal(True)
        if isinstance(v, (Closure, Callback, FuncRef)):
            return BoolVal(True)
        if isinstance(v, PyConst):
            return BoolVal(bool(v.v))
        h = self.lib.truth(self, v, lineno)
        if h is not None:
            return h
        raise Unsupported('truthiness of %r' % (v,))

    def ev_Subscript(self, e, env):
        base = self.ev(e.value, env)
        if isinstance(e.slice, ast.Slice):
            return self.lib.slice(self, base, e.slice, env, e.lineno)
        k = self.ev(e.slice, env)
        return self.getitem(base, k, e.lineno)

    def getitem(self, base, k, lineno):
        if isinstance(base, tuple) and base and isinstance(base[0], str) and base[0] in ('gadj', 'gadj1', 'gadj2', 'gnodes', 'gnode1'):
            h = self.lib.getitem(self, base, k, lineno)
            if h is not None:
                return h
        if isinstance(base, tuple) or isinstance(base, _PyList):
            items = base if isinstance(base, tuple) else base.items
            kk = z3.simplify(k) if z3.is_expr(k) else k
            if z3.is_expr(kk) and z3.is_int_value(kk):
                idx = kk.as_long()
                if not (-len(items) <= idx < len(items)):
                    self.oblige('safety', 'index-in-range', lineno, BoolVal(False))
                    raise PathEnd()
                return items[idx]
            raise Unsupported('symbolic index into a python tuple at line %d' % lineno)
        if isinstance(base, SList):
            if not (z3.is_expr(k) and z3.is_int(k)):
                raise Unsupported('list index of sort %s (opaque value used as index) at line %d'
                                  % (k.sort() if z3.is_expr(k) else type(k).__name__, lineno))
            ks = z3.simplify(k)
            if z3.is_int_value(ks) and ks.as_long() < 0:
                self.oblige('safety', 'index-in-range', lineno, base.n + ks >= 0)
                k = base.n + ks
            else:
                self.oblige('safety', 'index-in-range', lineno, And(0 <= k, k < base.n))
            v = base.a[k]
            return v
        if isinstance(base, _EmptyList):
            self.oblige('safety', 'index-in-range', lineno, BoolVal(False))
            raise PathEnd()
        if isinstance(base, SHistory):
            return base.at(coerce(k, so.U()))
        if isinstance(base, SDictOfLists):
            kk = coerce(k, base.ksort)
            if base.default_empty:
                base.dom = z3.Store(base.dom, kk, BoolVal(True))
            else:
                self.oblige('safety', 'key-present', lineno, base.dom[kk])
            return base.at(kk)
        if isinstance(base, SDict):
            kk = coerce(k, base.ksort)
            if base.default is None:
                self.oblige('safety', 'key-present', lineno, base.dom[kk])
            elif not getattr(base, 'no_insert', False):
                base.dom = z3.Store(base.dom, kk, BoolVal(True))      # defaultdict read inserts the key
            if base.vobj is not None:
                return base.vobj(kk)
            return base.val[kk]
        h = self.lib.getitem(self, base, k, lineno)
        if h is not None:
            return h
        raise Unsupported('subscript on %r at line %d' % (base, lineno))

    def ev_Lambda(self, e, env):
        return Closure(e, env, '<lambda>')

    def ev_ListComp(self, e, env):
        return self.lib.listcomp(self, e, env)

    def ev_DictComp(self, e, env):
        return self.lib.dictcomp(self, e, env)

    def ev_GeneratorExp(self, e, env):
        return ('genexp', e, env)

    def ev_Starred(self, e, env):
        raise Unsupported('starred expression outside a call')

    # ---- calls -------------------------------------------------------------------------------------
    def ev_Call(self, e, env):
        args = []
        for a in e.args:
            if isinstance(a, ast.Starred):
                v = self.ev(a.value, env)
                if isinstance(v, tuple):
                    args.extend(v)
                elif isinstance(v, _PyList):
                    args.extend(v.items)
                elif z3.is_expr(v) and v.sort() == so.Pair():
                    args.extend([so.Pair().fst(v), so.Pair().snd(v)])
                else:
                    raise Unsupported('*args of unknown length at line %d' % e.lineno)
            else:
                args.append(self.ev(a, env))
        kw = {}
        for k in e.keywords:
            if k.arg is None:
                v = self.ev(k.value, env)
                if isinstance(v, _EmptyDict):
                    continue
                if isinstance(v, dict):
                    kw.update(v)
                    continue
                raise Unsupported('**kwargs of unknown content at line %d' % e.lineno)
            kw[k.arg] = self.ev(k.value, env)
        f = self.ev(e.func, env)
        return self.call(f, args, kw, e.lineno, e)

    def call(self, f, args, kw, lineno, node=None):
        if isinstance(f, Closure):
            return self.call_closure(f, args, kw, lineno)
        if isinstance(f, Callback):
            return f.fn(self, args, kw, lineno)
        if isinstance(f, FuncRef):
            return self.call_contract(f.qualname, args, kw, lineno)
        if isinstance(f, tuple) and f and isinstance(f[0], str) and f[0] == 'boundmethod':
            return self.call_contract(f[2], [f[1]] + args, kw, lineno)
        if isinstance(f, tuple) and f and isinstance(f[0], str) and f[0] == 'boundlib':
            return self.lib.method(self, f[1], f[2], args, kw, lineno)
        if isinstance(f, tuple) and f and isinstance(f[0], str) and f[0] == 'gnodes':
            return f
        if isinstance(f, PyConst) and isinstance(f.v, tuple) and f.v[0] == 'modattr':
            name = f.v[1] + '.' + f.v[2]
            return self.lib.modcall(self, name, args, kw, lineno)
        if isinstance(f, PyConst) and isinstance(f.v, tuple) and f.v[0] == 'builtin':
            return self.lib.builtin(self, f.v[1], args, kw, lineno)
        if isinstance(f, PyConst) and isinstance(f.v, tuple) and f.v[0] == 'class':
            from .lib import Untyped
            u = Untyped(f.v[1])
            u.ctor_args = (args, kw)
            return u
        raise Unsupported('call of %r at line %d' % (f, lineno))

    def bind_args(self, fnode, args, kw, lineno, skip_self=False):
        """Python's binding of actual arguments onto a signature (positional, keyword, defaults)"""
        a = fnode.args
        names = [x.arg for x in a.posonlyargs + a.args]
        if len(args) > len(names) and a.vararg is None:
            self.oblige('safety', 'call-arity', lineno, BoolVal(False))
            raise PathEnd()
        bound = dict(zip(names, args))
        if a.vararg is not None:
            bound[a.vararg.arg] = tuple(args[len(names):])
        for k, v in kw.items():
            if k in bound or (k not in names and k not in [x.arg for x in a.kwonlyargs] and a.kwarg is None):
                self.oblige('safety', 'call-keyword:%s' % k, lineno, BoolVal(False))
                raise PathEnd()
            bound[k] = v
        defaults = a.defaults
        for nm, d in zip(names[len(names) - len(defaults):], defaults):
            if nm not in bound:
                bound[nm] = _Default(d)
        for x, d in zip(a.kwonlyargs, a.kw_defaults):
            if x.arg not in bound and d is not None:
                bound[x.arg] = _Default(d)
        for nm in names:
            if nm not in bound:
                self.oblige('safety', 'call-missing:%s' % nm, lineno, BoolVal(False))
                raise PathEnd()
        return bound

    def call_closure(self, f, args, kw, lineno):
        node = f.node
        if self.depth > 8:
            raise Unsupported('closure recursion')
        bound = self.bind_args(node, args, kw, lineno)
        env = dict(f.env) if False else _ChainEnv(f.env)
        for k, v in bound.items():
            if isinstance(v, _Default):
                v = self.ev(v.node, f.env)
            env[k] = v
        self.depth += 1
        saved_env = getattr(self, 'cur_env', None)
        try:
            if isinstance(node, ast.Lambda):
                return self.ev(node.body, env)
            try:
                self.exec_block(node.body, env)
            except ReturnEx as r:
                return r.value
            return NONE
        finally:
            self.depth -= 1
            self.cur_env = saved_env

    def static_call_ordinal(self, q, lineno):
        """ordinal of the call site of `q` at this line among the call sites of `q` in the analysed function, by source
        order (static: independent of the path taken); falls back to execution order for calls outside the function's AST"""
        tab = getattr(self, '_call_sites', None)
        if tab is None:
            tab = self._call_sites = {}
            fnode = getattr(self.unit, 'node', None)
            if fnode is not None:
                for x in ast.walk(fnode):
                    if isinstance(x, ast.Call):
                        nm = ast.unparse(x.func)
                        tab.setdefault(nm.split('.')[-1], []).append((x.lineno, x.col_offset))
                for k in tab:
                    tab[k] = sorted(set(tab[k]))
        short = q.split('.')[-1]
        lines = [ln for ln, _ in tab.get(short, [])]
        if lineno in lines:
            return lines.index(lineno)
        k = self.site_ord.get('call:' + q, 0)
        self.site_ord['call:' + q] = k + 1
        return len(lines) + k

    def env_view(self):
        """the current environment as a mapping keyed by the names the sidecar contract uses (renaming of locals applied)"""
        run = self

        class _Env:
            def __getitem__(self, k):
                return run.local(k)

            def __contains__(self, k):
                return k in run.cur_env or RENAME[0].get(k) in run.cur_env

            def get(self, k, default=None):
                return run.local(k) if k in self else default
        return _Env()

    def local(self, name):
        """value of a local / parameter of the analysed function as the sidecar contract names it (read through the renaming of
        locals when the current code renamed it); Unbindable when there is no such name"""
        env = self.cur_env
        if name not in env and RENAME[0].get(name) in env:
            name = RENAME[0][name]
        if name not in env:
            raise Unbindable('contract refers to %r which is not bound in the analysed function' % name)
        v = env[name]
        return v.value if isinstance(v, MaybeUnbound) else v

    def call_contract(self, q, args, kw, lineno):
        """modular call: precondition -> obligation, frame havocked, postcondition assumed"""
        c = self.registry.get(q)
        if c is None:
            raise Unsupported('no contract for callee %s (line %d)' % (q, lineno))
        fnode = self.registry.node(q)
        bound = self.bind_args(fnode, args, kw, lineno)
        for k, v in list(bound.items()):
            if isinstance(v, _Default):
                bound[k] = self.ev(v.node, self.unit.globals_env())
        if c.normalize is not None:
            c.normalize(self, bound)
        kcall = self.static_call_ordinal(q, lineno)
        self.call_log.append((q, kcall, lineno))
        hook = self.unit.sites.get(('call:' + q, kcall))
        if hook is not None:
            # delegation site: what the wrapper hands to the callee is itself specified
            goal = ceval(hook, self.view(self.cur_env), bound)
            self.emit_site('site:call:%s#%d' % (q, kcall), lineno, goal)
        s = View(bound, {'run': self, 'caller_view': True, 'ghost': self.ghost})
        if c.requires is not None:
            pre = ceval(c.requires, s)
            self.oblige('pre', 'pre:%s' % q, lineno, pre)
        if c.pure is not None:
            return c.pure(s)
        old = View(snap_env(bound), {'run': self, 'caller_view': True, 'ghost': self.ghost})
        for nm in c.modifies:
            v = bound.get(nm)
            if hasattr(v, 'havoc'):
                v.havoc()
                self.assume(v.wellformed())
        ret = c.make_ret(self, s) if c.make_ret is not None else NONE
        if c.ensures is not None:
            self.assume(ceval(c.ensures, old, s, ret))
        hook = self.unit.sites.get(('after:' + q, kcall))
        if hook is not None:
            # proof steps stated about the state right after the call (asserted, then available to the rest of the path)
            self.emit_site('site:after:%s#%d' % (q, kcall), lineno, ceval(hook, self.view(self.cur_env), bound))
        if c.may_raise is not None:
            # callee raises EoNError under this condition: the caller's path ends exceptionally
            cond = c.may_raise(old)
            if self.branch(cond, lineno):
                raise RaiseEx('EoNError', lineno)
        return ret

    # ----------------------------------------------------------------------------------------------
    # statements
    # ----------------------------------------------------------------------------------------------
    def exec_block(self, stmts, env):
        for s in stmts:
            self.exec(s, env)

    def exec(self, n, env):
        m = getattr(self, 'ex_' + type(n).__name__, None)
        if m is None:
            raise Unsupported('statement %s at line %d' % (type(n).__name__, n.lineno))
        self.cur_env = env
        self.cur_line = n.lineno
        return m(n, env)

    def ex_Expr(self, n, env):
        v = n.value
        if isinstance(v, ast.Constant):
            return                                      # docstring / bare constant
        if isinstance(v, ast.Call) and isinstance(v.func, ast.Name) and v.func.id == 'print':
            return                                      # dropped by the extraction (DESIGN 3.1)
        if isinstance(v, ast.Attribute):
            # a bare attribute expression (e.g. `self._update_max_weight` without parentheses) is a no-op
            self.ev(v.value, env)
            return
        self.ev(v, env)

    def ex_Pass(self, n, env):
        return

    def ex_Return(self, n, env):
        raise ReturnEx(self.ev(n.value, env) if n.value is not None else NONE)

    def ex_Raise(self, n, env):
        name = 'Exception'
        if n.exc is not None:
            x = n.exc.func if isinstance(n.exc, ast.Call) else n.exc
            name = x.attr if isinstance(x, ast.Attribute) else getattr(x, 'id', 'Exception')
        raise RaiseEx(name, n.lineno)

    def ex_Break(self, n, env):
        raise BreakEx()

    def ex_Continue(self, n, env):
        raise ContinueEx()

    def ex_FunctionDef(self, n, env):
        env[n.name] = Closure(n, env, n.name)

    def ex_Assert(self, n, env):
        c = self.truth(self.ev(n.test, env), n.lineno)
        self.oblige('safety', 'assert', n.lineno, c)
        self.assume(c)

    def ex_Delete(self, n, env):
        for t in n.targets:
            if isinstance(t, ast.Subscript):
                base = self.ev(t.value, env)
                k = self.ev(t.slice, env)
                if isinstance(base, SDict):
                    self.dict_pop(base, k, n.lineno)
                    continue
            raise Unsupported('del at line %d' % n.lineno)

    def dict_pop(self, d, k, lineno, check=True):
        kk = coerce(k, d.ksort)
        if check:
            self.oblige('safety', 'key-present', lineno, d.dom[kk])
        v = d.val[kk]
        d.dom = z3.Store(d.dom, kk, BoolVal(False))
        if d.default is not None:
            d.val = z3.Store(d.val, kk, d.default)
        return v

    def resolve_untyped(self, target, val):
        """an empty literal / defaultdict(...) gets its element types from the contract's typed locals"""
        from .lib import Untyped
        if isinstance(val, _PyDictLit):
            d = self.resolve_untyped(target, _EmptyDict())
            if isinstance(d, _EmptyDict):
                raise Unsupported('dict comprehension assigned to %s needs a typed local in the contract' % ast.unparse(target))
            for k, v in val.pairs:
                self.setitem(d, k, v, getattr(self, 'cur_line', 0))
            return d
        if not isinstance(val, (_EmptyList, _EmptyDict, Untyped)):
            return val
        try:
            key = ast.unparse(target)
        except Exception:
            return val
        mk = self.unit.locals_.get(self._rename_rev.get(key, key) if isinstance(key, str) else key)
        if mk is None and isinstance(val, Untyped) and getattr(val, 'default_factory', None) is not None:
            return val.default_factory()
        if mk is None:
            if isinstance(val, Untyped):
                raise Unsupported('%s(...) assigned to %s needs a typed local in the contract' % (val.what, key))
            return val
        if isinstance(val, Untyped) and val.default is not None and not isinstance(val.default, _EmptyList):
            return mk(self, key.replace('.', '_'), empty=True, default_value=val.default)
        if isinstance(val, Untyped) and getattr(val, 'ctor_args', None) is not None:
            return mk(self, key.replace('.', '_'), empty=True, ctor_args=val.ctor_args, what=val.what)
        return mk(self, key.replace('.', '_'), empty=True)

    def assign(self, target, val, env, lineno):
        val = self.resolve_untyped(target, val)
        if isinstance(target, ast.Name):
            ls = self.unit.local_sorts.get(self._rename_rev.get(target.id, target.id))
            if ls is not None and z3.is_expr(val):
                val = coerce(val, so.S[ls] if ls in so.S else {'R': R, 'I': I}[ls])
            env[target.id] = val
            return
        if isinstance(target, (ast.Tuple, ast.List)):
            items = self.unpack(val, len(target.elts), lineno)
            for t, v in zip(target.elts, items):
                self.assign(t, v, env, lineno)
            return
        if isinstance(target, ast.Attribute):
            base = self.ev(target.value, env)
            if isinstance(base, SObj):
                base.f[target.attr] = val
                return
            h = self.lib.setattr(self, base, target.attr, val, lineno)
            if h:
                return
            raise Unsupported('attribute store on %r at line %d' % (base, lineno))
        if isinstance(target, ast.Subscript):
            base = self.ev(target.value, env)
            if isinstance(target.slice, ast.Slice):
                raise Unsupported('slice store at line %d' % lineno)
            k = self.ev(target.slice, env)
            self.setitem(base, k, val, lineno)
            return
        raise Unsupported('assignment target at line %d' % lineno)

    def setitem(self, base, k, val, lineno):
        if isinstance(base, SList):
            if not (z3.is_expr(k) and z3.is_int(k)):
                raise Unsupported('list index of opaque sort at line %d' % lineno)
            ks = z3.simplify(k)
            if z3.is_int_value(ks) and ks.as_long() < 0:
                self.oblige('safety', 'index-in-range', lineno, base.n + ks >= 0)
                k = base.n + ks
            else:
                self.oblige('safety', 'index-in-range', lineno, And(0 <= k, k < base.n))
            base.a = z3.Store(base.a, k, self.pack(val, base.esort))
            return
        if isinstance(base, SHistory):
            if isinstance(val, tuple) and len(val) == 2 and all(isinstance(x, _EmptyList) for x in val):
                base.reset(coerce(k, so.U()))
                return
            raise Unsupported('store of %r into a node history at line %d' % (val, lineno))
        if isinstance(base, SDictOfLists):
            kk = coerce(k, base.ksort)
            if isinstance(val, _EmptyList):
                n, a = IntVal(0), base.vals[kk]
            elif isinstance(val, SList) and not isinstance(val.esort, TupleSpec):
                n, a = val.n, val.a
            else:
                raise Unsupported('store of %r into a dict of lists at line %d' % (val, lineno))
            base.dom = z3.Store(base.dom, kk, BoolVal(True))
            base.lens = z3.Store(base.lens, kk, n)
            base.vals = z3.Store(base.vals, kk, a)
            return
        if isinstance(base, SDict):
            kk = coerce(k, base.ksort)
            if base.vobj is not None:
                h = self.lib.setitem_obj(self, base, kk, val, lineno)
                if h:
                    return
                raise Unsupported('store of an object into dict %s at line %d' % (base.name, lineno))
            base.dom = z3.Store(base.dom, kk, BoolVal(True))
            base.val = z3.Store(base.val, kk, coerce(val, base.vsort))
            return
        if isinstance(base, _EmptyDict):
            raise Unsupported('store into an untyped dict literal at line %d (declare it in the contract locals)' % lineno)
        h = self.lib.setitem(self, base, k, val, lineno)
        if h:
            return
        raise Unsupported('subscript store on %r at line %d' % (base, lineno))

    def unpack(self, val, n, lineno):
        if isinstance(val, tuple):
            if len(val) != n:
                self.oblige('safety', 'unpack-arity', lineno, BoolVal(False))
                raise PathEnd()
            return list(val)
        if isinstance(val, _PyList):
            if len(val.items) != n:
                self.oblige('safety', 'unpack-arity', lineno, BoolVal(False))
                raise PathEnd()
            return list(val.items)
        if z3.is_expr(val) and val.sort() == so.Pair() and n == 2:
            return [so.Pair().fst(val), so.Pair().snd(val)]
        if z3.is_expr(val) and val.sort() == so.S['StPair'] and n == 2:
            return [so.S['StPair'].fst(val), so.S['StPair'].snd(val)]
        for spec in TupleSpec._cache.values():
            pass
        if isinstance(val, SList):
            self.oblige('safety', 'unpack-arity', lineno, val.n == n)
            return [val.a[IntVal(i)] for i in range(n)]
        raise Unsupported('unpacking %r at line %d' % (val, lineno))

    def ex_Assign(self, n, env):
        v = self.ev(n.value, env)
        for t in n.targets:
            self.assign(t, v, env, n.lineno)

    def ex_AugAssign(self, n, env):
        # evaluate target once
        if isinstance(n.target, ast.Name):
            cur = self.ev(ast.Name(id=n.target.id, ctx=ast.Load(), lineno=n.lineno, col_offset=0), env)
            v = self.ev(n.value, env)
            if isinstance(cur, SList) and isinstance(n.op, ast.Add):
                raise Unsupported('list += at line %d' % n.lineno)
            env[n.target.id] = self.binop(n.op, cur, v, n.lineno)
            return
        if isinstance(n.target, ast.Subscript):
            base = self.ev(n.target.value, env)
            k = self.ev(n.target.slice, env)
            cur = self.getitem(base, k, n.lineno)
            v = self.ev(n.value, env)
            self.setitem(base, k, self.binop(n.op, cur, v, n.lineno), n.lineno)
            return
        if isinstance(n.target, ast.Attribute):
            base = self.ev(n.target.value, env)
            cur = self.getattr(base, n.target.attr, n.lineno)
            v = self.ev(n.value, env)
            if isinstance(base, SObj):
                base.f[n.target.attr] = self.binop(n.op, cur, v, n.lineno)
                return
        raise Unsupported('augmented assignment at line %d' % n.lineno)

    def test_hook(self, c, lineno):
        """the comparison that consumes the latest random.random() draw is a specified site"""
        p = getattr(self, 'pending_u01', None)
        if p is None or not z3.is_expr(c):
            return
        k, u = p
        if not _mentions(c, u):
            return
        self.pending_u01 = None
        hook = self.unit.sites.get(('random.random:test', k))
        if hook is not None:
            goal = ceval(hook, self.view(self.cur_env), dict(cond=c, value=u))
            self.oblige('site', 'site:random.random:test#%d' % k, lineno, goal)
        elif 'random.random' in self.unit.sites_strict:
            self.oblige('site', 'site-unexpected:random.random:test#%d' % k, lineno, BoolVal(False))

    def ex_If(self, n, env):
        c = self.truth(self.ev(n.test, env), n.lineno)
        self.test_hook(c, n.lineno)
        if self.branch(c, n.lineno):
            self.exec_block(n.body, env)
        else:
            self.exec_block(n.orelse, env)

    def ex_Try(self, n, env):
        # supported pattern: the body cannot raise in the model -> handlers are dead code
        h = self.lib.try_stmt(self, n, env)
        if h:
            return
        raise Unsupported('try statement at line %d' % n.lineno)

    # ---- loops ---------------------------------------------------------------------------------------
    def loop_spec(self, n):
        k = self.unit.loop_ordinal(n)
        return k, self.unit.loops.get(k)

    def modified_in(self, body_nodes, env):
        """over-approximation of what a loop body modifies: (assigned names, heap objects, dom-only dicts)"""
        names, objs, domonly = set(), [], []

        def root_val(x):
            try:
                if isinstance(x, ast.Name):
                    return env.get(x.id) if x.id in env else None
                if isinstance(x, ast.Attribute):
                    b = root_val(x.value)
                    if isinstance(b, SObj):
                        return b.f.get(x.attr)
                    return None
                if isinstance(x, ast.Subscript):
                    return root_val(x.value)
            except Exception:
                return None
            return None

        def add(o):
            if o is not None and hasattr(o, 'havoc') and all(o is not p for p in objs):
                objs.append(o)

        comp_targets = set()          # comprehension variables are local to the comprehension (Python 3): not assignments of the body
        for top in body_nodes:
            for x in ast.walk(top):
                if isinstance(x, (ast.ListComp, ast.SetComp, ast.DictComp, ast.GeneratorExp)):
                    for g in x.generators:
                        for y in ast.walk(g.target):
                            comp_targets.add(id(y))
        for top in body_nodes:
            for x in ast.walk(top):
                if isinstance(x, ast.Name) and isinstance(x.ctx, ast.Store):
                    if id(x) not in comp_targets:
                        names.add(x.id)
                elif isinstance(x, (ast.FunctionDef,)):
                    names.add(x.name)
                elif isinstance(x, (ast.Subscript, ast.Attribute)) and isinstance(x.ctx, (ast.Store, ast.Del)):
                    add(root_val(x.value))
                elif isinstance(x, ast.AugAssign) and isinstance(x.target, (ast.Subscript, ast.Attribute)):
                    add(root_val(x.target.value))
                elif isinstance(x, ast.Subscript) and isinstance(x.ctx, ast.Load):
                    o = root_val(x.value)
                    if isinstance(o, (SDict, SDictOfLists)) and o.default is not None and not getattr(o, 'no_insert', False) \
                            and all(o is not p for p in domonly):
                        domonly.append(o)
                elif isinstance(x, ast.Call):
                    f = x.func
                    if isinstance(f, ast.Attribute):
                        recv = root_val(f.value)
                        if isinstance(recv, SObj):
                            c = self.registry.get(recv.cls + '.' + f.attr)
                            if c is None or 'self' in c.modifies:
                                add(recv)
                        elif recv is not None and f.attr in MUTATING_METHODS:
                            add(recv)
                    callee_mod = None
                    fv = None
                    if isinstance(f, ast.Name):
                        fv = env.get(f.id) if f.id in env else (FuncRef(f.id) if f.id in self.registry.functions else None)
                    if isinstance(fv, FuncRef):
                        c = self.registry.get(fv.qualname)
                        if c is not None:
                            callee_mod = self.mod_args(c, fv.qualname, x)
                    elif isinstance(fv, Callback):
                        callee_mod = getattr(fv, 'modifies_args', [])
                    elif isinstance(fv, Closure):
                        inner_names, inner_objs, inner_dom = self.modified_in(
                            fv.node.body if isinstance(fv.node.body, list) else [fv.node.body], _ChainEnv(fv.env))
                        for o in inner_objs:
                            add(o)
                        for o in inner_dom:
                            if all(o is not p for p in domonly):
                                domonly.append(o)
                        callee_mod = []
                    if callee_mod is None and isinstance(f, ast.Name) and f.id in self.lib.builtins and f.id not in env:
                        callee_mod = []          # builtins used by the subset do not mutate their arguments
                    if callee_mod is None:
                        if isinstance(f, ast.Attribute):
                            # library / method call: arguments are not mutated by the tabulated library calls,
                            # except the mutating functions listed here
                            nm = ast.unparse(f)
                            if nm in ('heapq.heappush', 'heapq.heappop', 'random.shuffle'):
                                for a in x.args[:1]:
                                    add(root_val(a))
                        else:
                            for a in list(x.args) + [k.value for k in x.keywords]:
                                add(root_val(a))
                    else:
                        for a in callee_mod:
                            add(root_val(a))
        domonly = [o for o in domonly if all(o is not p for p in objs)]
        return names, objs, domonly

    def mod_args(self, c, q, call):
        """ast argument nodes bound to the callee's modified parameters"""
        fnode = self.registry.node(q)
        names = [x.arg for x in fnode.args.posonlyargs + fnode.args.args]
        out = []
        for i, a in enumerate(call.args):
            if i < len(names) and names[i] in c.modifies:
                out.append(a)
        for k in call.keywords:
            if k.arg in c.modifies:
                out.append(k.value)
        return out

    def havoc_for_loop(self, names, objs, domonly, env):
        for nm in sorted(names):
            v = env.get(nm) if nm in env else None
            if isinstance(v, MaybeUnbound):
                v = None
            if v is None:
                mk = self.unit.locals_.get(self._rename_rev.get(nm, nm))
                if mk is not None:
                    # not bound at loop entry: bound or not after some iterations (ghost flag)
                    env[nm] = MaybeUnbound(fresh('bound_' + nm, B), mk(self, nm))
                continue
            if z3.is_expr(v):
                env[nm] = fresh(nm, v.sort())
            elif hasattr(v, 'havoc'):
                # the NAME may be rebound to another object of the same shape: give it a fresh object
                mk = self.unit.locals_.get(self._rename_rev.get(nm, nm))
                if mk is not None:
                    env[nm] = mk(self, nm)
                    self.assume(env[nm].wellformed())
                else:
                    nv = v.snap()
                    nv.havoc()
                    env[nm] = nv
                    self.assume(nv.wellformed())
            elif v is NONE or isinstance(v, (tuple, PyConst, Closure, _EmptyList, _EmptyDict, _PyList)):
                mk = self.unit.locals_.get(self._rename_rev.get(nm, nm))
                if mk is not None:
                    env[nm] = mk(self, nm)
                elif isinstance(v, tuple) and all(z3.is_expr(x) for x in v):
                    env[nm] = tuple(fresh(nm, x.sort()) for x in v)
                # else: keep (python-level value assumed loop-invariant only if not reassigned with another shape)
        for o in objs:
            o.havoc()
            self.assume(o.wellformed())
        for o in domonly:
            old = o.dom
            o.havoc_dom()
            self.assume(so.forall(o.ksort, lambda k: Implies(old[k], o.dom[k])))
            self.assume(o.wellformed())

    def ex_While(self, n, env):
        k, spec = self.loop_spec(n)
        if n.orelse:
            raise Unsupported('while-else')
        if spec is None:
            raise Unsupported('loop #%d (line %d) has no invariant in the contract' % (k, n.lineno))
        entry = View(snap_env(env))
        outer = self.loop_stack[-1] if self.loop_stack else None
        it = LoopIter(None, None, entry, outer=outer)
        self.oblige('loop-init', 'loop%d-init' % k, n.lineno, ceval(spec.inv, self.view(env), it))
        names, objs, domonly = self.modified_in(n.body + [n.test], env)
        for nm in getattr(spec, 'havoc_names', ()):
            o = env.get(nm) if nm in env else None
            if o is not None and hasattr(o, 'havoc') and all(o is not p for p in objs):
                objs.append(o)
        domonly = [o for o in domonly if all(o is not p for p in objs)]
        self.havoc_for_loop(names, objs, domonly, env)
        self.assume(ceval(spec.inv, self.view(env), it))
        self.assume_lemmas(spec, env, it)
        it.head = View(snap_env(env))
        c = self.truth(self.ev(n.test, env), n.lineno)
        if getattr(spec, 'step_lemma', None) is not None:
            # the body is exactly the statement the lemma unit `step_lemma` is about: preservation of the
            # invariant is that unit's obligation, not re-derived here
            want = spec.step_body_src
            got = '; '.join(ast.unparse(b) for b in n.body)
            self.oblige('loop-preserve', 'loop%d-body-is:%s' % (k, want), n.lineno, BoolVal(got == want))
            self.assume(Not(c))
            return
        if self.branch(c, n.lineno):
            self.loop_stack.append(it)
            try:
                self.exec_block(n.body, env)
            except ContinueEx:
                pass
            except BreakEx:
                self.loop_stack.pop()
                return
            self.loop_stack.pop()
            self.assume_lemmas(spec, env, it)
            if getattr(spec, 'ghost_update', None) is not None:
                before = {nm: id(v) for nm, v in env.items() if not nm.startswith('ghost_')}
                ceval(spec.ghost_update, self.view(env), it)
                if any(before.get(nm) != id(v) for nm, v in env.items() if not nm.startswith('ghost_')):
                    raise Unbindable('a ghost update rebinds a program variable')
            self.oblige('loop-preserve', 'loop%d-preserve' % k, n.lineno, ceval(spec.inv, self.view(env), it))
            if getattr(spec, 'step_post', None) is not None:
                self.oblige('loop-preserve', 'loop%d-step' % k, n.lineno, ceval(spec.step_post, self.view(env), it))
            if spec.variant is not None:
                pass
            raise PathEnd()
        # loop exit: invariant and negated guard are in the path condition
        return

    def ex_For(self, n, env):
        if n.orelse:
            raise Unsupported('for-else')
        seqv = self.ev(n.iter, env)
        seq, mkitem = self.lib.iter_seq(self, seqv, n.lineno)
        if seq is None:
            # concrete python-level sequence: unroll (no invariant needed); does not consume a loop ordinal
            for item in mkitem:
                self.assign(n.target, item, env, n.lineno)
                try:
                    self.exec_block(n.body, env)
                except ContinueEx:
                    continue
                except BreakEx:
                    break
            return
        k, spec = self.loop_spec(n)
        if spec is None:
            raise Unsupported('loop #%d (line %d) has no invariant in the contract' % (k, n.lineno))
        entry = View(snap_env(env))
        outer = self.loop_stack[-1] if self.loop_stack else None
        it0 = LoopIter(IntVal(0), seq, entry, outer=outer)
        self.oblige('loop-init', 'loop%d-init' % k, n.lineno, ceval(spec.inv, self.view(env), it0))
        names, objs, domonly = self.modified_in(n.body, env)
        tnames = {x.id for x in ast.walk(n.target) if isinstance(x, ast.Name)}
        self.havoc_for_loop(names - tnames, objs, domonly, env)
        i = fresh('it', I)
        self.assume(And(0 <= i, i <= seq.n))
        it = LoopIter(i, seq, entry, outer=outer)
        self.assume(ceval(spec.inv, self.view(env), it))
        self.assume_lemmas(spec, env, it)
        if self.branch(i < seq.n, n.lineno):
            item = mkitem(i)
            self.assign(n.target, item, env, n.lineno)
            self.loop_stack.append(it)
            ncalls0 = len(self.call_log)
            try:
                self.exec_block(n.body, env)
            except ContinueEx:
                pass
            except BreakEx:
                # state at break flows to the code after the loop; the loop variable keeps its value
                self.loop_stack.pop()
                return
            self.loop_stack.pop()
            for callee, want in sorted((getattr(spec, 'body_calls', None) or {}).items()):
                # the body must hand every item to this callee exactly `want` times (on every path through the body)
                got = sum(1 for c in self.call_log[ncalls0:] if c[0] == callee)
                self.oblige('site', 'loop%d-body-calls:%s' % (k, callee), n.lineno, BoolVal(got == want))
            it2 = LoopIter(i + 1, seq, entry, outer=outer)
            self.assume_lemmas(spec, env, it2)
            self.oblige('loop-preserve', 'loop%d-preserve' % k, n.lineno, ceval(spec.inv, self.view(env), it2))
            raise PathEnd()
        # exit: i == n.  The loop variable keeps the last item (or stays as it was if the sequence is empty);
        # modelled only when the variable is read after the loop.
        if self.loaded_after(n, tnames):
            if self.branch(seq.n > 0, n.lineno):
                self.assign(n.target, mkitem(seq.n - 1), env, n.lineno)
        return

    def loaded_after(self, loop, names):
        """is a loop variable read after the loop (not counting later loops that rebind it)?"""
        end = loop.end_lineno
        rebinding = []
        for x in ast.walk(self.unit.node):
            if isinstance(x, ast.For) and x.lineno > end:
                tn = {y.id for y in ast.walk(x.target) if isinstance(y, ast.Name)}
                rebinding.append((x.lineno, x.end_lineno, tn))
        for x in ast.walk(self.unit.node):
            if isinstance(x, ast.Name) and isinstance(x.ctx, ast.Load) and x.id in names and x.lineno > end:
                if any(lo <= x.lineno <= hi and x.id in tn for lo, hi, tn in rebinding):
                    continue
                return True
        return False

    def assume_lemmas(self, spec, env, it):
        if spec.lemmas is not None:
            for lm in spec.lemmas(self.view(env), it):
                self.assume(lm)

    def view(self, env):
        return View(env, {'old': self.old, 'run': self})

    # ----------------------------------------------------------------------------------------------
    def site(self, name, lineno, **info):
        """a specified-nondeterminism call site (random.*): run the contract's site obligation, log the draw"""
        k = self.site_ord.get(name, 0)
        self.site_ord[name] = k + 1
        self.draws.append((name, k, info))
        if name == 'random.random':
            self.pending_u01 = (k, info['value'])
        hook = self.unit.sites.get((name, k))
        if hook is None and (name + ':test', k) in self.unit.sites:
            return
        if hook is not None:
            goal = ceval(hook, self.view(self.cur_env), info)
            self.oblige('site', 'site:%s#%d' % (name, k), lineno, goal)
        elif self.unit.sites_strict and name in self.unit.sites_strict:
            # a draw site the contract does not know about: the law of the process may have changed
            self.oblige('site', 'site-unexpected:%s#%d' % (name, k), lineno, BoolVal(False))


def _flatten_and(g):
    if z3.is_and(g):
        out = []
        for ch in g.children():
            out += _flatten_and(ch)
        return out
    return [g]


def _mentions(term, var):
    seen = set()
    stack = [term]
    while stack:
        t = stack.pop()
        if t.get_id() in seen:
            continue
        seen.add(t.get_id())
        if t.eq(var):
            return True
        if z3.is_quantifier(t):
            stack.append(t.body())
        else:
            stack.extend(t.children())
    return False


class _Default:
    """an argument not supplied at a call: the default expression of the signature"""

    def __init__(self, node):
        self.node = node


class _ChainEnv(dict):
    """local environment of an inlined closure: reads fall back to the captured environment; writes are local"""

    def __init__(self, parent):
        super().__init__()
        self.parent = parent

    def __contains__(self, k):
        return dict.__contains__(self, k) or k in self.parent

    def __getitem__(self, k):
        if dict.__contains__(self, k):
            return dict.__getitem__(self, k)
        return self.parent[k]

    def get(self, k, d=None):
        return self[k] if k in self else d


class _EmptyList:
    """[] literal whose element sort is not yet known"""
    kind = 'emptylist'

    def __repr__(self):
        return '[]'


class _EmptyDict:
    kind = 'emptydict'

    def __repr__(self):
        return '{}'


class _PyList:
    """python list of non-scalar values with concrete length (e.g. list of objects)"""

    def __init__(self, items):
        self.items = list(items)
