"""Sorts, verification mode and the mode-polymorphic quantifier / aggregate interface (DESIGN 3.9).

Two instantiations of the same contracts:
  proof mode   : node sort U uninterpreted, real z3 quantifiers, wsum/cnt uninterpreted + update axioms
  finite mode  : U = enumeration of Mode.usize elements, quantifiers expanded, list lengths assumed
                 <= Mode.lmax, wsum/cnt expanded to explicit finite sums  (used ONLY to refute
                 obligations that proof mode did not discharge, and for vacuity/reachability guards)
"""
import itertools
import z3
from z3 import And, Or, Not, Implies, If, ForAll, Exists, IntVal, RealVal, BoolVal

I, R, B = z3.IntSort(), z3.RealSort(), z3.BoolSort()


class Mode:
    finite = False
    usize = 3
    lmax = 3
    gen = 0          # generation counter: sort names must be unique per (re)initialisation


_counter = itertools.count()
S = {}               # current sorts: 'U', 'Pair', 'Status', 'St', 'XR', plus element lists in finite mode


def reset_counter():
    global _counter
    _counter = itertools.count()


def fresh(name, sort):
    return z3.Const('%s!%d' % (name, next(_counter)), sort)


def set_mode(finite, usize=3, lmax=3):
    """(Re)create all sorts for the requested mode. Must be called before any value is built."""
    Mode.finite, Mode.usize, Mode.lmax = finite, usize, lmax
    Mode.gen += 1
    g = Mode.gen
    S.clear()
    _fun_cache.clear()
    if finite:
        U, uel = z3.EnumSort('U%d_%d' % (usize, g), ['n%d' % i for i in range(usize)])
        St, stel = z3.EnumSort('St%d_%d' % (usize, g), ['st%d' % i for i in range(usize)])
    else:
        U, uel = z3.DeclareSort('U_%d' % g), None
        St, stel = z3.DeclareSort('St_%d' % g), None
    S['U'], S['U_elems'] = U, uel
    S['St'], S['St_elems'] = St, stel
    Status, sel = z3.EnumSort('Status_%d' % g, ['S', 'I', 'R'])
    S['Status'], S['Status_elems'] = Status, sel
    S['status_const'] = dict(zip(['S', 'I', 'R'], sel))
    P = z3.Datatype('Pair_%d' % g)
    P.declare('mk', ('fst', U), ('snd', U))
    P = P.create()
    S['Pair'] = P
    X = z3.Datatype('XR_%d' % g)            # extended real: finite value or +infinity
    X.declare('fin', ('val', R))
    X.declare('pinf')
    X = X.create()
    S['XR'] = X
    SP = z3.Datatype('StPair_%d' % g)
    SP.declare('mk', ('fst', St), ('snd', St))
    SP = SP.create()
    S['StPair'] = SP
    return S


def U():
    return S['U']


def Pair():
    return S['Pair']


def XR():
    return S['XR']


def Status():
    return S['Status']


def St():
    return S['St']


def mkpair(a, b):
    return S['Pair'].mk(a, b)


def elems(sort):
    """All values of a finite sort (finite mode only)."""
    if sort == S['U']:
        return list(S['U_elems'])
    if sort == S['St']:
        return list(S['St_elems'])
    if sort == S['Status']:
        return list(S['Status_elems'])
    if sort == B:
        return [BoolVal(True), BoolVal(False)]
    if sort == S['Pair']:
        return [S['Pair'].mk(a, b) for a in S['U_elems'] for b in S['U_elems']]
    if sort == S['StPair']:
        return [S['StPair'].mk(a, b) for a in S['St_elems'] for b in S['St_elems']]
    raise ValueError('sort %s is not finite' % sort)


def is_finite_sort(sort):
    if sort == S['Status'] or sort == B:
        return True
    return Mode.finite and (sort == S['U'] or sort == S['St'] or sort == S['Pair'] or sort == S['StPair'])


# --------------------------------------------------------------------------------------------------
# quantifiers
# --------------------------------------------------------------------------------------------------

def forall(sort, f, pats=None):
    """forall x:sort. f(x);  pats: optional function x -> list of pattern terms (proof mode)."""
    if is_finite_sort(sort):
        return And(*[f(e) for e in elems(sort)])
    x = fresh('q', sort)
    body = f(x)
    if pats is not None:
        p = pats(x)
        return ForAll([x], body, patterns=p if isinstance(p, list) else [p])
    return ForAll([x], body)


def exists(sort, f):
    if is_finite_sort(sort):
        return Or(*[f(e) for e in elems(sort)])
    x = fresh('e', sort)
    return Exists([x], f(x))


def forall2(sort1, sort2, f):
    return forall(sort1, lambda a: forall(sort2, lambda b: f(a, b)))


def forall_idx(n, f, lo=0):
    """forall i in [lo, n). f(i).   In finite mode the bound n <= lmax is an ASSUMPTION made where the
    list is created (never part of a goal), so here we only expand."""
    if Mode.finite:
        return And(*[Implies(And(lo <= IntVal(i), IntVal(i) < n), f(IntVal(i))) for i in range(Mode.lmax + 1)])
    i = fresh('i', I)
    return ForAll([i], Implies(And(lo <= i, i < n), f(i)))


def exists_idx(n, f, lo=0):
    if Mode.finite:
        return Or(*[And(lo <= IntVal(i), IntVal(i) < n, f(IntVal(i))) for i in range(Mode.lmax + 1)])
    i = fresh('j', I)
    return Exists([i], And(lo <= i, i < n, f(i)))


# --------------------------------------------------------------------------------------------------
# aggregates:  wsum(a) = sum over all keys of a[k]   (a : Array K Real, zero outside a finite support)
#              cnt(a, x) = number of keys k with a[k] == x  (a : Array K V) -- only meaningful for a finite K
# proof mode: uninterpreted + update axioms (true facts about finite sums; trusted base item 4)
# --------------------------------------------------------------------------------------------------
_fun_cache = {}


def _wsum_fun(ksort):
    key = ('wsum', str(ksort))
    if key not in _fun_cache:
        _fun_cache[key] = z3.Function('wsum_%s' % ksort, z3.ArraySort(ksort, R), R)
    return _fun_cache[key]


def wsum(arr):
    ksort = arr.sort().domain()
    if Mode.finite:
        return z3.Sum(*[arr[k] for k in elems(ksort)])
    return _wsum_fun(ksort)(arr)


def wsum_axioms(ksort):
    """Update lemmas for wsum over key sort ksort (proof mode)."""
    if Mode.finite:
        return []
    W = _wsum_fun(ksort)
    A = z3.ArraySort(ksort, R)
    a = z3.Const('wa_%s' % ksort, A)
    k = z3.Const('wk_%s' % ksort, ksort)
    x = z3.Real('wx_%s' % ksort)
    return [
        ForAll([a, k, x], W(z3.Store(a, k, x)) == W(a) - a[k] + x, patterns=[W(z3.Store(a, k, x))]),
        W(z3.K(ksort, RealVal(0))) == 0,
    ]


def wsum_nonneg_lemma(arr):
    """(forall k. arr[k] >= 0) -> (wsum(arr) >= 0  and  forall k. arr[k] <= wsum(arr)).
    Instantiated explicitly by contracts that need it (finite mode: a tautology, returns True)."""
    if Mode.finite:
        return BoolVal(True)
    ksort = arr.sort().domain()
    return Implies(forall(ksort, lambda k: arr[k] >= 0),
                   And(wsum(arr) >= 0, forall(ksort, lambda k: arr[k] <= wsum(arr))))


def wsum_zero_lemma(arr):
    """(forall k. arr[k] >= 0) and wsum(arr) == 0 -> forall k. arr[k] == 0  -- follows from the previous."""
    return BoolVal(True)


def _cnt_fun(ksort, vsort):
    key = ('cnt', str(ksort), str(vsort))
    if key not in _fun_cache:
        _fun_cache[key] = z3.Function('cnt_%s_%s' % (ksort, vsort), z3.ArraySort(ksort, vsort), vsort, I)
    return _fun_cache[key]


def cnt(arr, x):
    """number of keys (of the finite node universe) whose value is x"""
    ksort, vsort = arr.sort().domain(), arr.sort().range()
    if Mode.finite:
        return z3.Sum(*[If(arr[k] == x, IntVal(1), IntVal(0)) for k in elems(ksort)])
    return _cnt_fun(ksort, vsort)(arr, x)


def cnt_axioms(ksort, vsort):
    if Mode.finite:
        return []
    C = _cnt_fun(ksort, vsort)
    A = z3.ArraySort(ksort, vsort)
    a = z3.Const('ca_%s_%s' % (ksort, vsort), A)
    k = z3.Const('ck_%s_%s' % (ksort, vsort), ksort)
    v = z3.Const('cv_%s_%s' % (ksort, vsort), vsort)
    x = z3.Const('cx_%s_%s' % (ksort, vsort), vsort)
    return [
        ForAll([a, k, v, x],
               C(z3.Store(a, k, v), x) == C(a, x) - If(a[k] == x, 1, 0) + If(v == x, 1, 0),
               patterns=[C(z3.Store(a, k, v), x)]),
        ForAll([a, x], C(a, x) >= 0, patterns=[C(a, x)]),
    ]


def cnt_pos_lemma(arr, k):
    """arr[k] == x  ->  cnt(arr, x) >= 1   (instantiated at a particular key)."""
    if Mode.finite:
        return BoolVal(True)
    return cnt(arr, arr[k]) >= 1


# --------------------------------------------------------------------------------------------------
# extended reals
# --------------------------------------------------------------------------------------------------

def is_xr(t):
    return z3.is_expr(t) and t.sort() == S['XR']


def xr_fin(r):
    if z3.is_int(r):
        r = z3.ToReal(r)
    return S['XR'].fin(r)


def xr_inf():
    return S['XR'].pinf


def xr_isinf(t):
    return S['XR'].is_pinf(t)


def xr_val(t):
    return S['XR'].val(t)


def to_xr(t):
    return t if is_xr(t) else xr_fin(t)


def xr_add(a, b):
    a, b = to_xr(a), to_xr(b)
    return If(Or(xr_isinf(a), xr_isinf(b)), xr_inf(), xr_fin(xr_val(a) + xr_val(b)))


def xr_lt(a, b):
    a, b = to_xr(a), to_xr(b)
    return And(Not(xr_isinf(a)), Or(xr_isinf(b), xr_val(a) < xr_val(b)))


def xr_le(a, b):
    a, b = to_xr(a), to_xr(b)
    return Or(xr_isinf(b), And(Not(xr_isinf(a)), xr_val(a) <= xr_val(b)))


def xr_eq(a, b):
    a, b = to_xr(a), to_xr(b)
    return Or(And(xr_isinf(a), xr_isinf(b)), And(Not(xr_isinf(a)), Not(xr_isinf(b)), xr_val(a) == xr_val(b)))


class Abbrev:
    """opaque abbreviation: an uninterpreted predicate P together with its definition body(*args).  Formulas mention P(args);
    the defining equation P(args) == body(args) is only added for the argument tuples where a proof needs it (opaque / reveal).
    Sound: every assumed instance is an instance of the one definition, so interpreting P as body satisfies all of them."""

    def __init__(self, name, sorts, body):
        self.name, self.sorts, self.body = name, sorts, body

    def fn(self):
        return z3.Function('%s_%d' % (self.name, Mode.gen), *([x() if callable(x) else x for x in self.sorts] + [B]))

    def __call__(self, *args):
        if Mode.finite:
            return self.body(*args)       # the finite-scope refuter sees through the abbreviation
        return self.fn()(*args)

    def instance(self, *args):
        if Mode.finite:
            return BoolVal(True)
        return self.fn()(*args) == self.body(*args)
