"""Contracts, registry, path exploration and discharge of obligations (DESIGN 3.1, 3.7, 3.9)."""
import ast
import json
import hashlib
import os
import time
import traceback
import z3
from z3 import And, Or, Not, Implies, If, IntVal, RealVal, BoolVal
from . import sorts as so
from .values import NONE, Unsupported, SList, SDict, SSet, SObj
from .engine import (Run, PathEnd, ReturnEx, RaiseEx, BreakEx, ContinueEx, View, Unbindable, snap_env, Obligation, ceval)
from .lib import Lib

REPO = os.environ.get('VERIF_REPO', '/repo')


class LoopSpec:
    """inv(s, it): the invariant.  lemmas(s, it): instances of trusted mathematical facts (finite-sum sign
    lemmas ...) about the current state, ASSUMED at the loop head and again before the invariant is
    re-established; they are listed in the trusted base."""

    def __init__(self, inv, variant=None, lemmas=None, step_lemma=None, step_body_src=None, havoc_names=(), body_calls=None,
                 ghost_update=None, step_post=None):
        self.inv, self.variant, self.lemmas = inv, variant, lemmas
        # step_post(s, it): two-state postcondition of ONE pass through a while body (it.head = state at the loop head, s = state at the
        # end of the body); an obligation of kind loop-step on every path through the body
        self.step_post = step_post
        # ghost_update(s, it): ghost assignment executed at the end of every pass through a while body, just before the invariant is
        # re-established; it may only assign to the contract's ghost locals (names 'ghost_*'); it.head is the state at the loop head
        self.ghost_update = ghost_update
        self.body_calls = body_calls or {}        # callee qualname -> number of modular calls every pass through the body must make
        self.havoc_names = tuple(havoc_names)      # objects the (abstract) body may modify besides what the syntax shows
        # step_lemma: qualname of a lemma unit proving "one execution of the loop body preserves inv";
        # step_body_src: the exact source text the body must have for that lemma to apply
        self.step_lemma, self.step_body_src = step_lemma, step_body_src


class Case:
    def __init__(self, name, params, assume=None):
        self.name, self.params, self.assume = name, params, assume


class Contract:
    def __init__(self, file, qualname, cases=None, requires=None, ensures=None, modifies=(), pure=None,
                 make_ret=None, may_raise=None, must_raise=None, raise_allowed=None, loops=None, sites=None,
                 sites_strict=(), locals_=None, globals_=None, normalize=None, axioms=None, verify=True,
                 min_obligations=1, sum_hook=None, note='', local_sorts=None, post_lemmas=None, body=None,
                 depends=(), ghost_locals=None):
        self.file, self.qualname = file, qualname
        # ghost locals: name ('ghost_*') -> maker; created empty at function entry, never touched by the code
        self.ghost_locals = dict(ghost_locals or {})
        self.cases = cases or []
        self.requires, self.ensures, self.modifies = requires, ensures, tuple(modifies)
        self.pure, self.make_ret, self.may_raise = pure, make_ret, may_raise
        self.must_raise, self.raise_allowed = must_raise, raise_allowed
        self.loops = {k: (v if isinstance(v, LoopSpec) else LoopSpec(v)) for k, v in (loops or {}).items()}
        self.sites, self.sites_strict = sites or {}, tuple(sites_strict)
        self.locals_, self.globals_ = locals_ or {}, globals_ or {}
        self.normalize, self.axioms = normalize, axioms
        self.verify, self.min_obligations, self.sum_hook, self.note = verify, min_obligations, sum_hook, note
        self.local_sorts = local_sorts or {}
        self.post_lemmas = post_lemmas
        # body: python callable (run, env) for LEMMA units (no source text of their own): a composition of
        # callee contracts; depends: qualnames of the real functions whose contracts it composes
        self.body, self.depends = body, tuple(depends)


class Source:
    """the repository files, re-read and re-parsed on every run"""
    _cache = {}

    @classmethod
    def get(cls, relfile):
        path = os.path.join(REPO, relfile)
        key = path
        if key not in cls._cache:
            import warnings
            src = open(path, encoding='utf-8').read()
            with warnings.catch_warnings():
                warnings.simplefilter('ignore')
                tree = ast.parse(src)
            cls._cache[key] = (src, tree)
        return cls._cache[key]

    @classmethod
    def find(cls, relfile, qualname):
        src, tree = cls.get(relfile)
        node = tree
        for p in qualname.split('.'):
            nxt = None
            for x in node.body:
                if isinstance(x, (ast.FunctionDef, ast.ClassDef)) and x.name == p:
                    nxt = x
            if nxt is None:
                return None, None
            node = nxt
        seg = ast.get_source_segment(src, node) or ''
        return node, hashlib.sha256(seg.encode()).hexdigest()[:16]


class Registry:
    def __init__(self):
        self.contracts = {}
        self.functions = set()
        self.lib_install = []        # functions lib -> None adding library models (e.g. the event heap)

    def make_lib(self):
        lib = Lib()
        for f in self.lib_install:
            f(lib)
        return lib

    def add(self, c):
        self.contracts[c.qualname] = c
        self.functions.add(c.qualname)
        return c

    def classes(self):
        return {q.split('.')[0] for q in self.contracts if '.' in q}

    def has(self, q):
        return q in self.contracts

    def get(self, q):
        return self.contracts.get(q)

    def node(self, q):
        c = self.contracts[q]
        n, _ = Source.find(c.file, q)
        if n is None:
            raise Unbindable('function %s not found in %s' % (q, c.file))
        return n


def ordered_locals(fnode):
    """local names of a function in order of first binding (source order); parameters and comprehension variables excluded"""
    params = {a.arg for a in fnode.args.posonlyargs + fnode.args.args + fnode.args.kwonlyargs}
    if fnode.args.vararg:
        params.add(fnode.args.vararg.arg)
    if fnode.args.kwarg:
        params.add(fnode.args.kwarg.arg)
    found = []

    def visit(n, top):
        if isinstance(n, (ast.ListComp, ast.SetComp, ast.DictComp, ast.GeneratorExp, ast.Lambda)):
            return
        if isinstance(n, (ast.FunctionDef, ast.AsyncFunctionDef, ast.ClassDef)) and not top:
            found.append((n.lineno, n.col_offset, n.name))
            return
        if isinstance(n, ast.Name) and isinstance(n.ctx, ast.Store):
            found.append((n.lineno, n.col_offset, n.id))
        for ch in ast.iter_child_nodes(n):
            visit(ch, False)
    visit(fnode, True)
    out = []
    for _, _, nm in sorted(found):
        if nm not in params and nm not in out:
            out.append(nm)
    return out


_BASELINE_LOCALS = None
_BASELINE_LOOPS = None


def loop_nodes(fnode):
    loops = [x for x in ast.walk(fnode) if isinstance(x, (ast.For, ast.While))]
    loops.sort(key=lambda x: (x.lineno, x.col_offset))
    return loops


def loop_headers(fnode):
    """the loops of a function in source order, each as its header text"""
    out = []
    for x in loop_nodes(fnode):
        if isinstance(x, ast.For):
            out.append('for %s in %s' % (ast.unparse(x.target), ast.unparse(x.iter)))
        else:
            out.append('while %s' % ast.unparse(x.test))
    return out


def loop_alignment(file, qualname, fnode):
    """{position of a loop in the current function -> ordinal the sidecar contract uses (its position in the pinned tree)} when loops
    were added or removed (e.g. an explicit loop turned into a comprehension or back); None when the positions still agree.  Loops
    are matched by their header text; a loop of the current code without a partner gets an ordinal no contract uses."""
    global _BASELINE_LOOPS
    if _BASELINE_LOOPS is None:
        try:
            _BASELINE_LOOPS = json.load(open(os.path.join(os.path.dirname(os.path.dirname(os.path.dirname(os.path.abspath(__file__)))), 'baseline_loops.json')))
        except Exception:
            _BASELINE_LOOPS = {}
    B = (_BASELINE_LOOPS.get(file) or {}).get(qualname)
    if B is None or fnode is None:
        return None
    C = loop_headers(fnode)
    if len(B) == len(C):
        return None
    import difflib
    sm = difflib.SequenceMatcher(None, B, C, autojunk=False)
    m = {}
    for a, b, size in sm.get_matching_blocks():
        for t in range(size):
            m[b + t] = a + t
    return {j: m.get(j, 1000 + j) for j in range(len(C))}


def local_renaming(file, qualname, fnode):
    """{name in the pinned tree -> name in the current code} when the current function binds the same sequence of locals as the
    pinned one except that some names were consistently replaced by new ones (a pure renaming); {} otherwise"""
    global _BASELINE_LOCALS
    if _BASELINE_LOCALS is None:
        try:
            _BASELINE_LOCALS = json.load(open(os.path.join(os.path.dirname(os.path.dirname(os.path.dirname(os.path.abspath(__file__)))), 'baseline_locals.json')))
        except Exception:
            _BASELINE_LOCALS = {}
    B = (_BASELINE_LOCALS.get(file) or {}).get(qualname)
    if not B or fnode is None:
        return {}
    C = ordered_locals(fnode)
    if B == C:
        return {}
    gone = [b for b in B if b not in C]
    new = [c for c in C if c not in B]
    if not gone or len(gone) != len(new):
        return {}
    Bp = ['#%d' % gone.index(b) if b in gone else b for b in B]
    Cp = ['#%d' % new.index(c) if c in new else c for c in C]
    if Bp != Cp:
        return {}
    return dict(zip(gone, new))


class Unit:
    """one function x one case, prepared for execution"""

    def __init__(self, contract, case, registry):
        self.c, self.case, self.registry = contract, case, registry
        if contract.body is not None:
            self.node = None
            hs = [Source.find(registry.get(q).file, q)[1] or '?' for q in contract.depends if registry.get(q) is not None]
            self.sha = hashlib.sha256('|'.join(hs).encode()).hexdigest()[:16]
        else:
            self.node, self.sha = Source.find(contract.file, contract.qualname)
        self.loops, self.sites, self.sites_strict = contract.loops, contract.sites, contract.sites_strict
        self.locals_ = contract.locals_
        self.globals_ = dict(contract.globals_)
        self.sum_hook = contract.sum_hook
        self.local_sorts = getattr(contract, 'local_sorts', None) or {}
        self.name = '%s[%s]' % (contract.qualname, case.name)
        self._loop_ord = {}
        self.rename = {}
        if self.node is None:
            return
        self.rename = local_renaming(contract.file, contract.qualname, self.node)
        if self.node is not None:
            loops = loop_nodes(self.node)
            al = loop_alignment(contract.file, contract.qualname, self.node)
            self._loop_ord = {id(x): (k if al is None else al[k]) for k, x in enumerate(loops)}

    def loop_ordinal(self, n):
        return self._loop_ord[id(n)]

    def globals_env(self):
        return self.globals_


class PathResult:
    def __init__(self):
        self.obls, self.forks, self.outcome, self.reached_post = [], [], None, False


def run_path(unit, lib, prefix, skip):
    so.reset_counter()
    c, case = unit.c, unit.case
    run = Run(unit, unit.registry, lib, prefix, skip)
    env = {}
    run.cur_env = env
    if unit.node is None:
        names = [nm for nm in case.params if not nm.startswith('_')]
    else:
        a = unit.node.args
        names = [x.arg for x in a.posonlyargs + a.args + a.kwonlyargs]
    for nm in names:
        mk = case.params.get(nm)
        if mk is None:
            raise Unbindable('parameter %r of %s is not described by the contract case %s' % (nm, c.qualname, case.name))
        env[nm] = mk(run, nm)
    for nm in case.params:
        if nm not in names and not nm.startswith('_'):
            raise Unbindable('contract case %s of %s describes parameter %r which the function no longer has'
                             % (case.name, c.qualname, nm))
    # ghost parameters (names starting with '_') live in run.ghost
    for nm, mk in case.params.items():
        if nm.startswith('_'):
            run.ghost[nm] = mk(run, nm)
    for nm, mk in sorted(getattr(c, 'ghost_locals', {}).items()):
        if not nm.startswith('ghost_') or nm in env:
            raise Unbindable('ghost local %r must be named ghost_* and must not clash with a parameter' % nm)
        env[nm] = mk(run, nm, empty=True)
    for v in env.values():
        if hasattr(v, 'wellformed'):
            run.assume(v.wellformed())
    s0 = View(env, {'run': run, 'ghost': run.ghost})
    if c.axioms is not None:
        for ax in c.axioms(s0):
            run.assume(ax)
    if c.requires is not None:
        run.assume(c.requires(s0))
    if case.assume is not None:
        run.assume(case.assume(s0))
    run.entry_pc = list(run.pc)
    old = View(snap_env(env), {'ghost': run.ghost})
    run.old = old
    res = PathResult()
    outcome = None
    try:
        try:
            if c.body is not None:
                run.cur_env = env
                c.body(run, env)
            else:
                run.exec_block(unit.node.body, env)
            outcome = ('return', NONE)
        except ReturnEx as r:
            outcome = ('return', r.value)
        except RaiseEx as r:
            outcome = ('raise', r.name, r.lineno)
        except (BreakEx, ContinueEx):
            raise Unsupported('break/continue outside loop')
        except PathEnd:
            outcome = None
        if outcome is not None:
            res.reached_post = True
            new = View(env, {'old': old, 'run': run, 'ghost': run.ghost})
            end_line = getattr(run, 'cur_line', unit.node.lineno if unit.node is not None else 0)
            if c.post_lemmas is not None:
                for lm in c.post_lemmas(new):
                    run.assume(lm)
            if outcome[0] == 'return':
                if c.must_raise is not None:
                    run.oblige('post', 'raise-required', end_line, Not(c.must_raise(old)))
                if c.ensures is not None:
                    goal = ceval(c.ensures, old, new, outcome[1])
                    for k, g in enumerate(flatten_and(goal)):
                        run.oblige('post', 'post.%d' % k, end_line, g)
            else:
                allowed = c.raise_allowed(old) if c.raise_allowed is not None else (
                    c.must_raise(old) if c.must_raise is not None else BoolVal(False))
                if outcome[1] != 'EoNError':
                    allowed = BoolVal(False)
                run.oblige('post', 'raise-allowed:%s' % outcome[1], outcome[2], allowed)
    finally:
        res.obls, res.forks, res.outcome = run.obls, run.forks, outcome
        res.entry_pc = getattr(run, 'entry_pc', [])
        res.final_pc = list(run.pc)
        res.draws = run.draws
    return res


def flatten_and(g):
    if isinstance(g, bool):
        return [BoolVal(g)]
    if z3.is_and(g):
        out = []
        for ch in g.children():
            out += flatten_and(ch)
        return out
    return [g]


def explore(unit, lib, max_paths=400):
    work = [([], 0)]
    obls, npaths, reached = [], 0, 0
    entry_pc = None
    finals = []
    while work:
        prefix, skip = work.pop()
        res = run_path(unit, lib, prefix, skip)
        npaths += 1
        if npaths > max_paths:
            raise Unsupported('more than %d paths' % max_paths)
        obls += res.obls
        work += res.forks
        if res.reached_post:
            reached += 1
            finals.append(res.final_pc)
        if entry_pc is None:
            entry_pc = res.entry_pc
    counts = {}
    for ob in obls:
        ob.unit = unit.name
        k = counts.get(ob.label, 0)
        counts[ob.label] = k + 1
        ob.ordinal = k
        ob.id = '%s:%s' % (unit.name, ob.label)
    return obls, npaths, reached, entry_pc, finals


def site_key(ob):
    """program point of an obligation, stable across the two modes (conjunct numbering is not: expanded
    quantifiers flatten into more conjuncts in finite mode)"""
    base = ob.label
    if ob.kind in ('post', 'loop-init', 'loop-preserve', 'pre') and '.' in base and base.rsplit('.', 1)[1].isdigit():
        base = base.rsplit('.', 1)[0]
    return (ob.kind, base, ob.lineno)


def check_split(ob, timeout_ms):
    """an obligation whose goal is a conjunction, decided conjunct by conjunct (smaller, stabler queries).
    Returns ('unsat', ...) only if every conjunct is discharged; otherwise the first open conjunct's result."""
    parts = flatten_and(ob.goal)
    if len(parts) <= 1:
        return None
    total = 0.0
    worst = None
    for k, g in enumerate(parts):
        sub = Obligation(ob.kind, ob.label, ob.lineno, ob.pc, g)
        r, dt, model, reason, sol = check_one(sub, timeout_ms)
        total += dt
        if r != 'unsat':
            if r == 'sat':
                return r, total, model, 'conjunct %d: %s' % (k, str(g)[:200]), sol
            # the first conjunct that stays open decides the outcome (refutation is the business of the finite-scope pass)
            return r, total, model, 'conjunct %d %s: %s' % (k, reason, str(g)[:200]), sol
    if worst is None:
        return 'unsat', total, None, 'split into %d conjuncts' % len(parts), None
    return worst[0], total, worst[1], worst[2], worst[3]


def check_one(ob, timeout_ms, seed=0, mbqi=True):
    g = z3.simplify(ob.goal)
    if z3.is_true(g):
        return 'unsat', 0.0, None, 'trivial', z3.Solver()
    sol = z3.Solver()
    sol.set('timeout', timeout_ms)
    if seed:
        sol.set('random_seed', seed)
        sol.set('smt.random_seed', seed) if False else None
    if not mbqi:
        sol.set('smt.mbqi', False)
    for f in ob.pc:
        sol.add(f)
    sol.add(Not(ob.goal))
    t = time.time()
    r = sol.check()
    dt = time.time() - t
    model = None
    if r == z3.sat:
        try:
            model = sol.model()
        except Exception:
            model = None
    reason = sol.reason_unknown() if r == z3.unknown else ''
    return str(r), dt, model, reason, sol


def _nonlinear_terms(fs):
    """maximal nonlinear arithmetic subterms (products of two non-numerals, division / modulus by a non-numeral, powers)"""
    seen, out = set(), []
    NL_DIV = (z3.Z3_OP_DIV, z3.Z3_OP_IDIV, z3.Z3_OP_MOD, z3.Z3_OP_REM)

    def is_num(e):
        return z3.is_int_value(e) or z3.is_rational_value(e) or z3.is_algebraic_value(e)

    def nonlinear(e):
        if not z3.is_app(e):
            return False
        k = e.decl().kind()
        ch = e.children()
        if k == z3.Z3_OP_MUL:
            return sum(1 for c in ch if not is_num(c)) >= 2
        if k in NL_DIV:
            return len(ch) == 2 and not is_num(ch[1])
        if k == z3.Z3_OP_POWER:
            return True
        return False

    def walk(e):
        if e.get_id() in seen:
            return
        seen.add(e.get_id())
        if z3.is_quantifier(e):
            walk(e.body())
            return
        if nonlinear(e):
            # only ground terms can be named by a constant
            if not _has_var(e):
                out.append(e)
                return
        for c in e.children():
            walk(c)
    for f in fs:
        walk(f)
    return out


def _has_var(e, _cache={}):
    todo, seen = [e], set()
    while todo:
        x = todo.pop()
        if x.get_id() in seen:
            continue
        seen.add(x.get_id())
        if z3.is_var(x):
            return True
        if z3.is_quantifier(x):
            todo.append(x.body())
        else:
            todo.extend(x.children())
    return False


def check_abstracted(ob, timeout_ms):
    """GENERALISATION (sound for validity): every ground nonlinear term is replaced, consistently, by a fresh constant; if the
    generalised VC is valid so is the original.  Keeps obligations whose context merely MENTIONS int(round(N*rho)) and the like
    out of z3's nonlinear solver.  Returns None when there is nothing to abstract or the abstraction is not proved."""
    fs = list(ob.pc) + [ob.goal]
    terms = _nonlinear_terms(fs)
    if not terms:
        return None
    pairs, names = [], {}
    for t in terms:
        key = t.get_id()
        if key not in names:
            names[key] = z3.FreshConst(t.sort(), 'nl')
            pairs.append((t, names[key]))
    sol = z3.Solver()
    sol.set('timeout', timeout_ms)
    for f in ob.pc:
        sol.add(z3.substitute(f, *pairs))
    sol.add(Not(z3.substitute(ob.goal, *pairs)))
    t0 = time.time()
    r = sol.check()
    if r == z3.unsat:
        return 'unsat', time.time() - t0, None, 'nonlinear terms generalised to fresh constants', sol
    return None


def model_to_dict(model, limit=60):
    out = {}
    if model is None:
        return out
    for d in model.decls()[:limit]:
        try:
            out[d.name()] = str(model[d])[:300]
        except Exception:
            pass
    return out


def verify_unit(contract_qual, case_name, registry_factory, tier='quick', proof_timeout_ms=20000,
                finite_timeout_ms=20000, scopes=((3, 3),), smt_dir=None, retries=True, recheck=None):
    """Runs one unit in proof mode, then (always) in finite mode for the vacuity guards and to refute
    whatever proof mode left open.  Returns a plain dict (picklable)."""
    t0 = time.time()
    out = dict(unit='%s[%s]' % (contract_qual, case_name), function=contract_qual, case=case_name,
               obligations=[], status='ok', error='', paths=0, sha=None, file=None, vacuity={}, seconds=0.0)
    try:
        # ---------------- proof mode
        so.set_mode(False)
        reg = registry_factory()
        c = reg.get(contract_qual)
        case = [x for x in c.cases if x.name == case_name][0]
        unit = Unit(c, case, reg)
        out['file'], out['sha'] = c.file, unit.sha
        if unit.node is None and c.body is None:
            raise Unbindable('function %s not found in %s' % (contract_qual, c.file))
        lib = reg.make_lib()
        tt = time.time()
        obls, npaths, reached, entry_pc, finals = explore(unit, lib)
        out['t_explore_proof'] = round(time.time() - tt, 2)
        out['paths'] = npaths
        open_labels = {}
        results = []
        open_obs = []
        fast_ms = min(4000, proof_timeout_ms)
        for ob in obls:
            if recheck is not None and (ob.id, ob.ordinal) not in recheck:
                # confirmation run: only the obligations the first run left undecided are looked at again
                results.append(dict(id=ob.id, ordinal=ob.ordinal, kind=ob.kind, label=ob.label, lineno=ob.lineno, result='skipped', seconds=0.0,
                                    backend='not re-checked in the confirmation run', status='discharged', reason='', model=None, goal=''))
                continue
            # first pass: short budget (baseline VCs take milliseconds); what stays open goes to the
            # finite-scope refutation first and only then gets the long proof budget
            r, dt, model, reason, sol = check_one(ob, fast_ms)
            if r == 'unknown':
                ab = check_abstracted(ob, fast_ms)
                if ab is not None:
                    r, dt2, model, reason, _ = ab
                    dt += dt2
            if r == 'unknown':
                sp = check_split(ob, fast_ms)
                if sp is not None:
                    r, dt2, model, reason, _ = sp
                    dt += dt2
            rec = dict(id=ob.id, ordinal=ob.ordinal, kind=ob.kind, label=ob.label, lineno=ob.lineno,
                       result=r, seconds=round(dt, 4), backend='z3-%s (python API, proof mode)' % z3.get_version_string(),
                       status='discharged' if r == 'unsat' else 'open', reason=reason, model=None, goal=str(ob.goal)[:400])
            if smt_dir is not None:
                os.makedirs(smt_dir, exist_ok=True)
                fn = os.path.join(smt_dir, '%s.%d.smt2' % (ob.id.replace('/', '_').replace(' ', ''), ob.ordinal))
                with open(fn, 'w') as fh:
                    fh.write(sol.to_smt2())
                rec['smt2'] = fn
            if r == 'sat':
                rec['status'] = 'refuted'
                rec['model'] = model_to_dict(model)
                rec['backend'] += ' counter-model'
            if r != 'unsat':
                open_labels.setdefault(site_key(ob), []).append(rec)
                open_obs.append((ob, rec))
            results.append(rec)
        out['t_discharge'] = round(time.time() - tt - out['t_explore_proof'], 2)
        if len(obls) < c.min_obligations:
            out['status'] = 'undecided'
            out['error'] = 'only %d obligations generated, contract declares at least %d' % (len(obls), c.min_obligations)
        # ---------------- finite mode: vacuity guards + refutation of open obligations
        for (usize, lmax) in scopes:
            so.set_mode(True, usize, lmax)
            regf = registry_factory()
            cf = regf.get(contract_qual)
            casef = [x for x in cf.cases if x.name == case_name][0]
            unitf = Unit(cf, casef, regf)
            tt2 = time.time()
            oblsf, npf, reachedf, entry_pcf, finalsf = explore(unitf, regf.make_lib())
            out['t_explore_finite'] = round(time.time() - tt2, 2)
            sol = z3.Solver()
            sol.set('timeout', finite_timeout_ms)
            for f in entry_pcf or []:
                sol.add(f)
            pre_sat = str(sol.check())
            reach_sat = 'unsat'
            for fpc in finalsf:
                sol2 = z3.Solver()
                sol2.set("timeout", 3000)
                for f in fpc:
                    sol2.add(f)
                rr = str(sol2.check())
                if rr == 'sat':
                    reach_sat = 'sat'
                    break
                if rr == 'unknown':
                    reach_sat = 'unknown'
            out['vacuity']['scope%dx%d' % (usize, lmax)] = dict(precondition=pre_sat, some_exit_reachable=reach_sat,
                                                                paths=npf, obligations=len(oblsf))
            if pre_sat == 'unsat' or reach_sat == 'unsat':
                out['status'] = 'undecided'
                out['error'] = 'vacuity guard: precondition %s, exit reachable %s at scope %dx%d' % (pre_sat, reach_sat, usize, lmax)
            if open_labels:
                for obf in oblsf:
                    if site_key(obf) in open_labels and any(rec['status'] != 'refuted' for rec in open_labels[site_key(obf)]):
                        r, dt, model, reason, _ = check_one(obf, finite_timeout_ms)
                        if r == 'sat':
                            for rec in open_labels[site_key(obf)]:
                                if rec['status'] != 'refuted':
                                    rec['status'] = 'refuted'
                                    rec['model'] = model_to_dict(model)
                                    rec['backend'] += '; refuted by z3 counter-model at finite scope |U|=%d, len<=%d' % (usize, lmax)
                                    rec['finite_lineno'] = obf.lineno
                                    rec['seconds'] = round(rec['seconds'] + dt, 4)
        # second chance with the long budget for what is neither discharged nor refuted
        open_sites = set()
        for ob, rec in open_obs:
            if rec['status'] != 'open':
                continue
            if site_key(ob) in open_sites:
                # the same clause at the same source line already stayed open on another path after the full budget: the unit is
                # reported through that one; the long budget is not spent again path by path
                rec['reason'] = (rec.get('reason') or '') + ' [same site already open on another path]'
                continue
            r, dt, model, reason, _ = check_one(ob, proof_timeout_ms)
            if r == 'unknown':
                ab = check_abstracted(ob, proof_timeout_ms)
                if ab is not None:
                    r, dt2, model, reason, _ = ab
                    dt += dt2
            if r == 'unknown' and retries:
                sp = check_split(ob, proof_timeout_ms)
                if sp is not None:
                    r, dt2, model, reason, _ = sp
                    dt += dt2
            # solver instability guard: other seeds / pure E-matching before giving up
            for seed, mbqi in (((0, False), (11, True)) if retries else ()):
                if r != 'unknown':
                    break
                r, dt2, model, reason, _ = check_one(ob, proof_timeout_ms, seed=seed, mbqi=mbqi)
                dt += dt2
            rec['seconds'] = round(rec['seconds'] + dt, 4)
            rec['result'], rec['reason'] = r, reason
            if r == 'unknown':
                open_sites.add(site_key(ob))
            if r == 'unsat':
                rec['status'] = 'discharged'
            elif r == 'sat':
                rec['status'] = 'refuted'
                rec['model'] = model_to_dict(model)
        for rec in results:
            if rec['status'] == 'open':
                rec['status'] = 'undecided'
        out['obligations'] = results
    except Unsupported as e:
        out['status'] = 'undecided'
        out['error'] = 'unsupported: %s' % e
    except Unbindable as e:
        out['status'] = 'undecided'
        out['error'] = 'unbindable: %s' % e
    except z3.Z3Exception as e:
        out['status'] = 'crash'
        out['error'] = 'z3: %s\n%s' % (e, traceback.format_exc()[-1500:])
    except Exception as e:
        out['status'] = 'crash'
        out['error'] = '%s: %s\n%s' % (type(e).__name__, e, traceback.format_exc()[-2500:])
    out['seconds'] = round(time.time() - t0, 3)
    return out


def _worker(args):
    return verify_unit(*args[0], **args[1])


def _child(conn, job):
    try:
        res = _worker(job)
    except BaseException as e:          # never let a unit kill the run silently
        res = dict(unit='%s[%s]' % (job[0][0], job[0][1]), function=job[0][0], case=job[0][1], obligations=[], status='crash',
                   error='%s: %s' % (type(e).__name__, e), paths=0, sha=None, file=None, vacuity={}, seconds=0.0)
    try:
        conn.send(res)
    finally:
        conn.close()


def verify_many(jobs, nproc=12, unit_timeout_s=1500):
    """One fresh forked process per unit (sort/constant names and hence solver behaviour do not depend on what ran
    before), at most nproc at a time; a unit that dies or exceeds the time limit is reported as crashed/undecided
    instead of hanging the run."""
    import multiprocessing as mp
    if len(jobs) <= 1 or nproc <= 1:
        return [_worker(j) for j in jobs]
    ctx = mp.get_context('fork')
    results = [None] * len(jobs)
    pending = list(enumerate(jobs))
    running = {}
    retried = set()
    while pending or running:
        while pending and len(running) < nproc:
            idx, job = pending.pop(0)
            parent, child = ctx.Pipe(duplex=False)
            p = ctx.Process(target=_child, args=(child, job))
            p.start()
            child.close()
            running[idx] = (p, parent, time.time(), job)
        done = []
        for idx, (p, conn, t0, job) in running.items():
            got = None
            if conn.poll(0.02):
                try:
                    got = conn.recv()
                except EOFError:
                    got = None
                if got is None:
                    got = dict(status='crash', error='worker process ended without a result (exit code %s)' % p.exitcode)
            elif not p.is_alive():
                got = dict(status='crash', error='worker process died (exit code %s)' % p.exitcode)
            elif time.time() - t0 > unit_timeout_s:
                p.terminate()
                got = dict(status='undecided', error='unit exceeded the time limit of %d s' % unit_timeout_s)
            if got is not None and got.get('status') == 'crash' and 'obligations' not in got and idx not in retried:
                # the solver library died (e.g. a segfault inside z3): run the unit once more in a fresh process
                retried.add(idx)
                pending.append((idx, job))
                done.append(idx)
                continue
            if got is not None:
                base = dict(unit='%s[%s]' % (job[0][0], job[0][1]), function=job[0][0], case=job[0][1], obligations=[],
                            paths=0, sha=None, file=None, vacuity={}, seconds=round(time.time() - t0, 1))
                base.update(got)
                results[idx] = base
                done.append(idx)
        for idx in done:
            p, conn, _, _ = running.pop(idx)
            if results[idx] is None and idx in retried:
                pass
            try:
                conn.close()
            except Exception:
                pass
            p.join(timeout=5)
        if not done:
            time.sleep(0.05)
    return results
