"""Symbolic values of the VC generator.  Containers are *mutable Python objects* whose fields are z3
terms: Python object identity is the heap reference, so aliasing (the same list stored in a queued
event tuple and mutated later by a handler) is modelled by construction."""
import z3
from z3 import And, Or, Not, Implies, If, IntVal, RealVal, BoolVal
from . import sorts as so
from .sorts import fresh, I, R, B


class Unsupported(Exception):
    """construct outside the supported subset -> verdict 'undecided' for the unit (never a violation)"""


class NoneV:
    def __repr__(self):
        return 'NONE'


NONE = NoneV()


class SList:
    """list: length n, elements a[0..n-1].  esort is a z3 sort or a TupleSpec."""
    kind = 'list'

    def __init__(self, esort, n=None, a=None, name='l'):
        self.esort = esort
        zs = esort.zsort() if isinstance(esort, TupleSpec) else esort
        self.n = n if n is not None else fresh(name + '_n', I)
        self.a = a if a is not None else fresh(name + '_a', z3.ArraySort(I, zs))
        self.name = name

    def snap(self):
        c = SList(self.esort, self.n, self.a, self.name)
        for k in ('posf', 'memberf', 'src', 'dst', 'base', 'cond_at', 'elt_at', 'sample_src', 'sample_pop', 'perm', 'inv'):
            if k in self.__dict__:
                c.__dict__[k] = self.__dict__[k]
        return c

    def havoc(self):
        for k in ('posf', 'memberf', 'src', 'dst', 'base', 'cond_at', 'elt_at', 'sample_src', 'sample_pop', 'perm', 'inv'):
            self.__dict__.pop(k, None)
        zs = self.esort.zsort() if isinstance(self.esort, TupleSpec) else self.esort
        self.n = fresh(self.name + '_n', I)
        self.a = fresh(self.name + '_a', z3.ArraySort(I, zs))

    def wellformed(self):
        c = [self.n >= 0]
        if so.Mode.finite:
            c.append(self.n <= so.Mode.lmax)
        return And(*c)

    def terms(self):
        return [self.n, self.a]

    def __getitem__(self, i):          # contract-side convenience: raw element term
        if isinstance(i, int):
            i = IntVal(i)
        return self.a[i]

    def last(self):
        return self.a[self.n - 1]

    def contains(self, x):
        return so.exists_idx(self.n, lambda i: self.a[i] == x)

    def same(self, other):
        """extensional equality on the live prefix"""
        return And(self.n == other.n, so.forall_idx(self.n, lambda i: self.a[i] == other.a[i]))

    def is_prefix_of(self, other):
        return And(self.n <= other.n, so.forall_idx(self.n, lambda i: self.a[i] == other.a[i]))


class SHeap(SList):
    """heapq-managed list of event records.  Model: append-only list + ghost set of popped ('dead') indices,
    ndead = number of dead indices (so len = n - ndead).  Assumed heapq contract: heappush adds an item,
    heappop removes a minimal one."""
    kind = 'heap'

    def __init__(self, esort, n=None, a=None, dead=None, ndead=None, name='h'):
        SList.__init__(self, esort, n, a, name)
        self.dead = dead if dead is not None else fresh(name + '_dead', z3.ArraySort(I, B))
        self.ndead = ndead if ndead is not None else fresh(name + '_ndead', I)

    def snap(self):
        return SHeap(self.esort, self.n, self.a, self.dead, self.ndead, self.name)

    def havoc(self):
        SList.havoc(self)
        self.dead = fresh(self.name + '_dead', z3.ArraySort(I, B))
        self.ndead = fresh(self.name + '_ndead', I)

    def wellformed(self):
        return And(SList.wellformed(self), 0 <= self.ndead, self.ndead <= self.n,
                   (self.n - self.ndead > 0) == so.exists_idx(self.n, lambda j: Not(self.dead[j])))

    def alive(self, j):
        return And(0 <= j, j < self.n, Not(self.dead[j]))

    def size(self):
        return self.n - self.ndead

    def terms(self):
        return [self.n, self.a, self.dead, self.ndead]


class SDict:
    """dict / defaultdict / Counter.  dom: Array K Bool, val: Array K V.
    Normal form: for a map with a default value d, val[k] == d whenever not dom[k] (maintained by
    pop/del and assumed for fresh symbolic maps), so val[k] is always the *effective* value."""
    kind = 'dict'

    def __init__(self, ksort, vsort, dom=None, val=None, default=None, name='d', vobj=None):
        self.ksort, self.vsort, self.default, self.name = ksort, vsort, default, name
        self.dom = dom if dom is not None else fresh(name + '_dom', z3.ArraySort(ksort, B))
        self.val = val if val is not None else fresh(name + '_val', z3.ArraySort(ksort, vsort))
        self.vobj = vobj      # for dicts whose values are containers: python callable key -> object (ghost)

    def snap(self):
        return SDict(self.ksort, self.vsort, self.dom, self.val, self.default, self.name, self.vobj)

    def havoc(self):
        self.dom = fresh(self.name + '_dom', z3.ArraySort(self.ksort, B))
        self.val = fresh(self.name + '_val', z3.ArraySort(self.ksort, self.vsort))

    def havoc_dom(self):
        self.dom = fresh(self.name + '_dom', z3.ArraySort(self.ksort, B))

    def wellformed(self):
        if self.default is None:
            return BoolVal(True)
        return so.forall(self.ksort, lambda k: Implies(Not(self.dom[k]), self.val[k] == self.default))

    def terms(self):
        return [self.dom, self.val]

    def has(self, k):
        return self.dom[k]

    def __getitem__(self, k):
        return self.val[k]

    def same(self, other):
        return And(so.forall(self.ksort, lambda k: self.dom[k] == other.dom[k]),
                   so.forall(self.ksort, lambda k: Implies(self.dom[k], self.val[k] == other.val[k])))

    def same_vals(self, other):
        return so.forall(self.ksort, lambda k: self.val[k] == other.val[k])


class SDictOfLists:
    """defaultdict(lambda: []) / dict whose values are lists:  dom, lens[k], vals[k] (array of the k-th list).
    d[k] yields an SListRef that reads and writes through to these arrays (reference semantics)."""
    kind = 'dictoflists'

    def __init__(self, ksort, esort, dom=None, lens=None, vals=None, default_empty=True, name='dl'):
        self.ksort, self.esort, self.name, self.default_empty = ksort, esort, name, default_empty
        self.dom = dom if dom is not None else fresh(name + '_dom', z3.ArraySort(ksort, B))
        self.lens = lens if lens is not None else fresh(name + '_len', z3.ArraySort(ksort, I))
        self.vals = vals if vals is not None else fresh(name + '_vals', z3.ArraySort(ksort, z3.ArraySort(I, esort)))
        self.default = True if default_empty else None

    def snap(self):
        return SDictOfLists(self.ksort, self.esort, self.dom, self.lens, self.vals, self.default_empty, self.name)

    def havoc(self):
        self.dom = fresh(self.name + '_dom', z3.ArraySort(self.ksort, B))
        self.lens = fresh(self.name + '_len', z3.ArraySort(self.ksort, I))
        self.vals = fresh(self.name + '_vals', z3.ArraySort(self.ksort, z3.ArraySort(I, self.esort)))

    def havoc_dom(self):
        self.dom = fresh(self.name + '_dom', z3.ArraySort(self.ksort, B))

    def wellformed(self):
        c = [so.forall(self.ksort, lambda k: self.lens[k] >= 0)]
        if self.default_empty:
            c.append(so.forall(self.ksort, lambda k: Implies(Not(self.dom[k]), self.lens[k] == 0)))
        if so.Mode.finite:
            c.append(so.forall(self.ksort, lambda k: self.lens[k] <= so.Mode.lmax))
        return And(*c)

    def terms(self):
        return [self.dom, self.lens, self.vals]

    def at(self, k):
        return SListRef(self, k)


class SListRef(SList):
    """the list stored under key k of an SDictOfLists (a live reference, not a copy)"""

    def __init__(self, d, k):
        self.d, self.k = d, k
        self.esort = d.esort
        self.name = d.name + '_item'

    @property
    def n(self):
        return self.d.lens[self.k]

    @n.setter
    def n(self, v):
        self.d.lens = z3.Store(self.d.lens, self.k, v)

    @property
    def a(self):
        return self.d.vals[self.k]

    @a.setter
    def a(self, v):
        self.d.vals = z3.Store(self.d.vals, self.k, v)

    def snap(self):
        return SList(self.esort, self.n, self.a, self.name)

    def havoc(self):
        self.n = fresh(self.name + '_n', I)
        self.a = fresh(self.name + '_a', z3.ArraySort(I, self.esort))


class SHistory:
    """node_history = defaultdict(lambda: ([tmin], ['S'])): node -> (list of change times, list of statuses).
    Two dicts of lists sharing one domain; normal form: for an absent key both lists are the default ([tmin], ['S'])."""
    kind = 'history'

    def __init__(self, tmin, name='hist', times=None, stats=None):
        U = so.U()
        self.tmin, self.name = tmin, name
        self.times = times if times is not None else SDictOfLists(U, R, default_empty=False, name=name + '_t')
        self.stats = stats if stats is not None else SDictOfLists(U, so.Status(), default_empty=False, name=name + '_s')
        self.times.default = True
        self.stats.default = True

    def snap(self):
        return SHistory(self.tmin, self.name, self.times.snap(), self.stats.snap())

    def havoc(self):
        self.times.havoc()
        self.stats.havoc()

    def wellformed(self):
        U = so.U()
        S = so.S['status_const']['S']
        return And(so.forall(U, lambda k: And(self.times.lens[k] >= 0, self.stats.lens[k] == self.times.lens[k],
                                              self.stats.dom[k] == self.times.dom[k])),
                   so.forall(U, lambda k: Implies(Not(self.times.dom[k]), And(
                       self.times.lens[k] == 1, self.times.vals[k][0] == self.tmin, self.stats.vals[k][0] == S))))

    @staticmethod
    def empty(tmin, name='hist'):
        U = so.U()
        S = so.S['status_const']['S']
        t = SDictOfLists(U, R, dom=z3.K(U, BoolVal(False)), lens=z3.K(U, IntVal(1)),
                         vals=z3.K(U, z3.Store(z3.K(I, RealVal(0)), 0, tmin)), default_empty=False, name=name + '_t')
        st = SDictOfLists(U, so.Status(), dom=z3.K(U, BoolVal(False)), lens=z3.K(U, IntVal(1)),
                          vals=z3.K(U, z3.K(I, S)), default_empty=False, name=name + '_s')
        return SHistory(tmin, name, t, st)

    def at(self, k):
        # reading a defaultdict inserts the key (the content is already the default by the normal form)
        self.times.dom = z3.Store(self.times.dom, k, BoolVal(True))
        self.stats.dom = z3.Store(self.stats.dom, k, BoolVal(True))
        return (self.times.at(k), self.stats.at(k))

    def reset(self, k):
        for d in (self.times, self.stats):
            d.dom = z3.Store(d.dom, k, BoolVal(True))
            d.lens = z3.Store(d.lens, k, IntVal(0))


class SHistoryTotal(SHistory):
    """{node: ([t0], [s0]) for node in G.nodes()}: a plain dict with every node as a key (no default entry); statuses of any sort"""

    def __init__(self, tmin, name, times, stats):
        self.tmin, self.name, self.times, self.stats = tmin, name, times, stats

    def snap(self):
        return SHistoryTotal(self.tmin, self.name, self.times.snap(), self.stats.snap())

    def wellformed(self):
        U = so.U()
        return so.forall(U, lambda k: And(self.times.lens[k] >= 0, self.stats.lens[k] == self.times.lens[k],
                                          self.times.dom[k], self.stats.dom[k]))

    def at(self, k):
        return (self.times.at(k), self.stats.at(k))


class SSet:
    kind = 'set'

    def __init__(self, ksort, dom=None, name='s'):
        self.ksort, self.name = ksort, name
        self.dom = dom if dom is not None else fresh(name + '_dom', z3.ArraySort(ksort, B))

    def snap(self):
        return SSet(self.ksort, self.dom, self.name)

    def havoc(self):
        self.dom = fresh(self.name + '_dom', z3.ArraySort(self.ksort, B))

    def wellformed(self):
        return BoolVal(True)

    def terms(self):
        return [self.dom]

    def has(self, k):
        return self.dom[k]

    def same(self, other):
        return so.forall(self.ksort, lambda k: self.dom[k] == other.dom[k])


class SObj:
    """instance of a repository class: record of fields (scalars = z3 terms, containers = objects)"""
    kind = 'obj'

    def __init__(self, cls, fields, name='o'):
        self.cls, self.f, self.name = cls, dict(fields), name

    def __getattr__(self, k):
        f = object.__getattribute__(self, 'f')
        if k in f:
            return f[k]
        raise AttributeError(k)

    def snap(self):
        return SObj(self.cls, {k: (v.snap() if hasattr(v, 'snap') else v) for k, v in self.f.items()}, self.name)

    def havoc(self):
        for k, v in list(self.f.items()):
            if hasattr(v, 'havoc'):
                v.havoc()
            elif z3.is_expr(v):
                if z3.is_true(v) or z3.is_false(v):
                    continue          # python-level mode flag (e.g. `weighted`): pinned by the contracts
                self.f[k] = fresh(self.name + '_' + k, v.sort())

    def wellformed(self):
        return And(*[v.wellformed() for v in self.f.values() if hasattr(v, 'wellformed')])

    def terms(self):
        out = []
        for v in self.f.values():
            if hasattr(v, 'terms'):
                out += v.terms()
            elif z3.is_expr(v):
                out.append(v)
        return out


class TupleSpec:
    """fixed-arity tuple stored in containers as a z3 datatype.  fields: list of (name, sort|('opt', sort))"""
    _cache = {}

    def __init__(self, name, fields):
        self.name, self.fields = name, fields
        key = (name, so.Mode.gen)
        if key not in TupleSpec._cache:
            D = z3.Datatype('%s_%d' % (name, so.Mode.gen))
            args = []
            for fn, fs in fields:
                if isinstance(fs, tuple) and fs[0] == 'opt':
                    args.append(('has_' + fn, B))
                    args.append((fn, fs[1]))
                else:
                    args.append((fn, fs))
            D.declare('mk', *args)
            TupleSpec._cache[key] = D.create()
        self.D = TupleSpec._cache[key]

    def zsort(self):
        return self.D

    def pack(self, items):
        if len(items) != len(self.fields):
            raise Unsupported('tuple arity %d for %s' % (len(items), self.name))
        args = []
        for (fn, fs), v in zip(self.fields, items):
            if isinstance(fs, tuple) and fs[0] == 'opt':
                if v is NONE:
                    # canonical filler so that two encodings of None are the same term
                    args += [BoolVal(False), z3.Const('NONE_%s' % fs[1], fs[1])]
                else:
                    args += [BoolVal(True), coerce(v, fs[1])]
            else:
                args.append(coerce(v, fs))
        return self.D.mk(*args)

    def unpack(self, t):
        out = []
        for fn, fs in self.fields:
            if isinstance(fs, tuple) and fs[0] == 'opt':
                raise Unsupported('unpacking optional tuple field')
            out.append(getattr(self.D, fn)(t))
        return tuple(out)

    def get(self, t, fn):
        return getattr(self.D, fn)(t)


class Closure:
    """nested def / lambda of the analysed function: executed by inlining its body in the captured env"""

    def __init__(self, node, env, name):
        self.node, self.env, self.name = node, env, name


class Callback:
    """user-supplied call-back, specified by the contract: fn(engine, args, kwargs) -> value"""

    def __init__(self, name, fn):
        self.name, self.fn = name, fn


class FuncRef:
    """reference to a repository function (stored in queued events, passed as default argument ...)"""

    def __init__(self, qualname):
        self.qualname = qualname

    def __repr__(self):
        return 'FuncRef(%s)' % self.qualname


class PyConst:
    """python-level constant that is not modelled numerically (strings used as labels, modules ...)"""

    def __init__(self, v):
        self.v = v

    def __repr__(self):
        return 'PyConst(%r)' % (self.v,)


def coerce(v, sort):
    """coerce a value to a z3 sort (int->real, real->XR, python tuple->Pair, str->Status)"""
    if isinstance(v, bool):
        v = BoolVal(v)
    elif isinstance(v, int):
        v = IntVal(v)
    elif isinstance(v, float):
        v = RealVal(v)
    if isinstance(v, PyConst) and isinstance(v.v, str) and sort == so.Status():
        if v.v in so.S['status_const']:
            return so.S['status_const'][v.v]
    if isinstance(v, tuple):
        if sort == so.Pair() and len(v) == 2:
            return so.mkpair(coerce(v[0], so.U()), coerce(v[1], so.U()))
        if sort == so.S['StPair'] and len(v) == 2:
            return so.S['StPair'].mk(coerce(v[0], so.St()), coerce(v[1], so.St()))
        raise Unsupported('tuple into sort %s' % sort)
    if not z3.is_expr(v):
        raise Unsupported('cannot coerce %r to %s' % (v, sort))
    if v.sort() == sort:
        return v
    if sort == R and z3.is_int(v):
        if z3.is_int_value(v):
            return RealVal(v.as_long())
        return z3.ToReal(v)
    if sort == so.XR() and (z3.is_int(v) or z3.is_real(v)):
        return so.xr_fin(v)
    if sort == R and v.sort() == so.XR() and CURRENT_RUN[0] is not None:
        # an extended real stored where the contract types a finite number (a time appended to a list of times): finiteness is a
        # safety obligation at that point, then the finite value is used
        run = CURRENT_RUN[0]
        run.oblige('safety', 'finite-value', getattr(run, 'cur_line', 0), Not(so.xr_isinf(v)))
        return so.xr_val(v)
    raise Unsupported('cannot coerce sort %s to %s' % (v.sort(), sort))


CURRENT_RUN = [None]
