"""Assumed specifications of builtins / random / numpy / heapq / networkx used by the verified
functions (DESIGN 3.4 and section 7 item 3).  Every entry here is part of the trusted base."""
import ast
import z3
from z3 import And, Or, Not, Implies, If, IntVal, RealVal, BoolVal
from . import sorts as so
from .sorts import fresh, I, R, B
from .values import (SList, SDict, SSet, SObj, TupleSpec, Closure, Callback, FuncRef, PyConst, NONE,
                     Unsupported, coerce, SDictOfLists, SListRef)
from .engine import _EmptyList, _EmptyDict, _PyList, PathEnd, RaiseEx, View


class SGraph:
    """networkx Graph / DiGraph, read-only.  Every value of the node sort U is a node of G (so the
    population is |U|); adjacency, neighbour enumeration and attributes are uninterpreted functions."""
    kind = 'graph'

    def __init__(self, name='G', directed=False):
        U = so.U()
        self.name, self.directed = name, directed
        self.adjf = z3.Function(name + '_adj', U, U, B)
        self.degf = z3.Function(name + '_deg', U, I)
        self.nbrf = z3.Function(name + '_nbr', U, I, U)
        self.nidxf = z3.Function(name + '_nidx', U, U, I)
        self.N = fresh(name + '_N', I)
        self.nodelist = SList(U, n=self.N, a=fresh(name + '_nodes', z3.ArraySort(I, U)), name=name + '_nodes')
        self.nposf = z3.Function(name + '_npos', U, I)
        self.nodelist.posf = lambda x: self.nposf(x)
        self.nodelist.memberf = lambda x: BoolVal(True)
        self._ew, self._nw = {}, {}
        if directed:
            self.pdegf = z3.Function(name + '_pdeg', U, I)
            self.predf = z3.Function(name + '_pred', U, I, U)
            self.pidxf = z3.Function(name + '_pidx', U, U, I)

    def adj(self, u, v):
        return self.adjf(u, v)

    def ew(self, label):
        if label not in self._ew:
            self._ew[label] = z3.Function('%s_ew_%s' % (self.name, label), so.U(), so.U(), R)
        return self._ew[label]

    def nw(self, label):
        if label not in self._nw:
            self._nw[label] = z3.Function('%s_nw_%s' % (self.name, label), so.U(), R)
        return self._nw[label]

    def reach(self, u, x):
        f = z3.Function('%s_REACH_%d' % (self.name, so.Mode.gen), so.U(), so.U(), B)
        return f(u, x)

    def edge_list(self):
        """G.edges(): every edge once (for an undirected graph in one of its two orientations), no repetition"""
        if getattr(self, '_edges', None) is None:
            P = so.Pair()
            n = fresh(self.name + '_m', I)
            a = fresh(self.name + '_edges', z3.ArraySort(I, P))
            posf = z3.Function('%s_epos_%d' % (self.name, so.Mode.gen), P, I)
            memf = z3.Function('%s_emem_%d' % (self.name, so.Mode.gen), P, B)
            l = SList(P, n=n, a=a, name=self.name + '_edges')
            l.posf = lambda e: posf(e)
            l.memberf = lambda e: memf(e)
            U = so.U()
            ax = [l.wellformed(),
                  so.forall_idx(n, lambda i: And(memf(a[i]), posf(a[i]) == i)),
                  so.forall(P, lambda e: Implies(memf(e), And(0 <= posf(e), posf(e) < n, a[posf(e)] == e,
                                                             self.adjf(P.fst(e), P.snd(e)))))]
            if self.directed:
                ax.append(so.forall2(U, U, lambda u, v: memf(so.mkpair(u, v)) == self.adjf(u, v)))
            else:
                ax.append(so.forall2(U, U, lambda u, v: Implies(self.adjf(u, v), And(
                    Or(memf(so.mkpair(u, v)), memf(so.mkpair(v, u))),
                    Implies(u != v, Not(And(memf(so.mkpair(u, v)), memf(so.mkpair(v, u)))))))))
            self._edges, self._edge_axioms = l, ax
        return self._edges

    def nbrs(self, u):
        l = SList(so.U(), n=self.degf(u), a=z3.Lambda([_i()], self.nbrf(u, _i())), name='nbrs')
        l.posf = lambda x: self.nidxf(u, x)
        l.memberf = lambda x: self.adjf(u, x)
        return l

    def preds(self, u):
        if not self.directed:
            return self.nbrs(u)
        l = SList(so.U(), n=self.pdegf(u), a=z3.Lambda([_i()], self.predf(u, _i())), name='preds')
        l.posf = lambda x: self.pidxf(u, x)
        l.memberf = lambda x: self.adjf(x, u)
        return l

    def axioms(self, weight_labels=(), node_labels=(), positive_weights=True):
        U = so.U()
        ax = [self.N >= 0]
        ax.append(so.forall(U, lambda u: self.degf(u) >= 0))
        ax.append(so.forall(U, lambda u: so.forall_idx(self.degf(u), lambda i: And(
            self.adjf(u, self.nbrf(u, i)), self.nidxf(u, self.nbrf(u, i)) == i))))
        ax.append(so.forall2(U, U, lambda u, v: Implies(self.adjf(u, v), And(
            0 <= self.nidxf(u, v), self.nidxf(u, v) < self.degf(u), self.nbrf(u, self.nidxf(u, v)) == v))))
        if so.Mode.finite:
            ax.append(so.forall(U, lambda u: self.degf(u) <= so.Mode.lmax))
            ax.append(self.N == len(so.S['U_elems']))
        if not self.directed:
            ax.append(so.forall2(U, U, lambda u, v: self.adjf(u, v) == self.adjf(v, u)))
        else:
            ax.append(so.forall(U, lambda u: self.pdegf(u) >= 0))
            ax.append(so.forall(U, lambda u: so.forall_idx(self.pdegf(u), lambda i: And(
                self.adjf(self.predf(u, i), u), self.pidxf(u, self.predf(u, i)) == i))))
            ax.append(so.forall2(U, U, lambda u, v: Implies(self.adjf(v, u), And(
                0 <= self.pidxf(u, v), self.pidxf(u, v) < self.pdegf(u), self.predf(u, self.pidxf(u, v)) == v))))
            if so.Mode.finite:
                ax.append(so.forall(U, lambda u: self.pdegf(u) <= so.Mode.lmax))
        # node list enumerates U without repetition
        ax.append(so.forall_idx(self.N, lambda i: self.nposf(self.nodelist.a[i]) == i))
        ax.append(so.forall(U, lambda u: And(0 <= self.nposf(u), self.nposf(u) < self.N,
                                             self.nodelist.a[self.nposf(u)] == u)))
        for lab in weight_labels:
            f = self.ew(lab)
            if not self.directed:
                ax.append(so.forall2(U, U, lambda u, v: f(u, v) == f(v, u)))
            if positive_weights:
                ax.append(so.forall2(U, U, lambda u, v: f(u, v) > 0))
        for lab in node_labels:
            f = self.nw(lab)
            if positive_weights:
                ax.append(so.forall(U, lambda u: f(u) > 0))
        return ax

    def snap(self):
        return self

    def wellformed(self):
        return BoolVal(True)


def _i():
    return z3.Int('lam_i')


_REACH = {}


def reach_fun(adj_sort):
    """REACH(adjacency)(u, x): x can be reached from u by a non-empty directed path (assumed networkx contract:
    nx.descendants(H, u) = {x != u | REACH(H)(u, x)},  nx.ancestors(H, t) = {x != t | REACH(H)(x, t)})"""
    key = (str(adj_sort), so.Mode.gen)
    if key not in _REACH:
        _REACH[key] = z3.Function('REACH_%d' % so.Mode.gen, adj_sort, so.U(), so.U(), B)
    return _REACH[key]


class SGraphB:
    """a networkx Graph/DiGraph being BUILT by the analysed code: node set, edge set (ordered pairs; both
    orientations for an undirected graph), node / edge attribute maps"""
    kind = 'graphb'

    def __init__(self, directed, name='H', nodes=None, adj=None):
        U, P = so.U(), so.Pair()
        self.directed, self.name = directed, name
        self.nodes = nodes if nodes is not None else fresh(name + '_nodes', z3.ArraySort(U, B))
        self.adj = adj if adj is not None else fresh(name + '_adj', z3.ArraySort(P, B))
        self.nattr, self.eattr = {}, {}

    def snap(self):
        c = SGraphB(self.directed, self.name, self.nodes, self.adj)
        c.nattr, c.eattr = dict(self.nattr), dict(self.eattr)
        return c

    def havoc(self):
        U, P = so.U(), so.Pair()
        self.nodes = fresh(self.name + '_nodes', z3.ArraySort(U, B))
        self.adj = fresh(self.name + '_adj', z3.ArraySort(P, B))
        for k in list(self.nattr):
            self.nattr[k] = fresh(self.name + '_na_' + k, self.nattr[k].sort())
        for k in list(self.eattr):
            self.eattr[k] = fresh(self.name + '_ea_' + k, self.eattr[k].sort())

    def wellformed(self):
        U = so.U()
        return And(so.forall2(U, U, lambda a, b: Implies(self.adj[so.mkpair(a, b)], And(self.nodes[a], self.nodes[b]))),
                   so.forall2(U, U, lambda a, b: Implies(self.reach(a, b), And(self.nodes[a], self.nodes[b]))))

    def has_edge(self, u, v):
        return self.adj[so.mkpair(u, v)]

    def reach(self, u, x):
        return reach_fun(self.adj.sort())(self.adj, u, x)

    def order(self):
        return so.cnt(self.nodes, BoolVal(True))


class Untyped:
    """result of a constructor call whose element types come from the contract's typed locals"""

    def __init__(self, what, default=None):
        self.what, self.default = what, default


class Lib:
    modules = {'random', 'np', 'numpy', 'heapq', 'nx', 'networkx', 'EoN', 'math', 'scipy', 'integrate'}
    builtins = {'len', 'int', 'float', 'round', 'range', 'enumerate', 'zip', 'list', 'set', 'tuple', 'sorted',
                'max', 'min', 'sum', 'abs', 'print', 'defaultdict', 'Counter', 'dict', 'bool', 'isinstance', 'any', 'all'}

    def __init__(self):
        self.extra_mod = {}
        self.extra_method = {}

    # ----------------------------------------------------------------------------------------------
    def attr(self, run, base, attr, lineno):
        if isinstance(base, SGraph):
            if attr == 'adj':
                return ('gadj', base)
            if attr == 'nodes':
                return ('gnodes', base)
            return ('boundlib', base, attr)
        if isinstance(base, SList) and attr == 'T':
            raise Unsupported('numpy transpose')
        return None

    def setattr(self, run, base, attr, val, lineno):
        return False

    def contains(self, run, cont, item, lineno):
        if isinstance(cont, SGraph):
            return BoolVal(z3.is_expr(item) and item.sort() == so.U())
        return None

    def truth(self, run, v, lineno):
        if isinstance(v, SGraph):
            return v.N > 0
        if isinstance(v, SDict):
            return so.exists(v.ksort, lambda k: v.dom[k])
        if isinstance(v, SSet):
            return so.exists(v.ksort, lambda k: v.dom[k])
        return None

    def getitem(self, run, base, k, lineno):
        if isinstance(base, tuple) and base and isinstance(base[0], str) and base[0] == 'gadj':
            return ('gadj1', base[1], coerce(k, so.U()))
        if isinstance(base, tuple) and base and isinstance(base[0], str) and base[0] == 'gadj1':
            G, u = base[1], base[2]
            v = coerce(k, so.U())
            run.oblige('safety', 'edge-present', lineno, G.adj(u, v))
            return ('gadj2', G, u, v)
        if isinstance(base, tuple) and base and isinstance(base[0], str) and base[0] == 'gadj2':
            if isinstance(k, PyConst) and isinstance(k.v, str):
                return base[1].ew(k.v)(base[2], base[3])
            raise Unsupported('edge attribute with non-constant label')
        if isinstance(base, tuple) and base and isinstance(base[0], str) and base[0] == 'gnodes':
            return ('gnode1', base[1], coerce(k, so.U()))
        if isinstance(base, tuple) and base and isinstance(base[0], str) and base[0] == 'gnode1':
            if isinstance(k, PyConst) and isinstance(k.v, str):
                return base[1].nw(k.v)(base[2])
            raise Unsupported('node attribute with non-constant label')
        return None

    def setitem(self, run, base, k, val, lineno):
        return False

    def setitem_obj(self, run, base, k, val, lineno):
        return False

    def try_stmt(self, run, n, env):
        """supported pattern: a try body whose modelled operations cannot raise (e.g. creation of a lambda);
        the handlers are then dead code.  finally/else are outside the subset."""
        if n.finalbody or n.orelse:
            return False
        for st in n.body:
            if not (isinstance(st, ast.Assign) and isinstance(st.value, ast.Lambda)):
                return False
        run.exec_block(n.body, env)
        return True

    # ----------------------------------------------------------------------------------------------
    def slice(self, run, base, sl, env, lineno):
        if sl.step is not None:
            raise Unsupported('slice with step')
        lo = run.ev(sl.lower, env) if sl.lower is not None else IntVal(0)
        if isinstance(base, tuple):
            lo_s = z3.simplify(lo)
            if sl.upper is None and z3.is_int_value(lo_s):
                return base[lo_s.as_long():]
            raise Unsupported('tuple slice')
        if isinstance(base, SList):
            if sl.upper is None:
                # L[lo:]  with 0 <= lo (python clamps lo > n to an empty list)
                lo_c = If(lo > base.n, base.n, lo)
                run.oblige('safety', 'slice-lower-nonneg', lineno, lo >= 0)
                zs = base.esort.zsort() if isinstance(base.esort, TupleSpec) else base.esort
                a = z3.Lambda([_i()], base.a[_i() + lo_c])
                return SList(base.esort, n=base.n - lo_c, a=a, name='slice')
            hi = run.ev(sl.upper, env)
            hs = z3.simplify(hi)
            if sl.lower is None and z3.is_int_value(hs) and hs.as_long() == -1:
                # L[:-1]
                return SList(base.esort, n=If(base.n > 0, base.n - 1, IntVal(0)), a=base.a, name='slice')
            run.oblige('safety', 'slice-bounds', lineno, And(0 <= lo, lo <= hi, hi <= base.n))
            a = z3.Lambda([_i()], base.a[_i() + lo])
            return SList(base.esort, n=hi - lo, a=a, name='slice')
        raise Unsupported('slice of %r at line %d' % (base, lineno))

    def list_concat(self, run, l, r):
        if isinstance(l, _EmptyList):
            return r
        if isinstance(r, _EmptyList):
            return l
        if isinstance(l, _PyList) and isinstance(r, _PyList):
            return _PyList(l.items + r.items)
        if isinstance(l, SList) and isinstance(r, SList):
            a = z3.Lambda([_i()], If(_i() < l.n, l.a[_i()], r.a[_i() - l.n]))
            return SList(l.esort, n=l.n + r.n, a=a, name='cat')
        raise Unsupported('list concatenation')

    # ----------------------------------------------------------------------------------------------
    def iter_seq(self, run, v, lineno):
        """-> (SList, item maker) for symbolic sequences, (None, [items]) for concrete python sequences"""
        if isinstance(v, tuple) and v and isinstance(v[0], str):
            tag = v[0]
            if tag == 'enumerate':
                seq, mk = self.iter_seq(run, v[1], lineno)
                if seq is None:
                    return None, [(IntVal(i), x) for i, x in enumerate(mk)]
                return seq, (lambda i: (i, mk(i)))
            if tag == 'zip':
                parts = [self.iter_seq(run, x, lineno) for x in v[1]]
                if all(p[0] is None for p in parts):
                    return None, list(zip(*[p[1] for p in parts]))
                if any(p[0] is None for p in parts):
                    raise Unsupported('zip of mixed sequences')
                n = parts[0][0].n
                for p in parts[1:]:
                    n = If(p[0].n < n, p[0].n, n)
                seq = SList(parts[0][0].esort, n=n, a=parts[0][0].a, name='zip')
                return seq, (lambda i: tuple(p[1](i) for p in parts))
            if tag == 'range':
                n = v[1]
                seq = SList(I, n=If(n < 0, IntVal(0), n), a=z3.Lambda([_i()], _i()), name='range')
                return seq, (lambda i: i)
            if tag == 'items':
                d = v[1]
                ks = self.keyseq(run, d)
                if isinstance(d, SDictOfLists):
                    return ks, (lambda i: (ks.a[i], d.at(ks.a[i])))
                return ks, (lambda i: (ks.a[i], d.vobj(ks.a[i]) if d.vobj is not None else d.val[ks.a[i]]))
            if tag == 'keys':
                ks = self.keyseq(run, v[1])
                return ks, (lambda i: ks.a[i])
            if tag == 'values':
                d = v[1]
                ks = self.keyseq(run, d)
                return ks, (lambda i: d.val[ks.a[i]])
            if tag == 'gnodes':
                G = v[1]
                return G.nodelist, (lambda i: G.nodelist.a[i])
            if tag == 'genexp':
                raise Unsupported('iteration over a generator expression')
            # plain python tuple that happens to start with a string is not produced by the engine
        if isinstance(v, SGraph):
            return v.nodelist, (lambda i: v.nodelist.a[i])
        if isinstance(v, SList):
            if isinstance(v.esort, TupleSpec):
                return v, (lambda i: v.esort.unpack(v.a[i]))
            return v, (lambda i: v.a[i])
        if isinstance(v, SDict):
            ks = self.keyseq(run, v)
            return ks, (lambda i: ks.a[i])
        if isinstance(v, SDictOfLists):
            ks = self.keyseq(run, v)
            return ks, (lambda i: ks.a[i])
        if isinstance(v, SSet):
            ks = self.keyseq(run, v)
            return ks, (lambda i: ks.a[i])
        if isinstance(v, tuple):
            return None, list(v)
        if isinstance(v, _PyList):
            return None, list(v.items)
        if isinstance(v, (_EmptyList, _EmptyDict)):
            return None, []
        raise Unsupported('iteration over %r at line %d' % (v, lineno))

    def keyseq(self, run, d):
        """ghost duplicate-free enumeration of the keys of a dict / the elements of a set (iteration order)"""
        K = d.ksort
        n = fresh(d.name + '_kn', I)
        a = fresh(d.name + '_ks', z3.ArraySort(I, K))
        posf = z3.Function('%s_kpos!%d' % (d.name, next(so._counter)), K, I)
        seq = SList(K, n=n, a=a, name=d.name + '_keys')
        dom = d.dom
        seq.posf = lambda x: posf(x)
        seq.memberf = lambda x: dom[x]
        run.assume(seq.wellformed())
        run.assume(so.forall_idx(n, lambda i: And(dom[a[i]], posf(a[i]) == i)))
        run.assume(so.forall(K, lambda k: Implies(dom[k], And(0 <= posf(k), posf(k) < n, a[posf(k)] == k))))
        if isinstance(d, SSet):
            run.assume(n == so.cnt(dom, BoolVal(True)))       # the enumeration has as many elements as the set
        return seq

    # ----------------------------------------------------------------------------------------------
    def listcomp(self, run, e, env):
        if len(e.generators) != 1 or e.generators[0].is_async:
            raise Unsupported('nested comprehension')
        g = e.generators[0]
        seqv = run.ev(g.iter, env)
        seq, mk = self.iter_seq(run, seqv, e.lineno)
        from .engine import _ChainEnv
        if seq is None:
            out = []
            for item in mk:
                le = _ChainEnv(env)
                run.assign(g.target, item, le, e.lineno)
                ok = True
                for c in g.ifs:
                    if not run.branch(run.truth(run.ev(c, le), e.lineno), e.lineno):
                        ok = False
                        break
                if ok:
                    out.append(run.ev(e.elt, le))
            return run.new_list(out, e.lineno) if out else _EmptyList()
        # symbolic sequence: result characterised by axioms (subsequence / pointwise map)
        x = fresh('cx', I)
        le = _ChainEnv(env)
        run.assign(g.target, mk(x), le, e.lineno)
        guard = self.protect_doms(run, env)
        saved_ta = len(run.temp_assume)
        run.temp_assume.append(And(0 <= x, x < seq.n))
        try:
            conds = [run.truth(run.ev(c, le), e.lineno) for c in g.ifs]
            cond = And(*conds) if conds else None
            if cond is not None:
                run.temp_assume.append(cond)
            elt = run.ev(e.elt, le)
        finally:
            del run.temp_assume[saved_ta:]
            self.restore_doms(run, guard)
        if not z3.is_expr(elt):
            if isinstance(elt, PyConst) and isinstance(elt.v, str) and elt.v in so.S['status_const']:
                elt = so.S['status_const'][elt.v]
            else:
                raise Unsupported('comprehension element %r' % (elt,))
        esort = elt.sort()

        def at(term, i):
            return z3.substitute(term, (x, i))
        if cond is None:
            a = fresh('map_a', z3.ArraySort(I, esort))
            res = SList(esort, n=seq.n, a=a, name='map')
            run.assume(so.forall_idx(seq.n, lambda i: a[i] == at(elt, i)))
            return res
        n = fresh('flt_n', I)
        a = fresh('flt_a', z3.ArraySort(I, esort))
        src = z3.Function('flt_src!%d' % next(so._counter), I, I)
        dst = z3.Function('flt_dst!%d' % next(so._counter), I, I)
        res = SList(esort, n=n, a=a, name='flt')
        run.assume(res.wellformed())
        run.assume(n <= seq.n)
        run.assume(so.forall_idx(n, lambda j: And(0 <= src(j), src(j) < seq.n, at(cond, src(j)),
                                                  a[j] == at(elt, src(j)), dst(src(j)) == j)))
        run.assume(so.forall_idx(seq.n, lambda i: Implies(at(cond, i), And(0 <= dst(i), dst(i) < n, src(dst(i)) == i))))
        run.assume(so.forall_idx(n, lambda j: so.forall_idx(n, lambda j2: Implies(j < j2, src(j) < src(j2)))))
        if getattr(seq, 'posf', None) is not None and esort == seq.a.sort().range() and elt.eq(at(mk(x), x) if z3.is_expr(mk(x)) else elt):
            # filtering a duplicate-free sequence of keys gives a duplicate-free sequence
            pass
        res.src, res.dst, res.base, res.cond_at, res.elt_at = src, dst, seq, (lambda i: at(cond, i)), (lambda i: at(elt, i))
        return res

    def protect_doms(self, run, env):
        """reads of defaultdicts inside a comprehension body are evaluated at a bound (symbolic) key: the key
        must not leak into the map's domain term; afterwards the domain is havocked to a superset"""
        out = []
        seen = set()
        e = env
        while e is not None:
            for v in list(dict.values(e)):
                if isinstance(v, SDict) and v.default is not None and id(v) not in seen:
                    seen.add(id(v))
                    out.append((v, v.dom))
            e = getattr(e, 'parent', None)
        return out

    def restore_doms(self, run, guard):
        for d, dom in guard:
            if d.dom is not dom and not d.dom.eq(dom):
                d.dom = dom
                old = dom
                d.havoc_dom()
                run.assume(so.forall(d.ksort, lambda k, old=old, d=d: Implies(old[k], d.dom[k])))
                run.assume(d.wellformed())

    def dictcomp(self, run, e, env):
        """{key_var: expr for key_var in D.keys()}  ->  dict with the same domain, values defined pointwise"""
        from .engine import _ChainEnv
        if len(e.generators) != 1 or e.generators[0].ifs:
            raise Unsupported('dict comprehension shape at line %d' % e.lineno)
        g = e.generators[0]
        src = run.ev(g.iter, env)
        if isinstance(src, _PyList) or (isinstance(src, tuple) and not (src and isinstance(src[0], str))):
            # concrete python-level sequence: the pairs in order (later keys overwrite earlier ones when stored)
            from .engine import _PyDictLit
            pairs = []
            for item in (src.items if isinstance(src, _PyList) else src):
                le = _ChainEnv(env)
                run.assign(g.target, item, le, e.lineno)
                pairs.append((run.ev(e.key, le), run.ev(e.value, le)))
            return _PyDictLit(pairs)
        if isinstance(src, tuple) and src and isinstance(src[0], str) and src[0] == 'items' and isinstance(g.target, ast.Tuple) and len(g.target.elts) == 2 \
                and all(isinstance(t, ast.Name) for t in g.target.elts) and isinstance(e.key, ast.Name) and e.key.id == g.target.elts[0].id:
            d = src[1]
            x = fresh('dk', d.ksort)
            le = _ChainEnv(env)
            le[g.target.elts[0].id] = x
            le[g.target.elts[1].id] = d.at(x) if isinstance(d, SDictOfLists) else d.val[x]
            saved = len(run.temp_assume)
            run.temp_assume.append(d.dom[x])
            guard = self.protect_doms(run, env)
            try:
                val = run.ev(e.value, le)
            finally:
                del run.temp_assume[saved:]
                self.restore_doms(run, guard)
            if not z3.is_expr(val):
                raise Unsupported('dict comprehension value at line %d' % e.lineno)
            res = SDict(d.ksort, val.sort(), dom=d.dom, name='dcomp')
            run.assume(so.forall(d.ksort, lambda k: Implies(d.dom[k], res.val[k] == z3.substitute(val, (x, k)))))
            res.defined_from = d
            return res
        if (isinstance(src, SGraph) or (isinstance(src, tuple) and src and isinstance(src[0], str) and src[0] == 'gnodes')) and isinstance(g.target, ast.Name) \
                and isinstance(e.key, ast.Name) and e.key.id == g.target.id and not g.ifs:
            # {node: expr for node in G.nodes()} : total map over the node set
            U = so.U()
            x = fresh('dk', U)
            le = _ChainEnv(env)
            le[g.target.id] = x
            guard = self.protect_doms(run, env)
            try:
                val = run.ev(e.value, le)
            finally:
                self.restore_doms(run, guard)
            if isinstance(val, tuple) and len(val) == 2 and all(isinstance(v, SList) and not isinstance(v.esort, TupleSpec)
                                                                and z3.is_true(z3.simplify(v.n == 1)) for v in val):
                # {node: ([t0], [s0(node)]) for node in G.nodes()} : a per-node history (list of times, list of statuses), every node a key
                from .values import SHistoryTotal
                tl, sl = val
                tdict = SDictOfLists(U, tl.esort, dom=z3.K(U, BoolVal(True)), lens=z3.K(U, IntVal(1)), vals=z3.Lambda([x], tl.a),
                                     default_empty=False, name='hist_t')
                sdict = SDictOfLists(U, sl.esort, dom=z3.K(U, BoolVal(True)), lens=z3.K(U, IntVal(1)), vals=z3.Lambda([x], sl.a),
                                     default_empty=False, name='hist_s')
                return SHistoryTotal(tl.a[0], 'node_history', tdict, sdict)
            if not z3.is_expr(val):
                raise Unsupported('dict comprehension value at line %d' % e.lineno)
            res = SDict(U, val.sort(), dom=z3.K(U, BoolVal(True)), name='dcomp')
            run.assume(so.forall(U, lambda k: res.val[k] == z3.substitute(val, (x, k))))
            return res
        if isinstance(src, SList) and not isinstance(src.esort, TupleSpec) and isinstance(g.target, ast.Name) \
                and isinstance(e.key, ast.Name) and e.key.id == g.target.id:
            # {x: expr(x) for x in L} : the keys are the elements of the list, values defined pointwise
            K = src.esort
            x = fresh('dk', K)
            mem = (lambda k: src.memberf(k)) if getattr(src, 'memberf', None) is not None else (lambda k: src.contains(k))
            le = _ChainEnv(env)
            le[g.target.id] = x
            saved = len(run.temp_assume)
            run.temp_assume.append(mem(x))
            guard = self.protect_doms(run, env)
            try:
                val = run.ev(e.value, le)
            finally:
                del run.temp_assume[saved:]
                self.restore_doms(run, guard)
            if not z3.is_expr(val):
                raise Unsupported('dict comprehension value at line %d' % e.lineno)
            res = SDict(K, val.sort(), name='dcomp')
            run.assume(so.forall(K, lambda k: res.dom[k] == mem(k)))
            run.assume(so.forall(K, lambda k: Implies(mem(k), res.val[k] == z3.substitute(val, (x, k)))))
            return res
        if isinstance(src, tuple) and src and isinstance(src[0], str) and src[0] == 'keys':
            src = src[1]
        if not (isinstance(src, SDict) and isinstance(g.target, ast.Name) and isinstance(e.key, ast.Name) and e.key.id == g.target.id):
            raise Unsupported('dict comprehension at line %d' % e.lineno)
        x = fresh('dk', src.ksort)
        le = _ChainEnv(env)
        le[g.target.id] = x
        saved = len(run.temp_assume)
        run.temp_assume.append(src.dom[x])
        guard = self.protect_doms(run, env)
        try:
            val = run.ev(e.value, le)
        finally:
            del run.temp_assume[saved:]
            self.restore_doms(run, guard)
        if not z3.is_expr(val):
            raise Unsupported('dict comprehension value at line %d' % e.lineno)
        res = SDict(src.ksort, val.sort(), dom=src.dom, name='dcomp')
        if src.ksort == I and so.Mode.finite:
            run.assume(so.forall_idx(IntVal(so.Mode.lmax + 1), lambda k: Implies(src.dom[k], res.val[k] == z3.substitute(val, (x, k)))))
        else:
            run.assume(so.forall(src.ksort, lambda k: Implies(src.dom[k], res.val[k] == z3.substitute(val, (x, k)))))
        res.defined_from = src
        return res

    # ----------------------------------------------------------------------------------------------
    def builtin(self, run, name, args, kw, lineno):
        if name == 'print':
            return NONE
        if name == 'len':
            v = args[0]
            if hasattr(v, 'size') and getattr(v, 'kind', '') == 'heap':
                return v.size()
            if isinstance(v, SList):
                return v.n
            if isinstance(v, (_EmptyList, _EmptyDict)):
                return IntVal(0)
            if isinstance(v, tuple):
                return IntVal(len(v))
            if isinstance(v, _PyList):
                return IntVal(len(v.items))
            if isinstance(v, SObj):
                return run.call_contract(v.cls + '.__len__', [v], {}, lineno)
            if isinstance(v, SSet):
                return so.cnt(v.dom, BoolVal(True))
            if isinstance(v, (SDict,)):
                return self.card(run, v)
            if isinstance(v, SGraph):
                return v.N
            if z3.is_expr(v):
                # len() of a node / number raises TypeError
                run.oblige('safety', 'len-of-scalar', lineno, BoolVal(False))
                raise PathEnd()
            raise Unsupported('len of %r' % (v,))
        if name == 'float':
            v = args[0]
            if isinstance(v, PyConst) and isinstance(v.v, str) and v.v.lower() in ('inf', '+inf', 'infinity'):
                return so.xr_inf()
            if z3.is_expr(v) and z3.is_int(v):
                return z3.ToReal(v)
            if z3.is_expr(v) and (z3.is_real(v) or so.is_xr(v)):
                return v
            raise Unsupported('float(%r)' % (v,))
        if name == 'int':
            v = args[0]
            if z3.is_expr(v) and z3.is_int(v):
                return v
            if z3.is_expr(v) and z3.is_real(v):
                # int() truncates toward zero
                return If(v >= 0, z3.ToInt(v), -z3.ToInt(-v))
            raise Unsupported('int(%r)' % (v,))
        if name == 'round':
            v = args[0]
            if len(args) > 1:
                raise Unsupported('round with digits')
            if z3.is_expr(v) and z3.is_int(v):
                return v
            if z3.is_expr(v) and z3.is_real(v):
                # round half to even
                fl = z3.ToInt(v)
                fr = v - z3.ToReal(fl)
                return If(fr < RealVal('1/2'), fl, If(fr > RealVal('1/2'), fl + 1, If(fl % 2 == 0, fl, fl + 1)))
            raise Unsupported('round(%r)' % (v,))
        if name == 'abs':
            v = args[0]
            return If(v >= 0, v, -v)
        if name == 'bool':
            return run.truth(args[0], lineno)
        if name == 'range':
            if len(args) == 1:
                return ('range', args[0])
            raise Unsupported('range with start/step')
        if name == 'enumerate':
            return ('enumerate', args[0])
        if name == 'zip':
            return ('zip', args)
        if name in ('list', 'tuple'):
            if not args:
                return _EmptyList()
            v = args[0]
            if isinstance(v, SList):
                return v.snap() if name == 'list' else v
            if isinstance(v, SGraph):
                return v.nodelist
            if isinstance(v, (SDict, SSet)):
                return self.keyseq(run, v)
            if isinstance(v, tuple) and v and v[0] in ('keys', 'gnodes'):
                seq, mk = self.iter_seq(run, v, lineno)
                return seq
            if isinstance(v, tuple):
                return _PyList(list(v)) if name == 'list' else v
            if isinstance(v, (_PyList, _EmptyList)):
                return v
            raise Unsupported('%s(%r)' % (name, v))
        if name == 'set':
            if not args:
                return Untyped('set')
            v = args[0]
            if isinstance(v, SList) and not isinstance(v.esort, TupleSpec):
                dom = fresh('set_dom', z3.ArraySort(v.esort, B))
                if getattr(v, 'memberf', None) is not None:
                    run.assume(so.forall(v.esort, lambda k: dom[k] == v.memberf(k)))
                    # cardinality of the set of a duplicate-free list is the list's length (finite-cardinality fact)
                    run.assume(so.cnt(dom, BoolVal(True)) == v.n)
                else:
                    run.assume(so.forall(v.esort, lambda k: dom[k] == so.exists_idx(v.n, lambda i: v.a[i] == k)))
                return SSet(v.esort, dom=dom, name='set')
            if isinstance(v, SSet):
                return v.snap()
            if isinstance(v, _EmptyList):
                return Untyped('set')
            if isinstance(v, _PyList) and v.items and all(z3.is_expr(x) for x in v.items):
                ks = v.items[0].sort()
                dom = z3.K(ks, BoolVal(False))
                for x in v.items:
                    dom = z3.Store(dom, x, BoolVal(True))
                return SSet(ks, dom=dom, name='set')
            raise Unsupported('set(%r)' % (v,))
        if name == 'defaultdict':
            d = args[0] if args else None
            dv = None
            if isinstance(d, Closure):
                dv = run.call_closure(d, [], {}, lineno)
            elif isinstance(d, PyConst) and d.v == ('builtin', 'int'):
                dv = IntVal(0)
            elif isinstance(d, PyConst) and d.v == ('builtin', 'list'):
                dv = _EmptyList()
            return Untyped('defaultdict', dv)
        if name == 'dict':
            if not args:
                return _EmptyDict()
            v = args[0]
            if isinstance(v, tuple) and v and isinstance(v[0], str) and v[0] == 'gdegree':
                G = v[1]
                U = so.U()
                u = z3.Const('deg_u', U)
                return SDict(U, I, dom=z3.K(U, BoolVal(True)), val=z3.Lambda([u], G.degf(u)), name='degree')
            raise Unsupported('dict(...)')
        if name in ('max', 'min') and len(args) == 1 and isinstance(args[0], tuple) and args[0] and args[0][0] == 'scc':
            H = args[0][1]
            keyf = kw.get('key')
            if not (isinstance(keyf, PyConst) and keyf.v == ('builtin', 'len')):
                run.oblige('site', 'largest-scc-by-len', lineno, BoolVal(False))
            order = H.order() if isinstance(H, SGraphB) else H.N
            run.oblige('safety', 'max-of-nonempty', lineno, order >= 1)
            C = SSet(so.U(), name='scc')
            U = so.U()
            inH = (lambda x: H.nodes[x]) if isinstance(H, SGraphB) else (lambda x: BoolVal(True))
            # assumed contract: C is a strongly connected component (mutual reachability class) of maximal size
            run.assume(so.exists(U, lambda x: C.dom[x]))
            run.assume(so.forall(U, lambda x: Implies(C.dom[x], inH(x))))
            run.assume(so.forall2(U, U, lambda x, y: Implies(And(C.dom[x], inH(y)),
                                                           C.dom[y] == Or(x == y, And(H.reach(x, y), H.reach(y, x))))))
            # (maximality / minimality of the size is recorded, not axiomatised: the estimator's contract demands 'max')
            run.ghost['largest_scc'] = C
            run.ghost.setdefault('scc_of', []).append((H, C) if name == 'max' else (None, C))
            return C
        if name == 'max' and len(args) == 1 and isinstance(args[0], tuple) and args[0] and args[0][0] == 'genexp':
            e, env2 = args[0][1], args[0][2]
            g = e.generators[0] if len(e.generators) == 1 else None
            if g is not None and ast.unparse(e.elt) == 'len(%s)' % ast.unparse(g.target) and not g.ifs:
                src = run.ev(g.iter, env2)
                if isinstance(src, tuple) and src and isinstance(src[0], str) and src[0] == 'cc':
                    H = src[1]
                    f = z3.Function('LARGEST_CC_%d' % so.Mode.gen, H.adj.sort(), H.nodes.sort(), I)
                    m = f(H.adj, H.nodes)
                    order = H.order()
                    run.oblige('safety', 'max-of-nonempty', lineno, order >= 1)
                    run.assume(And(m >= 1, m <= order))
                    run.ghost['largest_cc'] = (H, m)
                    return m
            raise Unsupported('max over a generator at line %d' % lineno)
        if name == 'Counter':
            v = args[0] if args else None
            if isinstance(v, tuple) and v and isinstance(v[0], str) and v[0] == 'values':
                d = v[1]
                C = SDict(d.vsort, I, default=IntVal(0), name='counter')
                C.no_insert = True        # Counter.__missing__ returns 0 without inserting the key
                run.assume(so.forall(d.vsort, lambda x: C.dom[x] == so.exists(d.ksort, lambda k: And(d.dom[k], d.val[k] == x))))
                run.assume(so.forall(d.vsort, lambda x: If(C.dom[x], C.val[x] >= 1, C.val[x] == 0)))
                # the same fact in a trigger-friendly direction: every value that occurs is a key of the Counter
                run.assume(so.forall(d.ksort, lambda k: Implies(d.dom[k], C.dom[d.val[k]]),
                                     pats=(lambda k: [d.val[k]]) if (not so.is_finite_sort(d.ksort) and z3.is_const(d.val)) else None))
                if z3.is_true(z3.simplify(so.forall(d.ksort, lambda k: d.dom[k]))) or d.name == 'degree':
                    C.count_of = d.val
                    if so.Mode.finite and d.vsort == I:
                        run.assume(so.forall_idx(IntVal(so.Mode.lmax + 1), lambda x: C.val[x] == so.cnt(d.val, x)))
                    else:
                        run.assume(so.forall(d.vsort, lambda x: C.val[x] == so.cnt(d.val, x)))
                return C
            raise Unsupported('Counter(%r)' % (v,))
        if name in ('max', 'min') and len(args) == 1 and isinstance(args[0], tuple) and args[0] and args[0][0] == 'keys':
            d = args[0][1]
            run.oblige('safety', '%s-of-nonempty' % name, lineno, so.exists(d.ksort, lambda k: d.dom[k]))
            m = fresh(name, d.ksort)
            run.assume(d.dom[m])
            run.assume(so.forall(d.ksort, lambda k: Implies(d.dom[k], (k <= m) if name == 'max' else (k >= m))))
            return m
        if name in ('max', 'min'):
            if len(args) == 2 and all(z3.is_expr(a) for a in args):
                a, b, _ = run.num2(args[0], args[1])
                return If(a >= b, a, b) if name == 'max' else If(a <= b, a, b)
            raise Unsupported('%s over a collection' % name)
        if name == 'sum':
            v = args[0]
            return self.sum_(run, v, lineno)
        if name == 'sorted':
            if len(args) != 1 or kw:
                raise Unsupported('sorted with key / reverse')
            return self.sorted_(run, args[0], lineno)
        if name == 'isinstance':
            raise Unsupported('isinstance')
        raise Unsupported('builtin %s' % name)

    def sorted_(self, run, v, lineno):
        """assumed contract of sorted(iterable of numbers): a new list, non-decreasing, a rearrangement of the input
        (perm / inv are the ghost bijection between result positions and input positions)"""
        if isinstance(v, tuple) and v and isinstance(v[0], str) and v[0] == 'genexp':
            v = self.listcomp(run, v[1], v[2])
        if isinstance(v, _EmptyList):
            return _EmptyList()
        if not isinstance(v, SList) or isinstance(v.esort, TupleSpec) or not (v.esort == R or v.esort == I):
            raise Unsupported('sorted(%r) at line %d' % (v, lineno))
        m = v.snap()
        n = m.n
        a = fresh('srt_a', z3.ArraySort(I, m.esort))
        k = next(so._counter)
        perm = z3.Function('srt_perm!%d' % k, I, I)
        inv = z3.Function('srt_inv!%d' % k, I, I)
        res = SList(m.esort, n=n, a=a, name='sorted')
        res.perm, res.inv, res.base = perm, inv, m
        run.assume(so.forall_idx(n, lambda i: And(0 <= perm(i), perm(i) < n, a[i] == m.a[perm(i)], inv(perm(i)) == i)))
        run.assume(so.forall_idx(n, lambda j: And(0 <= inv(j), inv(j) < n, perm(inv(j)) == j, a[inv(j)] == m.a[j])))
        run.assume(so.forall_idx(n, lambda i: so.forall_idx(n, lambda j: Implies(i < j, a[i] <= a[j]))))
        return res

    def card(self, run, v):
        """len() of a dict/set: cardinality of the domain (ghost key sequence length)"""
        ks = self.keyseq(run, v)
        return ks.n

    def sum_(self, run, v, lineno):
        if isinstance(v, tuple) and v and isinstance(v[0], str) and v[0] == 'genexp':
            e, env = v[1], v[2]
            h = run.unit.sum_specs.get(e.lineno) if hasattr(run.unit, 'sum_specs') else None
            g = e.generators[0]
            seqv = run.ev(g.iter, env)
            # sum(d[item] for item in L)  where L enumerates the keys of d without repetition
            hook = getattr(run.unit, 'sum_hook', None)
            if hook is not None:
                r = hook(run, e, env, seqv)
                if r is not None:
                    return r
            raise Unsupported('sum over a generator at line %d' % lineno)
        if isinstance(v, (SDict, SSet, SList)):
            # sum over a collection whose content is not modelled arithmetically: some real number (sound havoc)
            return fresh('sum_unknown', R)
        raise Unsupported('sum(%r)' % (v,))

    # ----------------------------------------------------------------------------------------------
    def modcall(self, run, name, args, kw, lineno):
        h = self.extra_mod.get(name)
        if h is not None:
            return h(run, args, kw, lineno)
        if name == 'random.random':
            u = fresh('u01', R)
            run.assume(And(u >= 0, u < 1))
            run.site('random.random', lineno, value=u)
            return u
        if name == 'random.expovariate':
            r = args[0]
            if so.is_xr(r):
                raise Unsupported('expovariate of an extended real')
            if z3.is_int(r):
                r = z3.ToReal(r)
            # CPython: expovariate(0) raises ZeroDivisionError; negative rates give negative numbers
            run.oblige('safety', 'expovariate-rate-positive', lineno, r > 0)
            x = fresh('exp', R)
            run.assume(x >= 0)
            run.site('random.expovariate', lineno, rate=r, value=x)
            return x
        if name == 'random.choice':
            seq = args[0]
            if not isinstance(seq, SList):
                raise Unsupported('random.choice of %r' % (seq,))
            run.oblige('safety', 'choice-nonempty', lineno, seq.n > 0)
            i = fresh('ci', I)
            run.assume(And(0 <= i, i < seq.n))
            run.site('random.choice', lineno, seq=seq, index=i)
            v = seq.a[i]
            if isinstance(seq.esort, TupleSpec):
                return seq.esort.unpack(v)
            return v
        if name == 'random.sample':
            pop, k = args[0], args[1]
            if not isinstance(pop, SList):
                raise Unsupported('random.sample of %r' % (pop,))
            run.oblige('safety', 'sample-size-in-range', lineno, And(0 <= k, k <= pop.n))
            res = SList(pop.esort, n=k, a=fresh('smp_a', z3.ArraySort(I, pop.a.sort().range())), name='sample')
            src = z3.Function('smp_src!%d' % next(so._counter), I, I)
            run.assume(so.forall_idx(k, lambda j: And(0 <= src(j), src(j) < pop.n, res.a[j] == pop.a[src(j)])))
            run.assume(so.forall_idx(k, lambda j: so.forall_idx(k, lambda j2: Implies(j != j2, src(j) != src(j2)))))
            res.sample_src = src
            res.sample_pop = pop
            if getattr(pop, 'posf', None) is not None and not isinstance(pop.esort, TupleSpec):
                E = pop.esort
                posf = z3.Function('smp_pos!%d' % next(so._counter), E, I)
                memf = z3.Function('smp_mem!%d' % next(so._counter), E, B)
                res.posf = lambda x: posf(x)
                res.memberf = lambda x: memf(x)
                run.assume(so.forall_idx(k, lambda j: And(memf(res.a[j]), posf(res.a[j]) == j)))
                run.assume(so.forall(E, lambda x: Implies(memf(x), And(0 <= posf(x), posf(x) < k, res.a[posf(x)] == x, pop.memberf(x)))))
            if so.Mode.finite:
                run.assume(k <= so.Mode.lmax)
            run.site('random.sample', lineno, pop=pop, k=k, result=res)
            return res
        if name in ('np.random.binomial', 'numpy.random.binomial'):
            n, p = args[0], args[1]
            m = fresh('bin', I)
            run.assume(And(0 <= m, m <= n))
            run.assume(Implies(p <= 0, m == 0))
            run.assume(Implies(p >= 1, m == n))
            run.site('np.random.binomial', lineno, n=n, p=p, value=m)
            return m
        if name in ('np.array', 'numpy.array'):
            v = args[0]
            if isinstance(v, SList):
                return v.snap()
            if isinstance(v, (_EmptyList, _PyList, tuple)):
                return v
            raise Unsupported('np.array(%r)' % (v,))
        if name in ('np.exp', 'numpy.exp', 'math.exp'):
            x = args[0]
            f = z3.Function('exp', R, R)
            x = z3.ToReal(x) if z3.is_int(x) else x
            y = f(x)
            run.assume(y > 0)
            run.assume(Implies(x <= 0, y <= 1))
            run.assume(Implies(x == 0, y == 1))
            run.assume(Implies(x < 0, y < 1))
            return y
        if name in ('nx.DiGraph', 'nx.Graph', 'networkx.DiGraph', 'networkx.Graph') and not args:
            directed = name.endswith('DiGraph')
            u = Untyped('DiGraph' if directed else 'Graph')
            u.default_factory = lambda: SGraphB(directed, name='H', nodes=z3.K(so.U(), BoolVal(False)), adj=z3.K(so.Pair(), BoolVal(False)))
            return u
        if name in ('nx.descendants', 'nx.ancestors'):
            H, node = args[0], coerce(args[1], so.U())
            if isinstance(H, SGraphB):
                run.oblige('safety', 'node-in-graph', lineno, H.nodes[node])
            elif not isinstance(H, SGraph):
                raise Unsupported('%s of %r' % (name, H))
            dom = fresh('reachset', z3.ArraySort(so.U(), B))
            if name == 'nx.descendants':
                run.assume(so.forall(so.U(), lambda x: dom[x] == And(x != node, H.reach(node, x))))
            else:
                run.assume(so.forall(so.U(), lambda x: dom[x] == And(x != node, H.reach(x, node))))
            return SSet(so.U(), dom=dom, name='reachset')
        if name == 'nx.strongly_connected_components':
            return ('scc', args[0])
        if name == 'nx.connected_components':
            return ('cc', args[0])
        if name == 'heapq.heappush':
            raise Unsupported('heapq outside the myQueue contract')
        if name == 'EoN.EoNError':
            return PyConst(('exc', 'EoNError'))
        if name.startswith('EoN.'):
            q = name[4:]
            if run.registry.has(q):
                return run.call_contract(q, args, kw, lineno)
        raise Unsupported('library call %s at line %d' % (name, lineno))

    # ----------------------------------------------------------------------------------------------
    def method(self, run, recv, attr, args, kw, lineno):
        h = self.extra_method.get((type(recv).__name__, attr))
        if h is not None:
            return h(run, recv, args, kw, lineno)
        if isinstance(recv, SGraph):
            return self.graph_method(run, recv, attr, args, kw, lineno)
        if isinstance(recv, SGraphB):
            return self.graphb_method(run, recv, attr, args, kw, lineno)
        if isinstance(recv, Untyped) and recv.what == 'set':
            if attr == 'union' and len(args) == 1 and isinstance(args[0], SSet):
                return args[0].snap()
            raise Unsupported('method %s on an empty set() at line %d' % (attr, lineno))
        if isinstance(recv, tuple) and recv and isinstance(recv[0], str) and recv[0] == 'gnodes' and attr == '__call__':
            return recv
        if isinstance(recv, SList):
            if attr == 'append':
                recv.a = z3.Store(recv.a, recv.n, run.pack(args[0], recv.esort))
                recv.n = recv.n + 1
                if so.Mode.finite:
                    run.assume(recv.n <= so.Mode.lmax)
                return NONE
            if attr == 'pop':
                if not args:
                    run.oblige('safety', 'pop-nonempty', lineno, recv.n > 0)
                    v = recv.a[recv.n - 1]
                    recv.n = recv.n - 1
                    return self.unwrap(recv, v)
                a0 = z3.simplify(args[0])
                if z3.is_int_value(a0) and a0.as_long() == 0:
                    run.oblige('safety', 'pop-nonempty', lineno, recv.n > 0)
                    v = recv.a[IntVal(0)]
                    recv.a = z3.Lambda([_i()], recv.a[_i() + 1])
                    recv.n = recv.n - 1
                    return self.unwrap(recv, v)
                raise Unsupported('list.pop(i)')
            if attr == 'copy':
                return recv.snap()
            if attr == 'dot':
                raise Unsupported('numpy dot')
            raise Unsupported('list method %s' % attr)
        if isinstance(recv, _EmptyList):
            if attr == 'append' and len(args) == 1:
                # the untyped [] takes its element type from the first element appended (object identity is kept)
                x = args[0]
                if z3.is_expr(x):
                    recv.__class__ = SList
                    SList.__init__(recv, x.sort(), n=IntVal(1), a=z3.Store(fresh('lit_a', z3.ArraySort(I, x.sort())), IntVal(0), x), name='lit')
                else:
                    recv.__class__ = _PyList
                    recv.items = [x]
                return NONE
            raise Unsupported('method %s on an untyped list literal at line %d (declare it in the contract locals)' % (attr, lineno))
        if isinstance(recv, _PyList):
            if attr == 'append' and len(args) == 1:
                recv.items.append(args[0])
                return NONE
            raise Unsupported('method %s on a python-level list at line %d' % (attr, lineno))
        if isinstance(recv, SDictOfLists):
            if attr == 'items':
                return ('items', recv)
            if attr == 'keys':
                return ('keys', recv)
            raise Unsupported('dict-of-lists method %s' % attr)
        if isinstance(recv, SDict):
            if attr == 'pop' and len(args) == 1:
                return run.dict_pop(recv, args[0], lineno)
            if attr == 'get':
                k = coerce(args[0], recv.ksort)
                d = args[1] if len(args) > 1 else NONE
                if d is NONE:
                    raise Unsupported('dict.get without default')
                return If(recv.dom[k], recv.val[k], coerce(d, recv.vsort))
            if attr == 'items':
                return ('items', recv)
            if attr == 'keys':
                return ('keys', recv)
            if attr == 'values':
                return ('values', recv)
            if attr == 'copy':
                return recv.snap()
            raise Unsupported('dict method %s' % attr)
        if isinstance(recv, SSet):
            if attr == 'add':
                recv.dom = z3.Store(recv.dom, coerce(args[0], recv.ksort), BoolVal(True))
                return NONE
            if attr == 'remove':
                k = coerce(args[0], recv.ksort)
                run.oblige('safety', 'key-present', lineno, recv.dom[k])
                recv.dom = z3.Store(recv.dom, k, BoolVal(False))
                return NONE
            if attr == 'discard':
                recv.dom = z3.Store(recv.dom, coerce(args[0], recv.ksort), BoolVal(False))
                return NONE
            if attr in ('union', 'intersection'):
                o = args[0]
                if isinstance(o, SSet):
                    dom = fresh('setop', z3.ArraySort(recv.ksort, B))
                    f = (lambda k: Or(recv.dom[k], o.dom[k])) if attr == 'union' else (lambda k: And(recv.dom[k], o.dom[k]))
                    run.assume(so.forall(recv.ksort, lambda k: dom[k] == f(k)))
                    return SSet(recv.ksort, dom=dom, name='setop')
            raise Unsupported('set method %s' % attr)
        raise Unsupported('method %s on %r at line %d' % (attr, recv, lineno))

    def graphb_method(self, run, H, attr, args, kw, lineno):
        U = so.U()
        if attr == 'add_nodes_from':
            v = args[0]
            if isinstance(v, tuple) and v and isinstance(v[0], str) and v[0] == 'gnodes':
                H.nodes = z3.K(U, BoolVal(True))       # every value of the node sort is a node of G
                return NONE
            raise Unsupported('add_nodes_from(%r)' % (v,))
        if attr == 'add_node':
            u = coerce(args[0], U)
            H.nodes = z3.Store(H.nodes, u, BoolVal(True))
            for k, val in kw.items():
                if not z3.is_expr(val):
                    raise Unsupported('node attribute value %r' % (val,))
                arr = H.nattr.get(k)
                if arr is None:
                    arr = fresh(H.name + '_na_' + k, z3.ArraySort(U, val.sort()))
                H.nattr[k] = z3.Store(arr, u, val)
            return NONE
        if attr == 'add_edge':
            if len(args) == 1 and z3.is_expr(args[0]) and args[0].sort() == so.Pair():
                u, v = so.Pair().fst(args[0]), so.Pair().snd(args[0])
            else:
                u, v = coerce(args[0], U), coerce(args[1], U)
            H.nodes = z3.Store(z3.Store(H.nodes, u, BoolVal(True)), v, BoolVal(True))
            H.adj = z3.Store(H.adj, so.mkpair(u, v), BoolVal(True))
            if not H.directed:
                H.adj = z3.Store(H.adj, so.mkpair(v, u), BoolVal(True))
            for k, val in kw.items():
                if not z3.is_expr(val):
                    raise Unsupported('edge attribute value %r' % (val,))
                arr = H.eattr.get(k)
                if arr is None:
                    arr = fresh(H.name + '_ea_' + k, z3.ArraySort(so.Pair(), val.sort()))
                arr = z3.Store(arr, so.mkpair(u, v), val)
                if not H.directed:
                    arr = z3.Store(arr, so.mkpair(v, u), val)
                H.eattr[k] = arr
            return NONE
        if attr == 'remove_node':
            x = coerce(args[0], U)
            run.oblige('safety', 'node-in-graph', lineno, H.nodes[x])
            H.nodes = z3.Store(H.nodes, x, BoolVal(False))
            old = H.adj
            new = fresh(H.name + '_adj', old.sort())
            run.assume(so.forall2(U, U, lambda a, b: new[so.mkpair(a, b)] == And(old[so.mkpair(a, b)], a != x, b != x)))
            H.adj = new
            return NONE
        if attr == 'has_node':
            v = args[0]
            return H.nodes[v] if (z3.is_expr(v) and v.sort() == U) else BoolVal(False)
        if attr == 'has_edge':
            return H.adj[so.mkpair(coerce(args[0], U), coerce(args[1], U))]
        if attr in ('order', 'number_of_nodes'):
            return H.order()
        raise Unsupported('graph-builder method %s at line %d' % (attr, lineno))

    def unwrap(self, lst, v):
        if isinstance(lst.esort, TupleSpec):
            return lst.esort.unpack(v)
        return v

    def graph_method(self, run, G, attr, args, kw, lineno):
        if attr in ('neighbors', 'successors'):
            return G.nbrs(coerce(args[0], so.U()))
        if attr == 'predecessors':
            return G.preds(coerce(args[0], so.U()))
        if attr in ('order', 'number_of_nodes', '__len__'):
            return G.N
        if attr == 'nodes':
            return ('gnodes', G)
        if attr == 'has_node':
            v = args[0]
            # networkx: `n in self._node`, TypeError (unhashable) -> False
            return BoolVal(z3.is_expr(v) and v.sort() == so.U())
        if attr == 'has_edge':
            return G.adj(coerce(args[0], so.U()), coerce(args[1], so.U()))
        if attr == 'is_directed':
            return BoolVal(G.directed)
        if attr == 'degree' and len(args) == 1:
            return G.degf(coerce(args[0], so.U()))
        if attr == 'degree' and not args:
            return ('gdegree', G)
        if attr == 'edges' and not args:
            l = G.edge_list()
            for ax in G._edge_axioms:
                run.assume(ax)
            return l
        raise Unsupported('graph method %s at line %d' % (attr, lineno))
