"""C03 - Gillespie_simple_contagion samples the Markov chain specified by its two transition graphs.  Bounded native
stand-in (labelled bounded) under a scripted random source + E2 flow obligations on the real function."""
from ..common import Report
from . import util


def run(tier, seed):
    rep = Report('C03', tier, seed)
    from ..replay import sim_native
    rep.add(util.native_ob('native:simple-contagion-rates-and-selection', 'EoN/simulation.py:Gillespie_simple_contagion', sim_native.c03_native,
                           '9 model specifications (SIS, weighted recurrent SIS, SIRS with rate functions, weighted SIR, SIRS, SEIR, two competing diseases, a same-status pair rule, asymmetric rate functions) x directed and undirected '
                           '5-node graphs x 6 random initial conditions; scripted random source: (a) at EVERY step the waiting time is drawn with the sum of the rates of all '
                           'enabled transitions of the current statuses (recomputed from the specification), exactly one node changes and the change is an enabled transition; '
                           '(b) over a grid of 400 values of the selecting uniform draw each transition type is chosen for a fraction of the draws equal to its rate share +- 2/400; '
                           '(c) the same scripted run asked for as plain arrays with a subset of the statuses, with tmin != 0, with a defaultdict initial condition (which must not gain keys) and '
                           'through the legacy wrapper Gillespie_Arbitrary gives the head counts of the full-data run'))
    rep.bounded_is_supplementary = False
    rep.level = 'other'
    rep.explanation = ('Bounded only: Gillespie_simple_contagion keeps its candidate sets in dictionaries keyed by transition (networkx edge tuples of the two specification graphs) '
                       'and updates them through nested closures; that is outside the subset of the VC generator.  The stand-in replaces the random module seen by the real function, '
                       'so the rate handed to expovariate and the selection rule are observed exactly (no statistics).')
    rep.assumptions += ['weights / rate functions > 0; rates >= 0; statuses in return_statuses', 'M (cited): Gillespie direct method (as C01)',
                        'within a transition type the actor is chosen by _ListDict_.choose_random (weight-proportional: C16)']
    rep.not_covered += ['unbounded contracts for Gillespie_simple_contagion', 'graphs with more than 5 nodes; MultiGraphs']
    return rep, util.native_replayer
