"""C11 - event-driven SIR with arbitrary delays equals first-passage percolation.
Local semantic contracts L1-L3 of the real handlers and of the queue (unbounded); M: Dijkstra."""
from ..common import Report, Ob
from ..pyvc import verify as V
from ..contracts import handlers
from . import util


def reg():
    r = V.Registry()
    for c in handlers.contracts():
        r.add(c)
    r.lib_install.append(handlers.install)
    return r


def run(tier, seed):
    rep = Report('C11', tier, seed)
    rep.add_unit_results(util.run_jobs(util.jobs_for(reg, tier=tier)))
    rep.assumptions += [
        'M (cited): min-first processing of events under L1 (no lost relaxation), L2 (no spurious event), L3 (infect iff susceptible, at the event time, recovery = time + duration) infects v at tmin + shortest-path distance in the kept-edge digraph, infector = predecessor on such a path (Dijkstra)',
        'user delay/duration rules return values >= 0 (possibly infinite); heapq pops a minimal (time, counter) item',
    ]
    return rep, None
