"""C11 - event-driven SIR with arbitrary delays equals first-passage percolation.
Local semantic contracts L1-L3 of the real handlers and of the queue (unbounded); M: Dijkstra."""
from ..common import Report, Ob
from ..pyvc import verify as V
from ..contracts import handlers, percolation
from . import util


def reg_perc():
    r = V.Registry()
    for c in percolation.contracts():
        r.add(c)
    return r


def reg():
    r = V.Registry()
    for c in handlers.contracts():
        r.add(c)
    r.lib_install.append(handlers.install)
    return r


def run(tier, seed):
    rep = Report('C11', tier, seed)
    jobs = util.jobs_for(reg, tier=tier) + util.jobs_for(reg_perc, tier=tier, quals={
        'nonMarkov_directed_percolate_network_with_timing', 'nonMarkov_directed_percolate_network', '_out_component_'})
    rep.add_unit_results(util.run_jobs(jobs))
    rep.not_covered += ['directed_percolate_network / get_infected_nodes bodies (delegation binding only, see C17)',
                        'fast_nonMarkov_SIR main body and fast_SIR: see C01 / C04 (same contracts)']
    from ..replay import sim_native
    rep.bounded_is_supplementary = True
    rep.add(util.native_ob('native:first-passage-percolation-oracle', 'EoN/simulation.py:fast_nonMarkov_SIR / percolation builders / get_infected_nodes', sim_native.c11_native,
                           '120 random graphs <= 7 nodes with delays/durations in {0, .5, 1, 2, inf} (ties), string labels, initial recovered, tmin != 0, finite tmax: infection/recovery times vs Dijkstra, infectors, percolated digraph; get_infected_nodes at gamma=0 on 40 graphs'))
    rep.assumptions += [
        'M (cited): min-first processing of events under L1 (no lost relaxation), L2 (no spurious event), L3 (infect iff susceptible, at the event time, recovery = time + duration) infects v at tmin + shortest-path distance in the kept-edge digraph, infector = predecessor on such a path (Dijkstra)',
        'user delay/duration rules return values >= 0 (possibly infinite); heapq pops a minimal (time, counter) item',
    ]
    return rep, util.native_replayer
