"""C04 - trajectories are well-formed: conserved counts, ordered time, one event a step.
Row invariant (equal lengths, times[0]=tmin, non-decreasing, < tmax, counts >= 0 summing to N, consecutive rows
differ by one legal move) as loop invariant / global event-loop invariant of the simulators under contract."""
from ..common import Report, Ob
from . import C01, util


def run(tier, seed, prop='C04'):
    rep, r = C01.run(tier, seed, prop=prop, units=('Gillespie_SIR', 'Gillespie_SIS'), fast=True, sis=True)
    rep.explanation = ('The row invariant is part of the main-loop invariants of Gillespie_SIR / Gillespie_SIS and of the global invariant '
                       'of the event loops of fast_nonMarkov_SIR (hence fast_SIR) and fast_SIS: it is established at entry, preserved by every '
                       'iteration / event (queue rule), and implies the postcondition over the returned (trimmed) arrays, for all '
                       'graphs, rates, horizons, weights and initial sets. "ends with no infected node" is proved for the Gillespie '
                       'simulators (unbounded horizon, gamma>0).')
    # discrete-time simulators: rows t[j] = tmin + j <= tmax, counts >= 0 summing to N (S non-increasing, R non-decreasing for SIR)
    from . import C12
    # fast_nonMarkov_SIS: handler, queue-rule lemma (rows are part of the global invariant GI_NM) and the driver (rows, row 0, argument errors)
    from . import C13
    rep.add_unit_results(util.run_jobs(util.jobs_for(C12.reg, tier=tier, quals={'discrete_SIR', 'basic_discrete_SIS'})
                                       + util.jobs_for(C13.reg_nm, tier=tier, quals={'_process_trans_SIS_nonMarkov_', 'event_step_nmSIS', 'fast_nonMarkov_SIS'})))
    from ..replay import sim_native
    rep.bounded_is_supplementary = True
    rep.add(util.native_ob('native:rows-well-formed:all-simulators', 'EoN/simulation.py:(all simulators)', sim_native.c04_native,
                           'one 7-node graph with an isolated node, 3 (tmin, tmax) combinations, weighted / unweighted, rate 0, fixed delays tying with tmax, 4 seeds, every simulator incl. the discrete and generic ones'))
    r = util.native_replayer
    rep.not_covered += [
        'Gillespie_simple_contagion: row invariant not under contract (only the bounded native stand-in); fast_nonMarkov_SIS: rows are part of the global invariant GI_NM (queue-rule lemma event_step_nmSIS) and of the driver\'s postcondition, verified here as in C13; discrete_SIR and basic_discrete_SIS: row invariants under contract in C12; Gillespie_complex_contagion: see C15',
        'fast_nonMarkov_SIR: "unbounded horizon ends with no infected node" needs "every infectious node has a pending recovery", which is not part of the proved global invariant',
        'termination',
    ]
    return rep, r
