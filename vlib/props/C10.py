"""C10 - full-data object and plain time series describe the same epidemic."""
from ..common import Report, Ob
from ..pyvc import verify as V
from ..contracts import investigation
from ..effects import binding
from . import util


def reg():
    r = V.Registry()
    for c in investigation.contracts():
        r.add(c)
    return r


def run(tier, seed):
    rep = Report('C10', tier, seed)
    from . import C09
    # Gillespie_SIR with return_full_data=True: the recorded infection / recovery times agree with the statuses and rows of the run, and the
    # histories handed to the object are the ones _transform_to_node_history_ builds from them
    rep.add_unit_results(util.run_jobs(util.jobs_for(reg, tier=tier) + C09.gfull_jobs(tier)))
    for ob in binding.ctor_obligations():
        rep.add(ob)
    from ..replay import investigation_native as N
    rep.add(util.native_ob('native:summary-node_status-get_statuses-vs-brute-force', 'EoN/simulation_investigation.py:Simulation_Investigation.summary / node_status / get_statuses / t / S / I / R',
                           N.check_investigation_class,
                           '3 nodes, histories with <= 2 changes over change times {0,1,2} (ties) and statuses S/I/R, 4000 assignments, node subsets, 6 query times'))
    rep.add(util.native_ob('native:both-return-modes-agree', 'EoN/simulation.py:(all simulators)', N.check_modes_agree,
                           '10 simulator configurations x 3 seeds on a 7-node graph: summary(histories) == plain arrays; histories start at tmin, ordered, legal moves; transmissions valid and complete; SIR forest'))
    rep.level = 'other'
    rep.explanation = ('Unbounded: _transform_to_node_history_ (SIR branch) builds, for every node, exactly [tmin:S unless the first event is at tmin] + (t_inf, I) + (t_rec, R) '
                       '(initially recovered: [(tmin, R)]), which starts at tmin, is time-ordered and makes legal moves whenever tmin <= t_inf <= t_rec; every simulator hands '
                       'node_history / transmissions to the Simulation_Investigation constructor under the right parameter; for Gillespie_SIR (return_full_data=True) the loop invariant '
                       'links the recorded times to the trajectory: status S <=> no recorded time, I <=> infection time only, R <=> recovery time, tmin <= infection <= recovery <= now, and the histories '
                       'handed over are built from exactly these; for Gillespie_SIS (return_full_data=True) the per-node lists of infection / recovery times alternate, lie in [tmin, now], agree with the status, '
                       'and exactly these lists are handed to the history builder. Bounded (labelled): summary / node_status / '
                       'get_statuses / t,S,I,R against brute-force head counts on exhaustive short histories; for every simulator and 3 seeds the summary of the full-data '
                       'object equals the plain arrays.')
    rep.assumptions += ['ASSUMED callee (not verified): the SIS branch of _transform_to_node_history_ is an opaque call in the Gillespie_SIS full-data unit (a contract for it was written but its inner pop(0) loop did not discharge; DESIGN 9.11)',
                        'M: "summary(histories) == arrays" in general is the composition of the handler contracts (one row per recorded change) with the proved transform; only checked natively here',
                        'the SIS branch of _transform_to_node_history_ (pop(0) loops) and summary() are decided only by the bounded native stand-ins']
    return rep, util.native_replayer
