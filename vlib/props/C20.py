"""C20 - time-series and degree-distribution helpers have exact step/moment semantics.
subsample, get_time_shift, get_Pk, estimate_R0: E1 (unbounded).  PGF helpers: term-wise AST obligations
(unbounded in maxk).  get_Pnk: bounded native stand-in (all graphs <= 5 nodes), labelled bounded."""
import time
from ..common import Report, Ob
from ..pyvc import verify as V
from ..contracts import auxiliary, analytic_helpers
from ..effects import pgf
from . import util


def reg():
    r = V.Registry()
    for c in auxiliary.contracts() + analytic_helpers.contracts():
        r.add(c)
    return r


def run(tier, seed):
    rep = Report('C20', tier, seed)
    rep.add_unit_results(util.run_jobs(util.jobs_for(reg, tier=tier)))
    for ob in pgf.obligations():
        rep.add(ob)
    from ..replay import native_small
    t = time.time()
    nmax = 5 if tier == 'quick' else 6
    n, bad = native_small.check_pnk(nmax)
    rep.add(Ob('bounded:get_Pnk:rows-sum-to-1-and-match-neighbour-degree-histogram', 'EoN/analytic.py:get_Pnk', 'post',
               'bounded-ok' if bad is None else 'bounded-refuted', backend='native exhaustive enumeration (CPython)',
               seconds=round(time.time() - t, 2), bounded='all labelled graphs with <= %d nodes (%d graphs)' % (nmax, n),
               witness=bad, replayed=True if bad else None, engine='E5-bounded',
               detail='' if bad is None else str(bad)))
    from ..replay import sim_native, aux_native
    rep.add(util.native_ob('native:degree-helpers-incl-self-loops-and-multigraphs', 'EoN/analytic.py:get_Pk / PGF helpers / estimate_R0', sim_native.c20_native,
                           '5 graphs incl. self-loops and a MultiGraph: Pk vs the degree sequence, moments, estimate_R0'))
    class _O:            # the exhaustive native search for subsample / get_time_shift as a bounded obligation
        id = 'subsample'
    def _sub():
        r = aux_native.replayer(type('o', (), dict(id='subsample'))())
        r2 = aux_native.replayer(type('o', (), dict(id='get_time_shift'))())
        bad = r if r.get('failure_exhibited') else (r2 if r2.get('failure_exhibited') else None)
        return (r.get('tried', 0) or 0), (dict(observed=str(bad.get('observed')), input=bad.get('input'), expected=bad.get('expected')) if bad else None)
    rep.add(util.native_ob('native:subsample-and-time-shift-exhaustive', 'EoN/auxiliary.py:subsample / get_time_shift', _sub,
                           'all non-decreasing times / report_times over {0,1,2} of length <= 3 (ties included), 1/2/3 series'))
    rep.level = 'other'
    rep.explanation = ('subsample (1/2/3 series, incl. the recursive calls against its own contract), get_time_shift, get_Pk and '
                       'estimate_R0 are verified for all inputs by VC generation from their real source + z3 (lists of any length, '
                       'graphs of any order); the generating-function helpers by term-wise obligations for a symbolic integer k '
                       '(any maxk); get_Pnk only by a bounded native stand-in (labelled bounded, not counted as proved).')
    rep.assumptions += [
        'subsample: times and report_times non-decreasing, series as long as times (property: "ordered report times")',
        'numpy contracts: np.array(list) copies; np.linspace(0,m,m+1)=[0..m]; a.dot(b)=sum a[k]b[k]; elementwise ** and *',
        'get_Pk: "sums to 1" follows from the proved histogram clause by sum_k #{deg=k} = N (cited, not machine-checked)',
        'estimate_R0: the graph has at least one edge (otherwise <k>=0 and numpy yields nan); tau+gamma>0; psi\'(1), psi\'\'(1) are the moments (from the PGF obligations)',
        'get_Pnk decided only up to the stated bound',
    ]
    rep.trusted.append('contracts assumed, not verified here: ' + '; '.join(util.trusted_contracts(reg)))

    def replayer(ob):
        if ob.id.startswith('pgf:'):
            return pgf.native_replay(ob)
        if (ob.id.startswith('bounded:') or ob.id.startswith('native:')) and ob.witness:
            return dict(failure_exhibited=True, how='native run of the real code against an independent oracle', input=ob.witness)
        from ..replay import aux_native
        return aux_native.replayer(ob)
    return rep, replayer
