"""C18 - simulations are reproducible from the random seeds (E2 analyses + bounded native cross-process stand-in)."""
import time
from ..common import Report, Ob
from ..effects import determinism


def run(tier, seed):
    rep = Report('C18', tier, seed)
    for ob in determinism.obligations():
        rep.add(ob)
    # state that survives a call (module-level tables, memoising decorators keyed by object identity) in the modules the simulators live in
    from .C19 import module_level_state
    from ..pyvc.verify import Source
    for rel in ('EoN/simulation.py', 'EoN/__init__.py'):
        try:
            src, tree = Source.get(rel)
        except Exception:
            continue
        bad = module_level_state(tree)
        rep.add(Ob('no-module-level-state:%s' % rel, '%s:(module)' % rel, 'determinism', 'refuted' if bad else 'discharged',
                   'scan of the AST for writes into module-level objects / memoising decorators (all inputs)', 0.0, detail='; '.join(bad[:5]),
                   site=rel, witness=dict(sites=bad[:10]) if bad else None, engine='E2',
                   replay_note='no function writes into a module-level object or is memoised' if not bad else 'state that survives a call'))
    from ..replay import determinism_native
    t = time.time()
    hs = (0, 1, 2) if tier == 'quick' else (0, 1, 2, 3, 4, 5, 6, 7)
    res = determinism_native.run(hs)
    rep.add(Ob('bounded:cross-process-identical-output', 'EoN/simulation.py:(continuous-time simulators)', 'determinism',
               'bounded-ok' if not res.get('problem') else 'bounded-refuted', backend='native runs in separate interpreters (CPython)',
               seconds=round(time.time() - t, 2),
               bounded='one 7-node graph with string node names, fixed seeds, PYTHONHASHSEED in %s, 10 simulator configurations, both return modes, 2 repetitions' % (list(hs),),
               witness=res if res.get('problem') else None, detail=res.get('problem') or '', engine='E5-bounded', replayed=True if res.get('problem') else None))
    rep.functions.append(dict(file='EoN/simulation.py', qualname='(all functions and methods of the module)', analyses=['nondet-sources', 'no-global-state', 'no-mutable-default-state', 'flag-noninterference', 'no-set-iteration']))
    rep.level = 'other'
    rep.explanation = ('Decided for all inputs by flow analyses over the real AST: randomness comes only from random / np.random and is never '
                       're-seeded; no global, nonlocal or module-level mutable state (so repeated calls are identical); in the continuous-time '
                       'simulators and everything they reach no draw is control-dependent on return_full_data and no loop with an '
                       'order-sensitive effect iterates a set (hash-seed independence). A bounded native cross-process run is added as a '
                       'stand-in for what the analyses assume about the libraries.')
    rep.assumptions += ['networkx / numpy / dict iteration orders are insertion orders independent of the hash seed',
                        'user call-backs are deterministic functions of their arguments and of the seeded generators and do not return sets',
                        'the discrete-time simulators are excluded from the flag clause by the property statement (their draws depend on the flag)']
    rep.trusted = ['the flow analyses in vlib/effects/determinism.py', 'CPython semantics of random / numpy.random seeding']

    def replayer(ob):
        r = determinism_native.run((0, 1, 2))
        return dict(failure_exhibited=bool(r.get('problem')), how='native cross-process run', observed=r.get('problem'))
    return rep, replayer
