"""C08 - ODE models are exact where theory says so: limits, final sizes, exactness on small trees (all bounded stand-ins)."""
from ..common import Report, Ob
from ..symnum import c07


def run(tier, seed):
    rep = Report('C08', tier, seed)
    c07.NOT_COVERED.clear()
    for ob in c07.c08_obligations(tier):
        rep.add(ob)
    from ..symnum import odeint_body
    for ob in odeint_body.obligations():      # SIS_pair_based / SIS_heterogeneous_pairwise (tau=0, gamma=0 limits) integrate through _my_odeint_
        rep.add(ob)
    from ..replay import tree_exact_native
    from . import util
    rep.add(util.native_ob('native:pair-based-exact-on-trees', 'EoN/analytic.py:SIR_pair_based_pure_IC / _dSIR_pair_based_', lambda: tree_exact_native.check(tier),
                           'trees %s; every single seed, one double seed, one seed next to an initially recovered node; no weights / edge weights / node weights / both; tmin=0.5, 4 time points; '
                           'expected S, I, R from the 3^N-state master equation (matrix exponential), tolerance 2e-4' % [t for t, _ in tree_exact_native.trees(tier)]))
    rep.level = 'other'
    rep.functions.append(dict(file='EoN/analytic.py', qualname='all SIS_/SIR_/EBCM *_from_graph ODE wrappers (tau=0, gamma=0), EBCM_discrete, Attack_rate_cts_time, Attack_rate_discrete'))
    rep.explanation = ('tau=0: the exact Lie derivatives of the real right-hand sides give I\'=-gamma I, I\'\'=gamma^2 I (and S\'=S\'\'=0 for SIR models; '
                       'S\'=gamma I for SIS models, the only reading consistent with S+I=N, see DESIGN) at tmin for symbolic gamma, rho; gamma=0: '
                       'the SIS and SIR versions of each model have the same Lie derivatives of S up to order 3; EBCM_discrete satisfies R(t+1)=R(t)+I(t) '
                       'exactly for symbolic p, rho; the attack rates agree numerically with the long-time limit of EBCM / EBCM_discrete. '
                       'All bounded and labelled so.')
    rep.assumptions += ['M (cited): solution of the linear ODE; existence of the limits and convergence of the fixed-point iterations']
    rep.not_covered += ['exactness of SIR_pair_based on trees beyond the bounded comparison (trees <= 6 nodes): a theorem about the closure; no function contract expresses it']
    rep.not_covered += list(dict.fromkeys(c07.NOT_COVERED))
    rep.trusted = ['sympy', 'vlib/symnum/harness.py', 'scipy odeint for the numeric final-size comparison']
    return rep, (lambda ob: dict(failure_exhibited=True, how='computed from the real code', input=ob.witness) if ob.witness else None)
