"""C05 - requested initial conditions are what the simulation starts from.
Normalisation prefixes (single node / collection / rho), row 0 of the returned arrays, EoNError when both rho and
initial_infecteds are given (is-not-None semantics), initially recovered nodes stay recovered, wrapper forwarding."""
from ..common import Report, Ob
from . import C01, util
from ..effects import binding


def run(tier, seed):
    rep, r = C01.run(tier, seed, prop='C05', units=('Gillespie_SIR', 'Gillespie_SIS'), fast=True, sis=True)
    # the discrete-time simulators: row 0 = the request for every spelling of the initial condition, random.sample site, EoNError clause
    from . import C12
    # fast_nonMarkov_SIS: handler, queue-rule lemma (rows are part of the global invariant GI_NM) and the driver (rows, row 0, argument errors)
    from . import C13
    rep.add_unit_results(util.run_jobs(util.jobs_for(C12.reg, tier=tier, quals={'discrete_SIR', 'basic_discrete_SIS'})
                                       + util.jobs_for(C13.reg_nm, tier=tier, quals={'_process_trans_SIS_nonMarkov_', 'event_step_nmSIS', 'fast_nonMarkov_SIS'})))
    for ob in binding.obligations(only=('simulation',)):
        rep.add(ob)
    rep.explanation = ('Row 0 = (N-k-r0, k, r0) with k = len(initial_infecteds) | 1 (a node) | int(round(N*rho)) (site obligation on '
                       'random.sample: that many distinct nodes of G) and "initially recovered stay recovered" are part of the proved '
                       'invariants/postconditions of Gillespie_SIR, Gillespie_SIS, fast_nonMarkov_SIR, fast_SIR, fast_SIS, fast_nonMarkov_SIS, discrete_SIR, basic_discrete_SIS (plain arrays); raising EoNError exactly '
                       'when both rho and initial_infecteds are given is a must_raise clause; wrapper forwarding by the delegation-binding analysis.')
    from ..replay import sim_native
    rep.bounded_is_supplementary = True
    rep.add(util.native_ob('native:initial-condition:all-simulators-and-spellings', 'EoN/simulation.py:(all SIR/SIS simulators and wrappers)', sim_native.c05_native,
                           'one 7-node graph; list/tuple/set/range/array/single node; with and without initial_recovereds; rho in {0,.3,.5,1}; rho+initial_infecteds incl. falsy values; tmin != 0'))
    r = util.native_replayer
    rep.not_covered += ['the per-node statuses at tmin of the discrete-time simulators (full-data path)',
                        'get_statuses(time=tmin) (see C10)']
    return rep, r
