"""C05 - requested initial conditions are what the simulation starts from.
Normalisation prefixes (single node / collection / rho), row 0 of the returned arrays, EoNError when both rho and
initial_infecteds are given (is-not-None semantics), initially recovered nodes stay recovered, wrapper forwarding."""
from ..common import Report, Ob
from . import C01, util
from ..effects import binding


def run(tier, seed):
    rep, r = C01.run(tier, seed, prop='C05', units=('Gillespie_SIR', 'Gillespie_SIS'), fast=True)
    for ob in binding.obligations(only=('simulation',)):
        rep.add(ob)
    rep.explanation = ('Row 0 = (N-k-r0, k, r0) with k = len(initial_infecteds) | 1 (a node) | int(round(N*rho)) (site obligation on '
                       'random.sample: that many distinct nodes of G) and "initially recovered stay recovered" are part of the proved '
                       'invariants/postconditions of Gillespie_SIR, Gillespie_SIS, fast_nonMarkov_SIR, fast_SIR; raising EoNError exactly '
                       'when both rho and initial_infecteds are given is a must_raise clause; wrapper forwarding by the delegation-binding analysis.')
    rep.not_covered += ['fast_SIS, fast_nonMarkov_SIS, discrete_SIR, basic_discrete_SIS prefixes (binding only)',
                        'get_statuses(time=tmin) (see C10)']
    return rep, r
