"""C01 - Markovian SIR simulators sample the exact network SIR process.
Deciding obligations (unbounded): the view/rate loop invariants of Gillespie_SIR for every reachable state of
every graph, the draw-site obligations (Exp(total rate); branch probability recovery/total; actor through the
_ListDict_ contracts), weighted and unweighted code paths, all ways of passing the initial condition.
M (cited): Gillespie's direct method."""
from ..common import Report, Ob
from ..pyvc import verify as V
from ..contracts import gillespie
from . import util

UNITS = ['Gillespie_SIR']


def reg():
    r = V.Registry()
    for c in gillespie.contracts():
        r.add(c)
    return r


def quick_filter(jobs, tier):
    if tier != 'quick':
        return jobs
    keep = ('list-unweighted', 'list-weighted', 'rho-unweighted', 'node-unweighted', 'both-given', 'default-unweighted')
    return [j for j in jobs if j[0][1] in keep]


def run(tier, seed, prop='C01', units=UNITS):
    rep = Report(prop, tier, seed)
    jobs = quick_filter(util.jobs_for(reg, quals=set(units), tier=tier), tier)
    rep.add_unit_results(util.run_jobs(jobs))
    rep.assumptions += [
        'M (cited, not machine-checked): a loop that in every state waits Exp(L) with L the total rate and then performs event e with probability rate_e/L samples the continuous-time Markov chain with those rates (Gillespie direct method); final-size and state-at-time-T laws are functionals of that chain',
        'edge / node weights are > 0 (the code comments "presume all weights positive"); tau, gamma >= 0; tmin < tmax',
        'initial infected nodes are distinct, initially recovered nodes distinct and disjoint from them; rho is not combined with initial_recovereds',
        'every value of the node sort is a node of G (population = |U|); G.neighbors enumerates each neighbour once',
        'callee contracts of _ListDict_ are those verified under C16',
        'termination not proved',
    ]
    rep.explanation = ('Loop invariants "infecteds = {u -> w_u | status u = I}", "IS_links = {(u,v) -> w_uv | adj, I, S}", '
                       '"rates = gamma*sum, tau*sum" are established by the initialisation loops and preserved by both branches of the '
                       'main loop (neighbour loops carry prefix forms), for graphs of any order; hence in EVERY reachable state the '
                       'argument of expovariate is the total rate of the chain and the branch threshold is recovery/total.')
    return rep, None
