"""C01 - Markovian SIR simulators sample the exact network SIR process.
Gillespie_SIR: view/rate loop invariants for every reachable state of every graph + draw-site obligations
(Exp(total rate); branch probability recovery/total; actor through the _ListDict_ contracts).
fast_SIR: delegation-site obligations (delay rules draw Exp(tau*w_uv), Exp(gamma*w_u), infinite for rate 0;
fast path = binomial thinning + truncated exponential), the event handlers' contracts, the queue rule.
M (cited): Gillespie's direct method; thinning; Sellke/percolation representation + Dijkstra (C11)."""
from ..common import Report, Ob
from ..pyvc import verify as V
from ..contracts import gillespie, fast_sir, fast_sis
from . import util


def reg():
    r = V.Registry()
    for c in gillespie.contracts():
        r.add(c)
    return r


def reg_fast():
    r = V.Registry()
    for c in fast_sir.contracts():
        r.add(c)
    r.lib_install.append(fast_sir.install)
    return r


def reg_fast_sis():
    r = V.Registry()
    for c in fast_sis.contracts(verify_callees=True):
        r.add(c)
    r.lib_install.append(fast_sis.install)
    return r


def quick_filter(jobs, tier):
    if tier != 'quick':
        return jobs
    keep = ('list-unweighted', 'list-weighted', 'rho-unweighted', 'node-unweighted', 'both-given', 'default-unweighted')
    return [j for j in jobs if j[0][1] in keep]


ASSUME = [
    'M (cited, not machine-checked): a loop that in every state waits Exp(L) with L the total rate and then performs event e with probability rate_e/L samples the continuous-time Markov chain with those rates (Gillespie direct method); final-size and state-at-time-T laws are functionals of that chain',
    'edge / node weights are > 0 (the code comments "presume all weights positive"); tau, gamma >= 0; tmin < tmax',
    'initial infected nodes are distinct, initially recovered nodes distinct and disjoint from them; rho is not combined with initial_recovereds',
    'every value of the node sort is a node of G (population = |U|); G.neighbors enumerates each neighbour once',
    'callee contracts of _ListDict_ are those verified under C16',
    'termination not proved',
]


def run(tier, seed, prop='C01', units=('Gillespie_SIR',), fast=True, sis=False):
    rep = Report(prop, tier, seed)
    jobs = quick_filter(util.jobs_for(reg, quals=set(units), tier=tier), tier)
    if fast:
        jobs += util.jobs_for(reg_fast, tier=tier)
    if sis:
        jobs += util.jobs_for(reg_fast_sis, tier=tier)
    rep.add_unit_results(util.run_jobs(jobs))
    if prop in ('C01', 'C02') and any(u.startswith('Gillespie') for u in units):
        util.listdict_dependency(rep, tier)
    rep.assumptions += ASSUME
    if fast:
        rep.assumptions += [
            'M (cited): binomial number of recipients + uniform sample + truncated exponential delays == i.i.d. Exp(tau) delays kept iff below the infectious duration; Sellke/percolation representation of the SIR chain; Dijkstra (see C11)',
            'queue rule: the loop `while Q: Q.pop_and_run()` is discharged by the lemma unit event_step_SIR (a step preserves the global invariant), glued by the verified pop_and_run contract and the event-binding obligations at every Q.add site',
            'assumed heapq contract: heappush adds an item, heappop removes a minimal (time, counter) item; model = append-only list + set of popped indices',
            'user / library delay rules return values >= 0; fast path requires tau > 0 and positive recovery rates',
        ]
    rep.explanation = ('Gillespie_SIR: loop invariants "infecteds = {u -> w_u | status u = I}", "IS_links = {(u,v) -> w_uv | adj, I, S}", '
                       '"rates = gamma*sum, tau*sum" are established by the initialisation loops and preserved by both branches of the '
                       'main loop (neighbour loops carry prefix forms), for graphs of any order; hence in EVERY reachable state the '
                       'argument of expovariate is the total rate of the chain and the branch threshold is recovery/total. '
                       'fast_SIR: what it hands to fast_nonMarkov_SIR is specified at the delegation site; handlers and the event loop by their contracts.')
    if prop == 'C01':
        from ..replay import sim_native
        rep.bounded_is_supplementary = True
        rep.add(util.native_ob('native:SIR-state-distribution-vs-master-equation', 'EoN/simulation.py:fast_SIR / Gillespie_SIR', sim_native.c01_native,
                               'fixed seeds, 6000 runs per configuration: 2 simulators x 5 rate / weight configurations (incl. the constant-rate fast path, gamma = 0) x 3 initial conditions '
                               '(one seed; a seed next to an initially recovered node, tmin = -3.5; two adjacent seeds) on a 4-node graph; distribution of the full state vector at tmin+1.6 against the '
                               '81-state master equation, 6 standard errors'))
        return rep, util.native_replayer
    return rep, None
