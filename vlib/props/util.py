"""helpers shared by the per-property drivers"""
import os
from ..pyvc import verify as V

NPROC = int(os.environ.get('VERIF_NPROC', '14'))


def jobs_for(registry_factory, quals=None, tier='quick', **kw):
    reg = registry_factory()
    jobs = []
    for q, c in reg.contracts.items():
        if quals is not None and q not in quals:
            continue
        if not c.verify:
            continue
        for case in c.cases:
            opts = dict(tier=tier, proof_timeout_ms=40000 if tier == 'quick' else 120000,
                        scopes=((3, 3),) if tier == 'quick' else ((2, 2), (3, 3), (4, 3)))
            opts.update(kw)
            jobs.append(((q, case.name, registry_factory), opts))
    return jobs


def run_jobs(jobs):
    """Runs the units; a unit that comes back with an obligation neither discharged nor refuted (solver `unknown`, time-out, worker
    death) is run a SECOND time, few at a time and with three times the proof budget, before its verdict is reported: an `unknown`
    that is only due to machine load must never surface (a baseline obligation left undecided is reported as a violation)."""
    res = V.verify_many(jobs, nproc=NPROC)
    again = []
    for i, r in enumerate(res):
        obs = r.get('obligations', [])
        if r.get('status') == 'ok' and any(o.get('status') == 'undecided' for o in obs) and not any(o.get('status') == 'refuted' for o in obs):
            again.append(i)          # a unit with a refuted obligation is broken anyway: nothing to confirm
        elif r.get('status') == 'crash' and 'died' in (r.get('error') or '').lower():
            again.append(i)
    if again and not os.environ.get('VERIF_NO_CONFIRM'):
        jobs2 = []
        for i in again:
            (q, case, regf), opts = jobs[i]
            o2 = dict(opts)
            o2['proof_timeout_ms'] = int(opts.get('proof_timeout_ms', 40000)) * 2
            o2['retries'] = False
            if res[i].get('status') == 'ok':
                o2['recheck'] = {(o['id'], o['ordinal']) for o in res[i]['obligations'] if o.get('status') == 'undecided'}
            jobs2.append(((q, case, regf), o2))
        res2 = V.verify_many(jobs2, nproc=max(1, min(4, NPROC // 3)))
        for i, r2 in zip(again, res2):
            if r2.get('status') != 'ok':
                continue
            if res[i].get('status') != 'ok':
                r2['confirmation_run'] = True
                res[i] = r2
                continue
            second = {(o['id'], o['ordinal']): o for o in r2.get('obligations', [])}
            for o in res[i]['obligations']:
                if o.get('status') == 'undecided':
                    o2 = second.get((o['id'], o['ordinal']))
                    if o2 is not None and o2.get('status') in ('discharged', 'refuted') and o2.get('result') != 'skipped':
                        o.update(status=o2['status'], result=o2.get('result'), reason=o2.get('reason', ''), model=o2.get('model'),
                                 backend=(o2.get('backend') or '') + ' [confirmation run]', seconds=round(o.get('seconds', 0) + o2.get('seconds', 0), 3))
    return res


def trusted_contracts(registry_factory):
    reg = registry_factory()
    return ['%s (contract assumed, body not verified: %s)' % (q, c.note) for q, c in reg.contracts.items() if not c.verify]


def _native_child(conn, fn):
    import traceback
    try:
        import resource
        lim = 6 * 1024 ** 3
        resource.setrlimit(resource.RLIMIT_AS, (lim, lim))       # a mutated simulator that grows without bound must not take the machine down
    except Exception:
        pass
    try:
        n, wit = fn()
        conn.send(('ok', n, wit))
    except MemoryError:
        conn.send(('err', 0, 'MemoryError: the real code under test exhausted the 6 GB address-space limit of the harness'))
    except BaseException as e:
        conn.send(('err', 0, '%s: %s\n%s' % (type(e).__name__, e, traceback.format_exc()[-600:])))
    finally:
        conn.close()


def native_ob(oid, function, fn, bound, backend='native runs of the real code against an independent oracle (CPython)', timeout_s=None):
    """a bounded native stand-in as an obligation (labelled bounded; never counted as proved).  The harness runs in a forked child with a
    wall-clock limit and an address-space limit: real code that no longer terminates (or eats memory) under a change yields `undecided`
    with that reason - which the baseline rule reports as a regression - instead of hanging the check."""
    import time
    import multiprocessing as mp
    from ..common import Ob
    t0 = time.time()
    timeout_s = timeout_s or int(os.environ.get('VERIF_NATIVE_TIMEOUT', '1200' if os.environ.get('VERIF_TIER_RUNNING', 'quick') == 'quick' else '5400'))
    ctx = mp.get_context('fork')
    parent, child = ctx.Pipe(duplex=False)
    p = ctx.Process(target=_native_child, args=(child, fn))
    p.start()
    child.close()
    n, wit, err = 0, None, None
    if parent.poll(timeout_s):
        try:
            kind, n, payload = parent.recv()
            if kind == 'ok':
                wit = payload
            else:
                err = payload
        except EOFError:
            err = 'the harness process died without an answer (exit code %s)' % p.exitcode
    else:
        err = 'the real code did not finish within %d s on the inputs of this stand-in (it takes seconds on the unchanged tree)' % timeout_s
    if p.is_alive():
        p.terminate()
        p.join(5)
        if p.is_alive():
            p.kill()
    p.join(5)
    if err is not None:
        return Ob(oid, function, 'post', 'undecided', backend, round(time.time() - t0, 2), detail=err, site=function, bounded=bound,
                  engine='E5-bounded', replay_note='the native harness could not decide: ' + err[:200])
    return Ob(oid, function, 'post', 'bounded-refuted' if wit else 'bounded-ok', backend, round(time.time() - t0, 2),
              detail=(str(wit.get('observed')) if wit else ''), site=function, bounded='%s (%d cases)' % (bound, n), witness=wit,
              replayed=True if wit else None, engine='E5-bounded', replay_note='%d cases run' % n)


def native_replayer(ob):
    if ob.witness and ob.engine in ('E5-bounded', 'E3'):
        return dict(failure_exhibited=True, how='the real code was run on this input and compared with an independent oracle', input=ob.witness)
    return None


def listdict_dependency(rep, tier, sorts=('U', 'Pair')):
    """The simulators' contracts ASSUME the contracts of _ListDict_ (weighted sampling container); those are verified under C16.  A
    property that depends on them re-verifies the container's units in its own check, so a change inside the container that breaks
    the dependent property is reported by that property's check too (modular verification: a callee change is only noticed by the
    callee's own obligations)."""
    from ..contracts import listdict
    from ..pyvc import verify as V2

    def mk(sort):
        def reg():
            r = V2.Registry()
            for c in listdict.contracts(sort):
                r.add(c)
            return r
        return reg
    for sort in sorts:
        res = run_jobs(jobs_for(mk(sort), tier=tier))
        tag = '<dependency:_ListDict_%s>' % ('' if sort == 'U' else ' of pairs')
        for u in res:
            u['unit'] = u['unit'] + tag
            u['case'] = u['case'] + tag
            for o in u['obligations']:
                o['id'] = o['id'].replace(']:', tag + ']:', 1)
        rep.add_unit_results(res)
    rep.assumptions.append('callee contracts of _ListDict_ are re-verified in this check (units tagged <dependency:_ListDict_...>), as under C16')
