"""helpers shared by the per-property drivers"""
import os
from ..pyvc import verify as V

NPROC = int(os.environ.get('VERIF_NPROC', '14'))


def jobs_for(registry_factory, quals=None, tier='quick', **kw):
    reg = registry_factory()
    jobs = []
    for q, c in reg.contracts.items():
        if quals is not None and q not in quals:
            continue
        if not c.verify:
            continue
        for case in c.cases:
            opts = dict(tier=tier, proof_timeout_ms=40000 if tier == 'quick' else 120000,
                        scopes=((3, 3),) if tier == 'quick' else ((2, 2), (3, 3), (4, 3)))
            opts.update(kw)
            jobs.append(((q, case.name, registry_factory), opts))
    return jobs


def run_jobs(jobs):
    return V.verify_many(jobs, nproc=NPROC)


def trusted_contracts(registry_factory):
    reg = registry_factory()
    return ['%s (contract assumed, body not verified: %s)' % (q, c.note) for q, c in reg.contracts.items() if not c.verify]
