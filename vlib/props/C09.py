"""C09 - recorded transmissions are causally valid and complete."""
from ..common import Report, Ob
from ..pyvc import verify as V
from ..contracts import fast_sir, gillespie_full
from ..effects import binding
from . import util


def reg_fast():
    r = V.Registry()
    for c in fast_sir.contracts():
        r.add(c)
    r.lib_install.append(fast_sir.install)
    return r


def reg_gfull():
    r = V.Registry()
    for c in gillespie_full.contracts():
        r.add(c)
    r.lib_install.append(gillespie_full.install)
    return r


def reg_gfull_sis():
    r = V.Registry()
    for c in gillespie_full.sis_contracts():
        r.add(c)
    r.lib_install.append(gillespie_full.install)
    return r


def gfull_jobs(tier):
    jobs = util.jobs_for(reg_gfull, tier=tier, quals={'Gillespie_SIR'})
    if tier == 'quick':
        jobs = [j for j in jobs if j[0][1] in ('list-unweighted', 'list-norecovered-unweighted')]
    # Gillespie_SIS with return_full_data=True (lists of infection / recovery times per node, ghost index maps for the entries)
    sis = util.jobs_for(reg_gfull_sis, tier=tier, quals={'Gillespie_SIS'})
    if tier == 'quick':
        sis = [j for j in sis if j[0][1] == 'list-unweighted']
    return jobs + sis


def run(tier, seed):
    rep = Report('C09', tier, seed)
    quals = {'_process_trans_SIR_', '_process_rec_SIR_', 'myQueue.add', 'myQueue.pop_and_run', 'event_step_SIR', 'fast_nonMarkov_SIR'}
    jobs = util.jobs_for(reg_fast, tier=tier, quals=quals)
    # Gillespie_SIR / Gillespie_SIS: the candidate-set invariants (IS_links = exactly the pairs infected -> susceptible along an edge) make
    # every chosen (transmitter, recipient) a causally valid transmission
    from . import C01
    jobs += C01.quick_filter(util.jobs_for(C01.reg, quals={'Gillespie_SIR', 'Gillespie_SIS'}, tier=tier), tier)
    # fast_SIS: an entry (t, u, v) is appended by _process_trans_SIS_Markov exactly when v turns S->I at t, with the source stored in the event
    # (postcondition); the global invariant GI_SIS (lemma event_step_SIS) says of every pending attempt u->v that it goes along an edge from an
    # infected u strictly before rec_time[u], and _find_next_trans_SIS_Markov only queues a next attempt before the source's recovery
    jobs += util.jobs_for(C01.reg_fast_sis, tier=tier, quals={'_process_trans_SIS_Markov', '_find_next_trans_SIS_Markov', '_process_rec_SIS_', 'event_step_SIS'})
    jobs += gfull_jobs(tier)      # Gillespie_SIR with return_full_data=True: what is recorded and handed to Simulation_Investigation
    rep.add_unit_results(util.run_jobs(jobs))
    for ob in binding.ctor_obligations():
        rep.add(ob)
    from ..replay import investigation_native as N
    rep.add(util.native_ob('native:transmissions-valid-and-complete', 'EoN/simulation.py:(all simulators with transmissions)', N.check_modes_agree,
                           '10 simulator configurations x 3 seeds on a 7-node graph: every sourced entry goes along an edge from a node infectious at that time to a node turning S->I then (next step for the discrete simulator), one entry per infection, time-ordered, SIR: forest'))
    rep.add(util.native_ob('native:simple-contagion-transmissions-valid', 'EoN/simulation.py:Gillespie_simple_contagion', N.check_simple_contagion_transmissions,
                           '9 model specifications (incl. a rule whose inducing status equals the status acted on) x directed/undirected 6-node graphs x 3 seeds: every entry goes along an edge, '
                           'matches a status change of the target that is an induced transition for the source\'s status at that time; changes without an entry are spontaneous transitions'))
    rep.level = 'other'
    rep.explanation = ('Unbounded, event-driven SIR (fast_nonMarkov_SIR / fast_SIR): the handler appends an entry (time, source, target) exactly when the target turns S->I at that '
                       'time (postcondition, source = the source stored in the event); the global event-loop invariant (queue rule lemma) keeps: one entry per infection, entries '
                       'without a source are exactly the first k ones (the initial nodes, at tmin), sourced entries go along an edge from an already infected node not after '
                       'its recovery, times non-decreasing, and every node is the target of at most one entry (index function) - hence a forest rooted at the initial nodes. '
                       'Gillespie_SIR with return_full_data=True: the main loop carries, on top of the candidate-set invariants, "the first k entries are the initial infections; every later entry (t,u,v) goes along an edge, '
                       'v\'s recorded infection time is t, u was infected not after t and has not recovered before t; times non-decreasing; no node is the target of two entries; #entries = k + #infections", '
                       'and exactly that list is handed to Simulation_Investigation. Gillespie_SIS with return_full_data=True: per node the lists of infection / recovery times alternate inside [tmin, now] and agree with the status; '
                       'every sourced entry goes along an edge and names, through ghost index maps, the infection of its target at that time (not the initial one) and an infection of its source that covers that time; '
                       'two entries never name the same infection; #sourced entries = #infection events (from the rows); exactly these objects are handed on. '
                       'fast_SIS: per-entry validity AT THE TIME OF RECORDING is unbounded - the handler appends (t, source of the event, v) exactly when v turns S->I at t, and by the global invariant GI_SIS '
                       '(queue-rule lemma event_step_SIS) every pending attempt u->v goes along an edge from an infected u strictly before rec_time[u], a next attempt being queued only before the source\'s recovery; '
                       'that these facts persist as a statement about the finished list (order, one entry per infection) is only observed by the bounded stand-in. '
                       'Constructor binding for every simulator. fast_nonMarkov_SIS, generic and discrete simulators are decided only by the bounded native stand-in.')
    rep.assumptions += ['ASSUMED callee (not verified): _transform_to_node_history_(..., SIR=False) is an opaque call in the Gillespie_SIS full-data unit - only which objects it is given is decided; the ghost index maps ghost_pt / ghost_ps are assigned only by the contract\'s ghost update at the end of a pass of the main loop',
                        'queue rule and heapq contract as in C04/C11', 'Simulation_Investigation.transmissions() / transmission_tree() return the stored list / its sourced entries (checked natively)']
    rep.not_covered += ['a list invariant over the finished transmission list of fast_SIS (per-entry validity is proved at recording time only); unbounded contracts for the transmissions of fast_nonMarkov_SIS, Gillespie_simple_contagion, discrete simulators; the rho / single-node / default spellings of the Gillespie full-data paths are verified in the thorough tier only']
    return rep, util.native_replayer
