"""C09 - recorded transmissions are causally valid and complete."""
from ..common import Report, Ob
from ..pyvc import verify as V
from ..contracts import fast_sir
from ..effects import binding
from . import util


def reg_fast():
    r = V.Registry()
    for c in fast_sir.contracts():
        r.add(c)
    r.lib_install.append(fast_sir.install)
    return r


def run(tier, seed):
    rep = Report('C09', tier, seed)
    quals = {'_process_trans_SIR_', '_process_rec_SIR_', 'myQueue.add', 'myQueue.pop_and_run', 'event_step_SIR', 'fast_nonMarkov_SIR'}
    jobs = util.jobs_for(reg_fast, tier=tier, quals=quals)
    # Gillespie_SIR / Gillespie_SIS: the candidate-set invariants (IS_links = exactly the pairs infected -> susceptible along an edge) make
    # every chosen (transmitter, recipient) a causally valid transmission
    from . import C01
    jobs += C01.quick_filter(util.jobs_for(C01.reg, quals={'Gillespie_SIR', 'Gillespie_SIS'}, tier=tier), tier)
    rep.add_unit_results(util.run_jobs(jobs))
    for ob in binding.ctor_obligations():
        rep.add(ob)
    from ..replay import investigation_native as N
    rep.add(util.native_ob('native:transmissions-valid-and-complete', 'EoN/simulation.py:(all simulators with transmissions)', N.check_modes_agree,
                           '10 simulator configurations x 3 seeds on a 7-node graph: every sourced entry goes along an edge from a node infectious at that time to a node turning S->I then (next step for the discrete simulator), one entry per infection, time-ordered, SIR: forest'))
    rep.add(util.native_ob('native:simple-contagion-transmissions-valid', 'EoN/simulation.py:Gillespie_simple_contagion', N.check_simple_contagion_transmissions,
                           '9 model specifications (incl. a rule whose inducing status equals the status acted on) x directed/undirected 6-node graphs x 3 seeds: every entry goes along an edge, '
                           'matches a status change of the target that is an induced transition for the source\'s status at that time; changes without an entry are spontaneous transitions'))
    rep.level = 'other'
    rep.explanation = ('Unbounded, event-driven SIR (fast_nonMarkov_SIR / fast_SIR): the handler appends an entry (time, source, target) exactly when the target turns S->I at that '
                       'time (postcondition, source = the source stored in the event); the global event-loop invariant (queue rule lemma) keeps: one entry per infection, entries '
                       'without a source are exactly the first k ones (the initial nodes, at tmin), sourced entries go along an edge from an already infected node not after '
                       'its recovery, times non-decreasing, and every node is the target of at most one entry (index function) - hence a forest rooted at the initial nodes. '
                       'Constructor binding for every simulator. The other simulators (Gillespie, SIS, generic, discrete) are decided only by the bounded native stand-in.')
    rep.assumptions += ['queue rule and heapq contract as in C04/C11', 'Simulation_Investigation.transmissions() / transmission_tree() return the stored list / its sourced entries (checked natively)']
    rep.not_covered += ['unbounded contracts for the transmissions of Gillespie_SIR/SIS (full-data paths), fast_SIS, fast_nonMarkov_SIS, Gillespie_simple_contagion, discrete simulators']
    return rep, util.native_replayer
