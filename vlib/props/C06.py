"""C06 - ODE outputs conserve the population and start from the requested state.
P (all inputs): delegation binding of every wrapper in analytic.py, never-bound names ("accepted rather than crashing").
B (bounded, E3): real code on symbolic reals with the odeint contract stub: time grid, row 0, conservation."""
from ..common import Report, Ob
from ..effects import binding, names, frames
from ..symnum import c06


def run(tier, seed):
    rep = Report('C06', tier, seed)
    for ob in binding.obligations(only=('analytic',)):
        rep.add(ob)
    for ob in names.obligations(files=['EoN/analytic.py']):
        rep.add(ob)
    for ob in c06.obligations(tier):
        rep.add(ob)
    for ob in c06.direct_obligations(tier):
        rep.add(ob)
    for ob in c06.wrapper_full_data_obligations(tier):
        rep.add(ob)
    for ob in frames.rhs_obligations():
        rep.add(ob)
    from ..symnum import odeint_body
    for ob in odeint_body.obligations():
        rep.add(ob)
    rep.level = 'other'
    rep.functions.append(dict(file='EoN/analytic.py', qualname='all *_from_graph and *_pure_IC entry points (E3); every function (binding, names)'))
    rep.explanation = ('Unbounded part: every internal call site of analytic.py binds the wrapper parameters (initial sets, rho, time grid, flags, '
                       'weights, nodelist) to the callee parameters of the same name, and no function loads a never-bound name. Bounded part '
                       '(labelled bounded, not counted as proved): each graph-based entry point is executed unmodified on small graphs with '
                       'symbolic tau/gamma/rho and the odeint contract stub; times == linspace, row 0 == the requested initial state, and '
                       'S+I(+R) == N in every row either identically or because the gradient of the total annihilates the model\'s own '
                       'right-hand side.')
    rep.assumptions += ['the right-hand sides handed to odeint do not write into the state vector (frame obligation frame-rhs:*, decided for all inputs)',
                        'full data of the wrappers: each auxiliary series at tmin equals the count defined directly from the graph and the initial sets (independent oracle in vlib/symnum/c06.py)',
                        'odeint / _my_odeint_ contract: shape (len(times), len(X0)), row 0 = X0; numpy elementwise semantics on object arrays',
                        'M (not checked): orthant invariance of the flows; "compartments within [0,N]" and monotone S/R for SIR are not decided here',
                        'full-data order: each returned series named X in the return statement starts from the input X0 (one exact input per direct model)']
    rep.trusted = ['sympy simplification returning 0', 'the odeint contract stub in vlib/symnum/harness.py', 'binding / names flow analyses']
    rep.not_covered += ['compartments within [0, N]; non-increasing S / non-decreasing R (needs sign reasoning on each right-hand side)',
                        'EBCM / EBCM_discrete / individual- and pair-based direct calls are exercised only through their wrappers']

    def replayer(ob):
        if ob.witness:
            return dict(failure_exhibited=True, how='the real entry point was executed on this input (with the odeint stub)', input=ob.witness)
        return None
    return rep, replayer
