"""C13 - fast_nonMarkov_SIS honours the supplied delays.  Decided only by a bounded native stand-in (labelled bounded):
the real simulator against a plain reference semantics on deterministic, tie-free delay rules."""
from ..common import Report
from ..pyvc import verify as V
from ..contracts import nonmarkov_sis
from . import util


def reg():
    r = V.Registry()
    for c in nonmarkov_sis.contracts():
        r.add(c)
    return r


def run(tier, seed):
    rep = Report('C13', tier, seed)
    # the adapter from the two user rules to the joint rule is within reach of the VC generator (the event handler is not)
    rep.add_unit_results(util.run_jobs(util.jobs_for(reg, tier=tier)))
    from ..replay import sim_native
    rep.add(util.native_ob('native:nonMarkov-SIS-reference-semantics', 'EoN/simulation.py:fast_nonMarkov_SIS / _process_trans_SIS_nonMarkov_', sim_native.c13_native,
                           '400 random graphs with 2..6 nodes (a fifth without a node 0), 1-2 seeds, tmin in {0, 1.5, -3.25}, 4 horizons, random silent and short-lived nodes; duration and delay lists (0-3 delays per neighbour, a third of the trials with '
                           'unsorted lists) are tables indexed by (node, neighbour, how often infected); trials with two events at the same instant are skipped; every node history '
                           'must equal the reference: recover exactly `duration` after each infection, attempt each neighbour at every listed delay, attempts infect iff the '
                           'neighbour is susceptible at that instant'))
    rep.bounded_is_supplementary = False
    rep.level = 'other'
    rep.explanation = ('Unbounded for the adapter _find_trans_and_rec_delays_SIS_ only: the duration rule is asked once, first, about the node; the delay rule is asked for every neighbour with (node, neighbour, that duration, *args); the dict returned maps exactly the neighbours to the user\'s answers. Otherwise bounded: the handler _process_trans_SIS_nonMarkov_ (future_transmissions bookkeeping through closures over per-source lists) is not within reach of the '
                       'VC generator yet; a stated-bound comparison of the real simulator with an independent reference stands in.  The clause "with exponential rules it '
                       'reproduces the law of fast_SIS" is a statement about distributions and is not decided (the reference semantics + C02 imply it; cited).')
    rep.assumptions += ['delays >= 0, durations > 0; all event times distinct (the property quantifies over distinct event times)',
                        'the reference semantics is the property text: every listed delay is attempted, also those beyond the duration']
    rep.not_covered += ['unbounded contracts for _process_trans_SIS_nonMarkov_ / fast_nonMarkov_SIS', 'equality in law with fast_SIS under exponential rules']
    return rep, util.native_replayer
