"""C13 - fast_nonMarkov_SIS honours the supplied delays.
Unbounded (E1): the adapter _find_trans_and_rec_delays_SIS_, the event handler _process_trans_SIS_nonMarkov_ (exact queue / status /
row updates for one event, for any user rule and any queue), the queue rule (event_step_nmSIS: one step of the event loop preserves
the global invariant GI_NM) and fast_nonMarkov_SIS itself.  Bounded: equality of whole histories with a plain reference semantics
(the composition of the per-event facts over a run) - the real simulator against the reference on deterministic, tie-free rules."""
from ..common import Report
from ..pyvc import verify as V
from ..contracts import nonmarkov_sis, fast_nm
from . import util


def reg():
    r = V.Registry()
    for c in nonmarkov_sis.contracts():
        r.add(c)
    return r


def reg_nm():
    r = V.Registry()
    for c in fast_nm.contracts(verify_callees=True):
        r.add(c)
    r.lib_install.append(fast_nm.install)
    return r


def run(tier, seed):
    rep = Report('C13', tier, seed)
    # the adapter from the two user rules to the joint rule is within reach of the VC generator (the event handler is not)
    rep.add_unit_results(util.run_jobs(util.jobs_for(reg, tier=tier) + util.jobs_for(reg_nm, tier=tier)))
    from ..replay import sim_native
    rep.add(util.native_ob('native:nonMarkov-SIS-reference-semantics', 'EoN/simulation.py:fast_nonMarkov_SIS / _process_trans_SIS_nonMarkov_', sim_native.c13_native,
                           '400 random graphs with 2..6 nodes (a fifth without a node 0), 1-2 seeds, tmin in {0, 1.5, -3.25}, 4 horizons, random silent and short-lived nodes; duration and delay lists (0-3 delays per neighbour, a third of the trials with '
                           'unsorted lists) are tables indexed by (node, neighbour, how often infected); trials with two events at the same instant are skipped; every node history '
                           'must equal the reference: recover exactly `duration` after each infection, attempt each neighbour at every listed delay, attempts infect iff the '
                           'neighbour is susceptible at that instant'))
    rep.bounded_is_supplementary = False
    rep.level = 'other'
    rep.explanation = ('Unbounded, per function and for every graph / user rule / queue content: (1) the adapter asks the duration rule once, first, and the delay rule for every neighbour with that duration; '
                       '(2) _process_trans_SIS_nonMarkov_: a susceptible target becomes infected at `time`, rows / transmissions / infection_times get exactly one entry, rec_time[target] = time + the user\'s duration, '
                       'the recovery is queued at that time iff < tmax, and every neighbour v gets exactly one event target -> v whose head and payload are, in time order, listed attempt times time + d '
                       '(d in the user\'s list for v) containing ALL those that are admissible (after rec_time[v] when v is infected) - none only if no admissible one lies before tmax; in either case the chain '
                       'source -> target continues with the remaining attempt times after rec_time[target]; older events and their payloads, other statuses and rows are untouched; the rule is asked exactly once '
                       'per infection; (3) event_step_nmSIS: popping a minimal event and running its handler preserves GI_NM (rows = head counts, times non-decreasing and < tmax, pending events in [now, tmax) with '
                       'unique counters, a pending recovery belongs to an infected node at exactly rec_time[node], one per node, every infected node has its recovery pending or rec_time >= tmax, payloads in order and '
                       'not before their event, initial infections first); (4) fast_nonMarkov_SIS: argument checks, initial events, the loop is exactly `Q.pop_and_run()`, the rule (or the adapter with the two rules '
                       'bound onto its signature) reaches the handlers, returned rows drop the synthetic initial entries.  Bounded: that these per-event facts compose to "the history equals the reference semantics" '
                       'is observed by the stated-bound comparison.  The clause "with exponential rules it reproduces the law of fast_SIS" is a statement about distributions and is not decided (reference semantics + C02 imply it; cited).')
    rep.assumptions += ['delays >= 0, durations >= 0; all event times distinct (the property quantifies over distinct event times)',
                        'the reference semantics is the property text: every listed delay is attempted, also those beyond the duration',
                        'attempts that are not admissible (the target is infected until after the attempt) may be pruned or kept: both satisfy the handler contract, since such an attempt cannot infect',
                        'sorted(): assumed library contract (a rearrangement of the input in non-decreasing order); list comprehension with a filter: order-preserving sub-list (vlib/pyvc/lib.py)',
                        'ghost state: the later attempt times carried by a queued event (its `future_transmissions` argument) are modelled as a map event counter -> list on the queue object; '
                        'abbreviations `carries` / `payload_in_order` are unfolded only at the events a proof step names (opaque / reveal; vlib/pyvc/sorts.py:Abbrev)',
                        'heapq / myQueue contracts as in C04']
    rep.not_covered += ['composition of the per-event facts into equality of whole histories with the reference semantics (bounded stand-in only)',
                        'equality in law with fast_SIS under exponential rules', 'return_full_data=True path of fast_nonMarkov_SIS (C10 covers _transform_to_node_history_)']
    return rep, util.native_replayer
