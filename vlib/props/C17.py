"""C17 - percolation-based probability/size estimators compute what they document."""
from ..common import Report, Ob
from ..pyvc import verify as V
from ..contracts import percolation
from ..effects import binding
from . import util


def reg():
    r = V.Registry()
    for c in percolation.contracts():
        r.add(c)
    return r


def run(tier, seed, prop='C17'):
    rep = Report(prop, tier, seed)
    rep.add_unit_results(util.run_jobs(util.jobs_for(reg, tier=tier)))
    for ob in binding.obligations(only=('simulation',)):
        if any(x in ob.id for x in ('estimate_', 'percolat', 'get_infected_nodes', '_component_')):
            rep.add(ob)
    from ..replay import sim_native
    rep.bounded_is_supplementary = True
    rep.add(util.native_ob('native:estimators-vs-brute-force', 'EoN/simulation.py:estimate_SIR_prob_size_from_dir_perc / builders', sim_native.c17_native,
                           'every digraph on <= 3 nodes and 400 on 4 nodes vs networkx ancestors/descendants of a largest SCC; builders with tau=0 / gamma=0 and weights on/off (isolated node); estimate_SIR_prob_size at p=1'))
    rep.explanation = ('estimate_SIR_prob_size_from_dir_perc: the component used is a largest SCC of H (assumed networkx contract), PE*N is the '
                       'cardinality of {x | x reaches u} and AR*N that of {x | reachable from u} for a node u of it, both in [0,1]; '
                       '_in_component_/_out_component_: loop invariants over the union; estimate_SIR_prob_size: both outputs = largest component '
                       'of percolate_network(G,p) / N; builders: same node set, edge u->v iff the supplied rule holds, documented attributes. '
                       'All for graphs of any order.')
    rep.assumptions += ['assumed networkx contracts: descendants/ancestors = non-empty-path reachability (excluding the node itself), '
                        'strongly_connected_components + max(key=len) = a mutual-reachability class of maximal size, connected_components '
                        'largest size in [1, order]; add_edge also adds its end points',
                        'finite-cardinality facts (subset => at most as many elements) instantiated as lemmas',
                        'order(H) >= 1 (the empty graph raises ValueError in max(): outside the statement)']
    rep.not_covered += ['directed_percolate_network and get_infected_nodes bodies (binding only)']
    return rep, util.native_replayer
