"""C16 - weighted event selection stays proportional to weight after any history.
Deciding obligations: representation invariant + whole-view postconditions of every _ListDict_ method
(both key sorts used by the simulators: nodes and ordered node pairs), draw-site obligations of
choose_random, lemma REJ.  Unbounded (DESIGN section 5, C16)."""
import time
import z3
from z3 import And, Not, Implies, Real, Int
from ..common import Report, Ob
from ..pyvc import verify as V
from ..contracts import listdict
from . import util


def reg_nodes():
    r = V.Registry()
    for c in listdict.contracts('U'):
        r.add(c)
    return r


def reg_pairs():
    r = V.Registry()
    for c in listdict.contracts('Pair'):
        r.add(c)
    return r


def lemma_rej():
    """one round of rejection sampling: uniform proposal over n items, acceptance w_i/M (0<=w_i<=M, M>0).
    P(select i | a round accepts) = (w_i/(n M)) / (W/(n M)) = w_i/W.   (M: geometric series over rounds)"""
    wi, W, M, n = Real('wi'), Real('W'), Real('M'), Real('n')
    s = z3.Solver()
    s.set('timeout', 20000)
    s.add(n >= 1, M > 0, W > 0, wi >= 0, wi <= M, wi <= W)
    per_round_i = (1 / n) * (wi / M)
    per_round_any = W / (n * M)
    s.add(Not(And(per_round_any > 0, per_round_i / per_round_any == wi / W)))
    t = time.time()
    r = s.check()
    return Ob(id='lemma:REJ', function='(lemma over the choose_random site obligations)', kind='lemma',
              status='discharged' if r == z3.unsat else 'undecided', backend='z3-%s NRA' % z3.get_version_string(),
              seconds=round(time.time() - t, 3), replay_note=str(r))


def run(tier, seed):
    rep = Report('C16', tier, seed)
    # unit names must differ between the two key sorts
    res_nodes = util.run_jobs(util.jobs_for(reg_nodes, tier=tier))
    res_pairs = util.run_jobs(util.jobs_for(reg_pairs, tier=tier))
    for u in res_pairs:
        u['unit'] = u['unit'] + '<pairs>'
        u['case'] = u['case'] + '<pairs>'
        for o in u['obligations']:
            o['id'] = o['id'].replace(']:', '<pairs>]:', 1)
    rep.add_unit_results(res_nodes)
    rep.add_unit_results(res_pairs)
    rep.add(lemma_rej())
    rep.assumptions += [
        'weights are real numbers (rounding drift of _total_weight is outside: "to rounding" read over the reals)',
        'weight increments passed to update are >= 0 (negative increments are outside the property)',
        'M: a loop of independent rounds that selects i with per-round probability p_i and stops at the first accepting round selects i with probability p_i / sum_j p_j (geometric series) -- cited, not machine-checked',
        'termination of the rejection loop is not proved',
    ]
    rep.explanation = ('Every _ListDict_ method of the current source is symbolically executed path by path and its whole-view '
                       'postcondition + representation invariant discharged by z3 with U uninterpreted (unbounded in the number of '
                       'items and in the history: the invariant is established by __init__ and preserved by every method). '
                       'Open obligations are re-examined at finite scope to obtain a counter-model.')
    from ..replay import listdict_native
    return rep, listdict_native.replayer
