"""C02 - Markovian SIS simulators sample the exact network SIS process (Gillespie_SIS part; fast_SIS: see DESIGN)."""
from . import C01


def run(tier, seed):
    rep, r = C01.run(tier, seed, prop='C02', units=('Gillespie_SIS',), fast=False)
    rep.not_covered.append('fast_SIS (_find_next_trans_SIS_Markov / _process_trans_SIS_Markov / _process_rec_SIS_) is not under contract yet')
    return rep, r
