"""C02 - Markovian SIS simulators sample the exact network SIS process.
Gillespie_SIS: view/rate loop invariants + draw-site obligations (as C01).
fast_SIS: contracts on _find_next_trans_SIS_Markov (next transmission time = successive Exp(rate) delays from the
current time, first one at which the target is susceptible again, only if before the source's recovery) and
_process_rec_SIS_, and on _process_trans_SIS_Markov (infect iff susceptible, recovery delay ~ Exp(rec rate of the node), one
attempt chain started per neighbour and the source's chain continued, event arguments bound onto the handler's own
signature); the fast_SIS driver / event loop only by the bounded native stand-in."""
from ..pyvc import verify as V
from ..contracts import handlers_sis
from . import C01, util


def reg_sis():
    r = V.Registry()
    for c in handlers_sis.contracts():
        r.add(c)
    return r


def run(tier, seed):
    rep, r = C01.run(tier, seed, prop='C02', units=('Gillespie_SIS',), fast=False)
    rep.add_unit_results(util.run_jobs(util.jobs_for(reg_sis, tier=tier, quals={'_process_rec_SIS_', '_find_next_trans_SIS_Markov', '_process_trans_SIS_Markov'})))
    from ..replay import sim_native
    rep.add(util.native_ob('native:fast_SIS-and-Gillespie_SIS-scripted-draws', 'EoN/simulation.py:fast_SIS / Gillespie_SIS', sim_native.c02_native,
                           'scripted random source on graphs <= 5 nodes, tmin in {0, -6, 2.5}: every waiting time of Gillespie_SIS is drawn with the total rate of the current '
                           'state (weighted and unweighted, with re-infections); fast_SIS: every transmission delay drawn with tau*w, every recovery delay with gamma*w, '
                           'events applied in time order, S+I conserved'))
    rep.bounded_is_supplementary = False
    rep.level = 'other'
    rep.assumptions += ['fast_SIS: a delay is re-drawn from the failed attempt time while the target is still infected (memorylessness; cited) - proved per call of _find_next_trans_SIS_Markov',
                        'heapq / myQueue contracts as in C04']
    rep.not_covered += ['the fast_SIS driver (initialisation, event loop as a whole) is decided only by the bounded native stand-in; its three handlers are under unbounded contract']
    return rep, util.native_replayer
