"""C02 - Markovian SIS simulators sample the exact network SIS process.
Gillespie_SIS: view/rate loop invariants + draw-site obligations (as C01).
fast_SIS: contracts on _find_next_trans_SIS_Markov (next transmission time = successive Exp(rate) delays from the
current time, first one at which the target is susceptible again, only if before the source's recovery) and
_process_rec_SIS_, and on _process_trans_SIS_Markov (infect iff susceptible, recovery delay ~ Exp(rec rate of the node), one
attempt chain started per neighbour and the source's chain continued, event arguments bound onto the handler's own
signature); the fast_SIS driver / event loop only by the bounded native stand-in."""
from ..pyvc import verify as V
from ..contracts import handlers_sis
from . import C01, util


def reg_sis():
    r = V.Registry()
    for c in handlers_sis.contracts():
        r.add(c)
    return r


def run(tier, seed):
    rep, r = C01.run(tier, seed, prop='C02', units=('Gillespie_SIS',), fast=False, sis=True)
    from ..replay import sim_native
    rep.add(util.native_ob('native:fast_SIS-and-Gillespie_SIS-scripted-draws', 'EoN/simulation.py:fast_SIS / Gillespie_SIS', sim_native.c02_native,
                           'scripted random source on graphs <= 5 nodes, tmin in {0, -6, 2.5}: every waiting time of Gillespie_SIS is drawn with the total rate of the current '
                           'state (weighted and unweighted, with re-infections); fast_SIS: every transmission delay drawn with tau*w, every recovery delay with gamma*w, '
                           'events applied in time order, S+I conserved'))
    rep.bounded_is_supplementary = True
    rep.level = 'proof'
    rep.assumptions += ['fast_SIS: a delay is re-drawn from the failed attempt time while the target is still infected (memorylessness; cited) - proved per call of _find_next_trans_SIS_Markov',
                        'heapq / myQueue contracts as in C04']
    rep.assumptions += ['queue rule for fast_SIS: `while Q: Q.pop_and_run()` is discharged by the lemma unit event_step_SIS (one step preserves the global invariant GI_SIS: rows, pending events '
                        'in [now, tmax), pending recovery = rec_time of an infected node, pending attempt u->v from an infected u strictly before rec_time[u], a susceptible node\'s rec_time is not in the future, '
                        'initial infections first), glued by the verified pop_and_run contract and the event-binding obligations at every Q.add site',
                        '_get_rate_functions_ returns tau*w_uv / gamma*w_u (verified under C01); rates >= 0']
    rep.not_covered += ['"every infected node has its recovery pending" is not part of the proved global invariant (an existential that made the step lemma unstable); it is what the bounded stand-in observes']
    return rep, util.native_replayer
