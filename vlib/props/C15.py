"""C15 - Gillespie_complex_contagion always acts on up-to-date rates."""
from ..common import Report, Ob
from ..pyvc import verify as V
from ..contracts import complex_contagion
from . import util


def reg():
    r = V.Registry()
    for c in complex_contagion.contracts():
        r.add(c)
    r.lib_install.append(complex_contagion.install)
    return r


def run(tier, seed):
    rep = Report('C15', tier, seed)
    rep.add_unit_results(util.run_jobs(util.jobs_for(reg, tier=tier)))
    util.listdict_dependency(rep, tier, sorts=('U',))
    rep.explanation = ('Main-loop invariant "nodes_by_rate = {u -> rate(u, current statuses) | rate > 0}" is established by the initial loop and preserved by '
                       'every event: the changed node is re-rated, then every member of the influence set (prefix invariant), and by the covering '
                       'assumption of the property nobody else\'s rate changed; the clock argument is the sum of the current rates (guarded by > 0), '
                       'the actor is drawn through the C16 contracts, the new status is the chooser\'s answer (checked where the influence set is '
                       'requested), the loop runs iff total > 0 and t < tmax, and the reported counts equal the status head-counts. Graphs of any order.')
    rep.assumptions += ['user call-backs: rate >= 0, functions of (node, statuses); COVERING assumption from the property: a status change at x changes the rate only of x and of get_influence_set(G, x, new statuses)',
                        'IC assigns a status to every node; two distinct reported statuses (the case analysed)',
                        'callee contracts of _ListDict_ are those verified under C16; M: Gillespie direct method']
    from ..replay import sim_native
    rep.bounded_is_supplementary = True
    rep.add(util.native_ob('native:complex-contagion-clock-uses-current-rates', 'EoN/simulation.py:Gillespie_complex_contagion', sim_native.c15_native,
                           'scripted random source, 4 models (SIR, SIRS, threshold, cumulative exposure) x influence sets returned as list / set / one-shot iterator / generator / depending on the '
                           'node\'s new status x 5 random initial conditions on a 7-node graph with isolated nodes, tmin in {0, 2.5, -1}: at every step the clock rate equals the sum of the user\'s rates '
                           'over the current statuses, the acting node had a positive rate and takes the chooser\'s status, the run only stops early when all rates are 0 (floating-point rates)'))
    rep.not_covered += ['summary() of the histories of the full-data object (bounded stand-ins of C10)']
    return rep, util.native_replayer
