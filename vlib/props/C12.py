"""C12 - discrete-time simulators follow generation-by-generation Reed-Frost dynamics."""
from ..common import Report, Ob
from ..pyvc import verify as V
from ..contracts import discrete, percolation
from ..effects import binding
from . import util


def reg():
    r = V.Registry()
    for c in discrete.contracts():
        r.add(c)
    return r


def reg_perc_top():
    r = V.Registry()
    for c in percolation.contracts():
        r.add(c)
    return r


def run(tier, seed):
    rep = Report('C12', tier, seed)
    rep.add_unit_results(util.run_jobs(util.jobs_for(reg, tier=tier) + util.jobs_for(reg_perc_top, tier=tier, quals={'percolate_network'})))
    for ob in binding.obligations(only=('simulation',)):
        if any(x in ob.id for x in ('discrete', 'percolat')):
            rep.add(ob)
    from ..replay import sim_native
    rep.bounded_is_supplementary = True
    rep.add(util.native_ob('native:generation-recurrence-oracle', 'EoN/simulation.py:discrete_SIR / basic_discrete_SIS / basic_discrete_SIR / percolate_network', sim_native.c12_native,
                           '4 graphs x 4 deterministic rules x 4 seed/recovered placements x tmin in {0,3,-2}: per-node histories vs BFS layers, rows, a recovery rule, the Bernoulli rule with a scripted random source; basic_discrete_SIS / basic_discrete_SIR / percolate_network: one uniform draw per infectious-susceptible contact (per edge), a single success moved over every draw position infects exactly that contact\'s target (keeps exactly that edge), infectious nodes are S (SIS) / R (SIR) one step later'))
    rep.explanation = ('discrete_SIR: the generation loops carry the invariant "new_infecteds = nodes susceptible at step start reached by a '
                       'successful contact from an infectious node" (the BFS layer recurrence in the digraph of successful contacts; the rule is '
                       'asked with (u, v, *args) and only about susceptible v), every infectious node recovers after one step unless the recovery '
                       'rule keeps it, S+I+R=N, t advances by 1 - for graphs of any order. _simple_test_transmission_: one U01 draw compared with p. '
                       'Wrappers basic_discrete_SIR / percolation_based_discrete_SIR: delegation binding. basic_discrete_SIS (plain arrays): the generation loops carry '
                       '"new_infecteds = the nodes outside the infectious set reached by a processed contact whose own uniform draw is < p" (the draw site is tested only for '
                       'v outside the infectious set, against p, and no other draw site exists), and a two-state postcondition of ONE pass of the main loop says that exactly one row '
                       'is appended, the time advances by 1 and the new infectious set is exactly {v not infectious : some infectious neighbour u has draw(u,v) < p} - one step of '
                       'the discrete SIS chain, for graphs of any order; rows: t[j]=tmin+j<=tmax, S+I=N, row 0 = the request; the loop stops only by extinction or when the next step would pass tmax.')
    rep.assumptions += ['M (cited): the layer recurrence gives infection time = tmin + BFS distance; independent Bernoulli(p) contacts give the Reed-Frost chain',
                        'the transmission rule is a function of the ordered pair within a step (it is asked at most once per pair per step)',
                        'distinct / disjoint initial sets; rho not combined with initial_recovereds']
    rep.assumptions += ['basic_discrete_SIS: the uniform draw of a contact is named by its ordered pair (sound while set iteration and G.neighbors enumerate without repetition - assumed library contracts - and no other draw site exists - checked)']
    rep.not_covered += ['basic_discrete_SIS with return_full_data=True (bounded native stand-in only); percolate_network: same nodes, symmetric sub-graph of G, each edge decided by its own U01 draw compared with p',
                        'return_full_data=True paths of discrete_SIR']
    return rep, util.native_replayer
