"""C07 - equivalent ODE models agree (bounded stand-in: exact Taylor coefficients at tmin of the real models)."""
from ..common import Report, Ob
from ..symnum import c07


def run(tier, seed):
    rep = Report('C07', tier, seed)
    c07.NOT_COVERED.clear()
    for ob in c07.c07_obligations(tier):
        rep.add(ob)
    for ob in c07.solved_hierarchy_obligations(tier):
        rep.add(ob)
    from ..symnum import odeint_body
    for ob in odeint_body.obligations():
        rep.add(ob)
    rep.level = 'other'
    rep.functions.append(dict(file='EoN/analytic.py', qualname='EBCM, SIR compact / super-compact pairwise, EBCM_pref_mix, homogeneous / heterogeneous / compact pairwise and mean-field models (SIS and SIR) through their *_from_graph wrappers'))
    rep.explanation = ('Each model is executed unmodified with the odeint contract stub; the recorded right-hand side, the initial state and the '
                       'observables give the exact Lie derivatives L_f^k(S), L_f^k(I), L_f^k(R) at tmin (k <= order) as symbolic expressions in '
                       'tau, gamma, rho, which must coincide between models that are claimed to produce the same curves. Bounded (order, graphs) '
                       'and only a necessary condition; the semiconjugacy + ODE-uniqueness argument is cited, not machine-checked.')
    rep.assumptions += ['odeint contract stub; sympy simplification', 'M (cited): semiconjugacy of the flows + uniqueness of ODE solutions give equality of the whole curves']
    rep.not_covered += [x + ' (compared through real numeric solves instead)' for x in dict.fromkeys(c07.NOT_COVERED)]
    rep.trusted = ['sympy', 'vlib/symnum/harness.py']
    return rep, (lambda ob: dict(failure_exhibited=True, how='exact Lie derivatives computed from the real code', input=ob.witness) if ob.witness else None)
