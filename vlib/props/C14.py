"""C14 - results depend on network structure, not on node names or ordering."""
from ..common import Report, Ob
from ..effects import opacity
from ..symnum import c14


def run(tier, seed):
    rep = Report('C14', tier, seed)
    for ob in opacity.obligations():
        rep.add(ob)
    for ob in c14.obligations(tier, seed):
        rep.add(ob)
    for ob in c14.solved_curves_obligations(tier, seed):
        rep.add(ob)
    for ob in c14.simulator_obligations(tier, seed):
        rep.add(ob)
    rep.level = 'other'
    rep.functions.append(dict(file='EoN/analytic.py', qualname='every function (opacity); every *_from_graph / *_pure_IC entry point (relational)'))
    rep.explanation = ('Unbounded part: in no function of analytic.py does a name bound by iterating over nodes subscript an array '
                       '(node labels are only hashed / compared), so relabelling commutes with the code up to iteration order. Bounded part '
                       '(labelled bounded): each graph-based ODE entry point is executed on a graph and on relabelled / re-ordered copies and S, I, R '
                       'and their time derivatives at tmin along the model\'s own right-hand side are compared exactly (numerically for the '
                       'node-level right-hand sides, which write into float arrays); an explicit nodelist in another order is also compared; '
                       'the deterministic-rule simulators are compared natively through per-node histories.')
    rep.assumptions += ['first-order comparison at tmin (value and derivative), not the whole trajectory',
                        'iteration order only changes floating-point rounding of sums (stated in the property as "up to rounding")']
    rep.trusted = ['opacity analysis in vlib/effects/opacity.py', 'odeint contract stub', 'sympy simplification']

    def replayer(ob):
        if ob.witness:
            return dict(failure_exhibited=True, how='the real code was executed on this graph and on its relabelled copy', input=ob.witness)
        return None
    return rep, replayer
