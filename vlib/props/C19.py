"""C19 - calls do not modify their arguments and can be repeated (E2 frame analysis, all inputs)."""
import ast
from ..common import Report, Ob
from ..effects import frames
from ..pyvc.verify import Source


def analytic_is_deterministic():
    out = []
    src, tree = Source.get('EoN/analytic.py')
    bad = []
    for x in ast.walk(tree):
        if isinstance(x, ast.Call):
            nm = ast.unparse(x.func)
            if nm.startswith(('random.', 'np.random.', 'numpy.random.', 'time.', 'os.')) or nm in ('id', 'hash'):
                bad.append('line %d: %s' % (x.lineno, nm))
        if isinstance(x, (ast.Global, ast.Nonlocal)):
            bad.append('line %d: %s' % (x.lineno, ast.unparse(x)))
    out.append(Ob('deterministic:analytic.py', 'EoN/analytic.py:(module)', 'determinism', 'refuted' if bad else 'discharged',
                  'scan of the AST for draw sites / global state (all inputs)', 0.0, detail='; '.join(bad[:5]),
                  site='EoN/analytic.py', witness=dict(sites=bad[:10]) if bad else None, engine='E2',
                  replay_note='no draw site and no global state: repeated calls with unmodified arguments return identical results' if not bad else 'draw/global sites found'))
    return out


def run(tier, seed):
    rep = Report('C19', tier, seed)
    obs, aug = frames.obligations()
    for ob in obs:
        rep.add(ob)
    for ob in analytic_is_deterministic():
        rep.add(ob)
    rep.functions.append(dict(file='EoN/simulation.py, EoN/analytic.py, EoN/auxiliary.py', qualname='(every public function x every parameter)'))
    rep.explanation = ('For every public function of the three modules and each of its parameters: no object reachable from the parameter '
                       'is the receiver of a mutating operation, directly or through a callee (summaries to a fixpoint). With the absence '
                       'of draw sites / global state in analytic.py this gives "a second call with the same objects returns identical results".')
    rep.assumptions += ['numpy view/copy table and the list of mutating methods in vlib/effects/frames.py',
                        'library functions not tabulated as mutating (odeint, networkx read API, np.* constructors) do not modify their arguments',
                        'user call-backs do not modify what they are given',
                        'augmented assignment on a bare name that aliases a (numeric) parameter rebinds: ' + '; '.join(sorted(set(aug)))[:600]]
    rep.trusted = ['the frame / may-alias analysis in vlib/effects/frames.py']

    def replayer(ob):
        return None
    return rep, replayer
