"""C19 - calls do not modify their arguments and can be repeated (E2 frame analysis, all inputs)."""
import ast
from ..common import Report, Ob
from ..effects import frames
from ..pyvc.verify import Source


MUTATORS = {'append', 'add', 'update', 'setdefault', 'pop', 'popitem', 'clear', 'extend', 'insert', 'remove', 'discard', 'sort', 'reverse',
            '__setitem__', 'fill', 'resize', 'put', 'appendleft', 'move_to_end', 'cache_clear'}


def module_level_state(tree):
    """writes from inside a function into an object bound at module level (memo tables, registries, counters): such state
    survives a call, so a second call with the same arguments need not return the same result.  Also flags memoising decorators."""
    bad = []
    modnames = set()
    for n in tree.body:
        tg = []
        if isinstance(n, ast.Assign):
            tg = n.targets
        elif isinstance(n, ast.AnnAssign):
            tg = [n.target]
        for t in tg:
            if isinstance(t, ast.Name):
                modnames.add(t.id)

    def fns(body):
        for n in body:
            if isinstance(n, (ast.FunctionDef, ast.AsyncFunctionDef)):
                yield n
            elif isinstance(n, ast.ClassDef):
                for m in fns(n.body):
                    yield m
    for fn in fns(tree.body):
        for d in fn.decorator_list:
            nm = ast.unparse(d.func if isinstance(d, ast.Call) else d)
            if nm.split('.')[-1] in ('lru_cache', 'cache', 'cached_property', 'memoize', 'memoized'):
                bad.append('line %d: %s is memoised by @%s (keyed by object identity / hash, not by content)' % (fn.lineno, fn.name, nm))
        local = {a.arg for a in fn.args.posonlyargs + fn.args.args + fn.args.kwonlyargs}
        if fn.args.vararg:
            local.add(fn.args.vararg.arg)
        if fn.args.kwarg:
            local.add(fn.args.kwarg.arg)
        for x in ast.walk(fn):
            if isinstance(x, ast.Name) and isinstance(x.ctx, ast.Store):
                local.add(x.id)
        glob = set()
        for x in ast.walk(fn):
            if isinstance(x, ast.Global):
                glob |= set(x.names)
        shared = (modnames - local) | glob

        def root(e):
            while isinstance(e, (ast.Subscript, ast.Attribute)):
                e = e.value
            return e.id if isinstance(e, ast.Name) else None
        for x in ast.walk(fn):
            if isinstance(x, (ast.Subscript, ast.Attribute)) and isinstance(x.ctx, (ast.Store, ast.Del)) and root(x.value) in shared:
                bad.append('line %d: %s stores into the module-level object `%s`' % (x.lineno, fn.name, ast.unparse(x)[:50]))
            if isinstance(x, ast.AugAssign) and isinstance(x.target, (ast.Subscript, ast.Attribute)) and root(x.target.value) in shared:
                bad.append('line %d: %s updates the module-level object `%s`' % (x.lineno, fn.name, ast.unparse(x.target)[:50]))
            if isinstance(x, ast.Call) and isinstance(x.func, ast.Attribute) and x.func.attr in MUTATORS and root(x.func.value) in shared:
                bad.append('line %d: %s mutates the module-level object `%s`' % (x.lineno, fn.name, ast.unparse(x.func)[:50]))
    return bad


def analytic_is_deterministic():
    out = []
    src, tree = Source.get('EoN/analytic.py')
    bad = []
    for x in ast.walk(tree):
        if isinstance(x, ast.Call):
            nm = ast.unparse(x.func)
            if nm.startswith(('random.', 'np.random.', 'numpy.random.', 'time.', 'os.')) or nm in ('id', 'hash'):
                bad.append('line %d: %s' % (x.lineno, nm))
        if isinstance(x, (ast.Global, ast.Nonlocal)):
            bad.append('line %d: %s' % (x.lineno, ast.unparse(x)))
    bad += module_level_state(tree)
    out.append(Ob('deterministic:analytic.py', 'EoN/analytic.py:(module)', 'determinism', 'refuted' if bad else 'discharged',
                  'scan of the AST for draw sites / global state (all inputs)', 0.0, detail='; '.join(bad[:5]),
                  site='EoN/analytic.py', witness=dict(sites=bad[:10]) if bad else None, engine='E2',
                  replay_note='no draw site and no global state: repeated calls with unmodified arguments return identical results' if not bad else 'draw/global sites found'))
    return out


def run(tier, seed):
    rep = Report('C19', tier, seed)
    obs, aug = frames.obligations()
    for ob in obs:
        rep.add(ob)
    for ob in analytic_is_deterministic():
        rep.add(ob)
    for ob in frames.rhs_obligations():          # the callers' objects handed to the ODE right-hand sides through `args` are only read
        rep.add(ob)
    for rel in ('EoN/simulation.py', 'EoN/auxiliary.py', 'EoN/__init__.py', 'EoN/simulation_investigation.py'):
        try:
            src, tree = Source.get(rel)
        except Exception:
            continue
        bad = module_level_state(tree)
        rep.add(Ob('no-module-level-state:%s' % rel, '%s:(module)' % rel, 'determinism', 'refuted' if bad else 'discharged',
                   'scan of the AST for writes into module-level objects / memoising decorators (all inputs)', 0.0, detail='; '.join(bad[:5]),
                   site=rel, witness=dict(sites=bad[:10]) if bad else None, engine='E2',
                   replay_note='no function writes into a module-level object' if not bad else 'module-level state found'))
    rep.functions.append(dict(file='EoN/simulation.py, EoN/analytic.py, EoN/auxiliary.py', qualname='(every public function x every parameter)'))
    rep.explanation = ('For every public function of the three modules and each of its parameters: no object reachable from the parameter '
                       'is the receiver of a mutating operation, directly or through a callee (summaries to a fixpoint). With the absence '
                       'of draw sites / global state in analytic.py this gives "a second call with the same objects returns identical results".')
    rep.assumptions += ['numpy view/copy table and the list of mutating methods in vlib/effects/frames.py',
                        'library functions not tabulated as mutating (odeint, networkx read API, np.* constructors) do not modify their arguments',
                        'user call-backs do not modify what they are given',
                        'augmented assignment on a bare name that aliases a (numeric) parameter rebinds: ' + '; '.join(sorted(set(aug)))[:600]]
    rep.trusted = ['the frame / may-alias analysis in vlib/effects/frames.py']

    from ..replay import args_native
    from . import util
    rep.bounded_is_supplementary = True
    rep.add(util.native_ob('native:arguments-unchanged-and-repeatable', 'EoN/*:(public functions)', args_native.check,
                           'about 85 calls of the public simulators, *_from_graph / *_pure_IC wrappers, direct ODE entry points (re-called on the float arrays recorded from '
                           'the wrappers, and with explicit Y0/X0/XY0/XX0/Ks arrays) and helpers on an 8-node weighted graph with an isolated node (and a variant with self-loops): '
                           'every argument object is bit-identical (pickle / array bytes) before and after the call; the ODE and helper functions return identical values when called a second time on the same objects'))
    return rep, util.native_replayer
