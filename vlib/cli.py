"""./check <Cxx> [--tier quick|thorough] [--replay file]"""
import argparse
import importlib
import json
import os
import sys
import traceback


def main():
    ap = argparse.ArgumentParser()
    ap.add_argument('prop')
    ap.add_argument('--tier', default=os.environ.get('VERIF_TIER', 'quick'), choices=['quick', 'thorough'])
    ap.add_argument('--replay', default=None)
    a = ap.parse_args()
    seed = int(os.environ.get('VERIF_SEED', '0') or 0)
    try:
        mod = importlib.import_module('vlib.props.' + a.prop)
    except ModuleNotFoundError:
        print('no check for property %s' % a.prop)
        return 3
    from vlib import common
    if a.replay:
        rp = json.load(open(a.replay))
        f = getattr(mod, 'replay_file', None)
        if f is None:
            print(json.dumps(rp, indent=1)[:4000])
            return 0
        return f(rp)
    try:
        os.environ['VERIF_TIER_RUNNING'] = a.tier
        rep, replayer = mod.run(a.tier, seed)
        return common.finish(rep, replayer)
    except Exception:
        traceback.print_exc()
        print('CHECKER-CRASH property=%s' % a.prop)
        return 3


if __name__ == '__main__':
    sys.exit(main())
