"""Bounded native stand-ins for C10 / C09 (always labelled bounded):
 * Simulation_Investigation.summary / t / S / I / R / node_status / get_statuses against brute-force definitions, on
   every assignment of short histories (exhaustive over a small alphabet of change times and statuses);
 * every simulator, same seeds, both return modes: the population summary computed from the per-node histories equals
   the (t, S, I[, R]) arrays; histories start at tmin, are time-ordered and make legal moves; transmissions are causally
   valid and complete."""
import itertools
import random
import numpy as np
import networkx as nx


def brute_status(history, time):
    times, stats = history
    idx = max(i for i, t in enumerate(times) if t <= time)
    return stats[idx]


def check_investigation_class(max_changes=2, alphabets=((0, 1, 2), (-2, 0, 1))):
    """exhaustive: 3 nodes, histories with <= max_changes changes over each time alphabet (ties included; the second
    alphabet starts before 0 so that the query time 0 / 0.0 is an ordinary interior time)"""
    n = 0
    for alphabet in alphabets:
        k, bad = _check_investigation_class(max_changes, alphabet)
        n += k
        if bad is not None:
            return n, bad
    return n, None


def _check_investigation_class(max_changes, times_alphabet):
    import EoN
    G = nx.path_graph(3)
    statuses = ['S', 'I', 'R']
    tmin = times_alphabet[0]
    queries = sorted(set(times_alphabet) | {a + 0.5 for a in times_alphabet} | {0, times_alphabet[-1] + 1})
    queries += [0.0] if tmin < 0 else []
    single = []
    for k in range(0, max_changes + 1):
        for ts in itertools.combinations_with_replacement(times_alphabet, k):
            for ss in itertools.product(statuses, repeat=k + 1):
                single.append(([tmin] + list(ts), list(ss)))
    n = 0
    rng = random.Random(0)
    combos = list(itertools.product(range(len(single)), repeat=3))
    rng.shuffle(combos)
    for combo in combos[:3000]:
        n += 1
        hist = {u: (list(single[c][0]), list(single[c][1])) for u, c in zip(G.nodes(), combo)}
        sim = EoN.Simulation_Investigation(G, {u: (list(h[0]), list(h[1])) for u, h in hist.items()}, transmissions=[], possible_statuses=statuses)
        for nodelist in (None, [0, 2], [1], 'iterator', 'neighbors', 'set', 'tuple'):
            subset = {'iterator': [2, 0], 'neighbors': [0, 2], 'set': [1, 2], 'tuple': [0, 1]}.get(nodelist, nodelist) if isinstance(nodelist, str) else nodelist
            arg = {'iterator': iter([2, 0]), 'neighbors': G.neighbors(1), 'set': {1, 2}, 'tuple': (0, 1)}.get(nodelist) if isinstance(nodelist, str) else nodelist
            t, D = sim.summary(arg) if nodelist is not None else sim.summary()
            nodes = list(G.nodes()) if nodelist is None else subset
            want_t = sorted({x for u in nodes for x in hist[u][0]})
            if [float(x) for x in t] != [float(x) for x in want_t]:
                return n, dict(histories=hist, nodelist=nodelist, observed='summary times %s, expected %s' % (list(t), want_t))
            for j, tt in enumerate(want_t):
                for s in statuses:
                    want = sum(1 for u in nodes if brute_status(hist[u], tt) == s)
                    if int(D[s][j]) != want:
                        return n, dict(histories=hist, nodelist=nodelist, observed='summary %s at time %s is %s, head count is %s' % (s, tt, D[s][j], want))
        if list(sim.t()) != list(sim.summary()[0]) or any(list(getattr(sim, s)()) != list(sim.summary()[1][s]) for s in statuses):
            return n, dict(histories=hist, observed='t()/S()/I()/R() disagree with summary()')
        for q in queries:
            got = sim.get_statuses(time=q)
            for u in G.nodes():
                want = brute_status(hist[u], q)
                if sim.node_status(u, q) != want or got[u] != want:
                    return n, dict(histories=hist, observed='status of node %s at time %r: node_status=%s get_statuses=%s expected %s' % (
                        u, q, sim.node_status(u, q), got[u], want))
            sub = sim.get_statuses(nodelist=[2, 0], time=q)
            if set(sub) != {0, 2} or any(sub[u] != brute_status(hist[u], q) for u in sub):
                return n, dict(histories=hist, observed='get_statuses(nodelist=[2, 0], time=%r) = %s' % (q, sub))
        if sim.get_statuses()[0] != brute_status(hist[0], tmin):
            return n, dict(histories=hist, observed='get_statuses() default time is not the first time')
    return n, None


LEGAL = {'SIR': {('S', 'I'), ('I', 'R')}, 'SIS': {('S', 'I'), ('I', 'S')}}


def simulators():
    import EoN
    G = nx.Graph()
    G.add_edges_from([(0, 1), (1, 2), (2, 3), (3, 0), (1, 3), (3, 4), (4, 5)])
    G.add_node(6)
    for u, v in G.edges():
        G[u][v]['w'] = 1.0 + (u + v) % 3
    for u in G:
        G.nodes[u]['r'] = 1.0 + u % 2
    KD = nx.complete_graph(5)
    H = nx.DiGraph(); H.add_edge('I', 'R', rate=1.0)
    J = nx.DiGraph(); J.add_edge(('I', 'S'), ('I', 'I'), rate=1.5)
    IC = {u: ('I' if u in (0, 2) else 'S') for u in G}
    def tt(u, v, a): return random.expovariate(a)
    def rt(u, a): return random.expovariate(a)
    def tts(u, v, d, a):
        out = []; t = random.expovariate(a)
        while t < d:
            out.append(t); t += random.expovariate(a)
        return out
    tm = 1.5
    return G, {
        'fast_SIR': ('SIR', tm, lambda fd: EoN.fast_SIR(G, 1.0, 1.0, initial_infecteds=[0, 2], initial_recovereds=[5], tmin=tm, return_full_data=fd)),
        'fast_SIR(weighted)': ('SIR', tm, lambda fd: EoN.fast_SIR(G, 1.0, 1.0, initial_infecteds=[0], tmin=tm, transmission_weight='w', recovery_weight='r', return_full_data=fd)),
        'fast_nonMarkov_SIR': ('SIR', tm, lambda fd: EoN.fast_nonMarkov_SIR(G, trans_time_fxn=tt, rec_time_fxn=rt, trans_time_args=(1.0,), rec_time_args=(1.0,), initial_infecteds=[1], initial_recovereds=[4], tmin=tm, tmax=tm + 4, return_full_data=fd)),
        'fast_nonMarkov_SIR(recovery exactly at tmax)': ('SIR', tm, lambda fd: EoN.fast_nonMarkov_SIR(G, trans_time_fxn=tt, rec_time_fxn=lambda u: 2.0, trans_time_args=(1.0,), initial_infecteds=[1, 3], tmin=tm, tmax=tm + 2.0, return_full_data=fd)),
        'fast_nonMarkov_SIR(fixed period, events at tmax)': ('SIR', 0, lambda fd: EoN.fast_nonMarkov_SIR(G, trans_time_fxn=lambda u, v: 1.0, rec_time_fxn=lambda u: 2.0, initial_infecteds=[0], tmin=0, tmax=3.0, return_full_data=fd)),
        'fast_SIS(dense graph, high transmission rate)': ('SIS', 0, lambda fd: EoN.fast_SIS(KD, 3.0, 1.0, initial_infecteds=[0, 1], tmin=0, tmax=4, return_full_data=fd), KD),
        'Gillespie_SIS(dense graph, high transmission rate)': ('SIS', 0, lambda fd: EoN.Gillespie_SIS(KD, 3.0, 1.0, initial_infecteds=[0, 1], tmin=0, tmax=4, return_full_data=fd), KD),
        'fast_SIS(negative tmin)': ('SIS', -6, lambda fd: EoN.fast_SIS(G, 1.0, 1.0, initial_infecteds=[0, 2], tmin=-6, tmax=-3, return_full_data=fd)),
        'Gillespie_SIR': ('SIR', tm, lambda fd: EoN.Gillespie_SIR(G, 1.0, 1.0, initial_infecteds=[0, 2], initial_recovereds=[5], tmin=tm, return_full_data=fd)),
        'Gillespie_SIR(recovered nodes next to the seeds)': ('SIR', tm, lambda fd: EoN.Gillespie_SIR(G, 2.0, 0.5, initial_infecteds=[0, 2], initial_recovereds=[1, 4], tmin=tm, return_full_data=fd)),
        'fast_SIR(recovered nodes next to the seeds)': ('SIR', tm, lambda fd: EoN.fast_SIR(G, 2.0, 0.5, initial_infecteds=[0, 2], initial_recovereds=[1, 4], tmin=tm, return_full_data=fd)),
        'discrete_SIR(horizon not a whole number of steps)': ('SIR', 2, lambda fd: EoN.discrete_SIR(G, test_transmission=lambda u, v: True, initial_infecteds=[0], tmin=2, tmax=4.5, return_full_data=fd)),
        'basic_discrete_SIS(p=1, horizon not a whole number of steps)': ('SIS', 1, lambda fd: EoN.basic_discrete_SIS(G, 1.0, initial_infecteds=[0, 4], tmin=1, tmax=3.5, return_full_data=fd)),
        'discrete_SIR(recovery rule keeps nodes infectious for 3 steps)': ('SIR', 2, lambda fd: (lambda calls: EoN.discrete_SIR(
            G, test_transmission=lambda u, v: (u + v) % 2 == 1, test_recovery=lambda u: calls.__setitem__(u, calls.get(u, 0) + 1) or calls[u] >= 3,
            initial_infecteds=[0, 3], tmin=2, return_full_data=fd))({})),
        'discrete_SIR(recovered node next to the seed)': ('SIR', 2, lambda fd: EoN.discrete_SIR(G, test_transmission=lambda u, v: True, initial_infecteds=[0], initial_recovereds=[1], tmin=2, return_full_data=fd)),
        'Gillespie_SIR(weighted)': ('SIR', tm, lambda fd: EoN.Gillespie_SIR(G, 1.0, 1.0, rho=0.3, tmin=tm, transmission_weight='w', recovery_weight='r', return_full_data=fd)),
        'fast_SIS': ('SIS', tm, lambda fd: EoN.fast_SIS(G, 1.0, 1.0, initial_infecteds=[0, 2], tmin=tm, tmax=tm + 3, return_full_data=fd)),
        'fast_nonMarkov_SIS': ('SIS', tm, lambda fd: EoN.fast_nonMarkov_SIS(G, trans_time_fxn=tts, rec_time_fxn=rt, trans_time_args=(1.0,), rec_time_args=(1.0,), initial_infecteds=[1], tmin=tm, tmax=tm + 3, return_full_data=fd)),
        'Gillespie_SIS': ('SIS', tm, lambda fd: EoN.Gillespie_SIS(G, 1.0, 1.0, initial_infecteds=[0, 2], tmin=tm, tmax=tm + 3, return_full_data=fd)),
        'Gillespie_simple_contagion': ('SIR', tm, lambda fd: EoN.Gillespie_simple_contagion(G, H, J, IC, ['S', 'I', 'R'], tmin=tm, tmax=tm + 5, return_full_data=fd)),
        'discrete_SIR(deterministic rule)': ('SIR', 2, lambda fd: EoN.discrete_SIR(G, test_transmission=lambda u, v: (u + v) % 3 != 0, initial_infecteds=[0], initial_recovereds=[5], tmin=2, return_full_data=fd)),
    }


def check_modes_agree(seeds=(1, 2, 3), sis_seeds=(1, 2, 3, 4, 5, 6, 7, 8, 9, 10, 11, 12)):
    """plain arrays == summary of the full-data object (same seeds); histories well-formed; transmissions valid"""
    G0, sims = simulators()
    n = 0
    for name, cfg in sims.items():
        kind, tmin, f = cfg[:3]
        G = cfg[3] if len(cfg) > 3 else G0
        for seed in (sis_seeds if kind == 'SIS' else seeds):
            n += 1
            random.seed(seed); np.random.seed(seed)
            plain = f(False)
            random.seed(seed); np.random.seed(seed)
            full = f(True)
            t, D = full.summary()
            keys = ['S', 'I', 'R'] if len(plain) == 4 else ['S', 'I']
            # the summary merges equal times: compare after merging the plain arrays the same way
            pt = [float(x) for x in plain[0]]
            rows = {}
            for i, x in enumerate(pt):
                rows[x] = [int(plain[1 + k][i]) for k in range(len(keys))]
            st = sorted(rows)
            if [float(x) for x in t] != st:
                return n, dict(simulator=name, seed=seed, observed='summary times %s differ from array times %s' % (list(t)[:6], st[:6]))
            for j, x in enumerate(st):
                got = [int(D[k][j]) for k in keys]
                if got != rows[x]:
                    return n, dict(simulator=name, seed=seed, observed='at time %s summary gives %s, arrays give %s' % (x, got, rows[x]))
            # histories
            inf_time = {}
            for u in G:
                ht, hs = full.node_history(u)
                if len(ht) != len(hs) or len(ht) < 1 or float(ht[0]) != float(tmin):
                    return n, dict(simulator=name, seed=seed, observed='history of %s does not start at tmin: %s' % (u, (ht, hs)))
                if any(ht[i] > ht[i + 1] for i in range(len(ht) - 1)):
                    return n, dict(simulator=name, seed=seed, observed='history of %s not time-ordered: %s' % (u, ht))
                for a, b in zip(hs[:-1], hs[1:]):
                    if (a, b) not in LEGAL[kind]:
                        return n, dict(simulator=name, seed=seed, observed='illegal move %s->%s in the history of %s' % (a, b, u))
            # transmissions
            try:
                trans = full.transmissions()
            except Exception as e:
                return n, dict(simulator=name, seed=seed, observed='transmissions(): %s: %s' % (type(e).__name__, e))
            last = None
            infections = 0
            for (tt_, src, tgt) in trans:
                if last is not None and tt_ < last:
                    return n, dict(simulator=name, seed=seed, observed='transmissions not time-ordered')
                last = tt_
                if src is None:
                    continue
                infections += 1
                if not G.has_edge(src, tgt):
                    return n, dict(simulator=name, seed=seed, observed='transmission %s along a non-edge' % ((tt_, src, tgt),))
                step = 1 if 'discrete' in name else 0
                if full.node_status(src, tt_) != 'I' and not (step and full.node_status(src, tt_) == 'I'):
                    return n, dict(simulator=name, seed=seed, observed='source %s is %s at time %s' % (src, full.node_status(src, tt_), tt_))
                ht, hs = full.node_history(tgt)
                when = tt_ + step
                ok = any(float(ht[i]) == float(when) and hs[i] == 'I' and i > 0 and hs[i - 1] == 'S' for i in range(len(ht)))
                if not ok:
                    return n, dict(simulator=name, seed=seed, observed='target %s does not turn S->I at time %s: %s' % (tgt, when, (ht, hs)))
            total_inf = sum(1 for u in G for i, s in enumerate(full.node_history(u)[1]) if s == 'I' and i > 0)
            if total_inf != infections:
                return n, dict(simulator=name, seed=seed, observed='%d infections after tmin but %d sourced transmission entries' % (total_inf, infections))
            if kind == 'SIR':
                tgts = [tg for (_, s_, tg) in trans]
                if len(tgts) != len(set(tgts)):
                    return n, dict(simulator=name, seed=seed, observed='a node is the target of two transmissions (not a forest)')
                tree = full.transmission_tree()
                if tree.number_of_edges() != infections or any(d > 1 for _, d in tree.in_degree()):
                    return n, dict(simulator=name, seed=seed, observed='transmission_tree is not a forest with one edge per sourced entry')
    return n, None


def check_simple_contagion_transmissions(seeds=(1, 2, 3)):
    """Gillespie_simple_contagion, every model of the C03 catalogue (incl. a rule whose inducing status equals the status
    acted on), directed and undirected graph: every entry (t, u, v) goes along an edge u->v, v changes a2->b2 at t and u
    has, at t, a status a1 with ((a1,a2)->(a1,b2)) an induced transition of the specification; every status change
    without an entry is a legal spontaneous transition; entries are time-ordered, at most one per change."""
    import EoN
    from . import sim_native
    n = 0
    graphs = []
    G = nx.Graph(); G.add_edges_from([(0, 1), (1, 2), (2, 0), (2, 3), (4, 5)]); graphs.append(('undirected', G))
    D = nx.DiGraph(); D.add_edges_from([(0, 1), (1, 2), (2, 0), (3, 2), (1, 3), (4, 5), (5, 4), (1, 0), (2, 3)]); graphs.append(('directed (with reciprocal pairs)', D))
    for _, g in graphs:
        for u, v in g.edges():
            g[u][v]['ew'] = 1.0 + ((u + 2 * v) % 3) * 0.5
        for u in g:
            g.nodes[u]['nw'] = 1.0 + (u % 2) * 0.5
    rng = random.Random(9)
    for gname, Gx in graphs:
        for sname, H, J, statuses in sim_native.c03_specs():
            for seed in seeds:
                n += 1
                IC = {u: rng.choice(statuses) for u in Gx}
                random.seed(seed); np.random.seed(seed)
                wit = dict(graph=gname, edges=list(Gx.edges()), model=sname, IC=dict(IC), seed=seed, tmax=6)
                try:
                    sim = EoN.Gillespie_simple_contagion(Gx, H, J, dict(IC), statuses, tmax=6, return_full_data=True)
                    trans = sim.transmissions()
                except Exception as e:
                    wit['observed'] = '%s: %s' % (type(e).__name__, e)
                    return n, wit
                changes = {}
                for u in Gx:
                    ht, hs = sim.node_history(u)
                    for i in range(1, len(ht)):
                        changes[(float(ht[i]), u)] = (hs[i - 1], hs[i])
                used = set()
                last = None
                for (t, src, tgt) in trans:
                    if last is not None and t < last:
                        wit['observed'] = 'transmissions not time-ordered at %s' % (t,)
                        return n, wit
                    last = t
                    key = (float(t), tgt)
                    if not Gx.has_edge(src, tgt):
                        wit['observed'] = 'entry %s does not go along an edge' % ((t, src, tgt),)
                        return n, wit
                    if key not in changes or key in used:
                        wit['observed'] = 'entry %s: the target does not change status at that time (or two entries for one change)' % ((t, src, tgt),)
                        return n, wit
                    used.add(key)
                    a2, b2 = changes[key]
                    a1 = sim.node_status(src, t) if (float(t), src) not in changes else changes[(float(t), src)][0]
                    if not J.has_edge((a1, a2), (a1, b2)):
                        wit['observed'] = 'entry %s: source has status %s, target moves %s->%s: not an induced transition of the specification' % ((t, src, tgt), a1, a2, b2)
                        return n, wit
                for key, (a, b) in changes.items():
                    if key not in used and not H.has_edge(a, b):
                        wit['observed'] = 'node %s moves %s->%s at %s without a recorded inducer, but that is not a spontaneous transition' % (key[1], a, b, key[0])
                        return n, wit
    return n, None
