"""Bounded native stand-in for the tree-exactness clause of C08 (labelled bounded): SIR_pair_based_pure_IC against
the exact expectation of S, I, R from the 3^N-state master equation (matrix exponential), on small trees with every
single seed, some multiple seeds / initially recovered nodes, with and without edge and node weights, tmin != 0."""
import itertools
import numpy as np
import networkx as nx


def master_equation_SIR(G, rate_uv, rate_u, infected, recovered, times):
    from scipy.linalg import expm
    nodes = list(G.nodes())
    n = len(nodes)
    idx = {u: i for i, u in enumerate(nodes)}
    states = list(itertools.product((0, 1, 2), repeat=n))           # 0 S, 1 I, 2 R
    sid = {s: k for k, s in enumerate(states)}
    Q = np.zeros((len(states), len(states)))
    for s in states:
        k = sid[s]
        for u in nodes:
            i = idx[u]
            if s[i] == 1:
                s2 = s[:i] + (2,) + s[i + 1:]
                Q[k, sid[s2]] += rate_u(u)
            elif s[i] == 0:
                r = sum(rate_uv(v, u) for v in G.neighbors(u) if s[idx[v]] == 1)
                if r:
                    s2 = s[:i] + (1,) + s[i + 1:]
                    Q[k, sid[s2]] += r
        Q[k, k] = -Q[k].sum()
    s0 = tuple(1 if u in infected else (2 if u in recovered else 0) for u in nodes)
    p0 = np.zeros(len(states)); p0[sid[s0]] = 1.0
    cnt = np.array([[s.count(c) for c in (0, 1, 2)] for s in states], dtype=float)
    out = []
    for t in times:
        p = p0 @ expm(Q * (t - times[0]))
        out.append(p @ cnt)
    return np.array(out)


def trees(tier):
    ts = [('path P4', nx.path_graph(4))]
    T = nx.Graph(); T.add_edges_from([(0, 1), (0, 2), (0, 3), (3, 4)]); ts.append(('spider', T))
    if tier != 'quick':
        ts.append(('star K1,4', nx.star_graph(4)))
        T = nx.Graph(); T.add_edges_from([('a', 'b'), ('b', 'c'), ('b', 'd'), ('d', 'e'), ('d', 'f')]); ts.append(('caterpillar with string labels', T))
    return ts


def check(tier='quick', tol=2e-4):
    import EoN
    n = 0
    tau, gamma = 0.9, 0.6
    for tname, T in trees(tier):
        nodes = list(T.nodes())
        for j, (u, v) in enumerate(T.edges()):
            T[u][v]['tw'] = 0.5 + 0.75 * ((j * 2 + 1) % 3)
            T[u][v]['weight'] = T[u][v]['tw']      # the same weights also under networkx's default attribute name 'weight'
        for j, u in enumerate(nodes):
            T.nodes[u]['rw'] = 0.6 + 0.5 * (j % 3)
        seeds = [([u], []) for u in nodes] + [([nodes[0], nodes[-1]], []), ([nodes[1]], [nodes[0]])]
        for weighted in ('none', 'edges', 'nodes', 'both', 'edges (attribute named weight)'):
            kw = {}
            if weighted in ('edges', 'both'):
                kw['transmission_weight'] = 'tw'
            if weighted == 'edges (attribute named weight)':
                kw['transmission_weight'] = 'weight'
            if weighted in ('nodes', 'both'):
                kw['recovery_weight'] = 'rw'
            ruv = (lambda a, b: tau * T[a][b]['tw']) if 'transmission_weight' in kw else (lambda a, b: tau)
            ru = (lambda a: gamma * T.nodes[a]['rw']) if 'recovery_weight' in kw else (lambda a: gamma)
            for inf, rec in seeds:
                n += 1
                tmin, tmax, tcount = 0.5, 3.5, 4
                wit = dict(tree=tname, edges=[(str(a), str(b), T[a][b]['tw']) for a, b in T.edges()], node_weights={str(u): T.nodes[u]['rw'] for u in nodes},
                           weights_used=weighted, initial_infecteds=[str(x) for x in inf], initial_recovereds=[str(x) for x in rec], tau=tau, gamma=gamma, tmin=tmin, tmax=tmax, tcount=tcount)
                # the order in which the caller lists the nodes (nodelist) is irrelevant: default, reversed, rotated
                order = [None, nodes[::-1], nodes[2:] + nodes[:2]][n % 3]
                if order is not None:
                    kw = dict(kw, nodelist=order)
                    wit['nodelist'] = [str(x) for x in order]
                try:
                    t, S, I, R = EoN.SIR_pair_based_pure_IC(T, tau, gamma, inf, initial_recovereds=rec or None, tmin=tmin, tmax=tmax, tcount=tcount, **kw)
                except Exception as e:
                    wit['observed'] = '%s: %s' % (type(e).__name__, e)
                    return n, wit
                want = master_equation_SIR(T, ruv, ru, set(inf), set(rec), list(t))
                got = np.array([S, I, R], dtype=float).T
                err = np.abs(got - want).max()
                if not (err <= tol):
                    i, c = np.unravel_index(np.abs(got - want).argmax(), got.shape)
                    wit['observed'] = '%s(t=%s) = %.6f from SIR_pair_based_pure_IC, the master equation gives %.6f (max deviation %.2e, tolerance %.0e)' % (
                        'SIR'[c], t[i], got[i, c], want[i, c], err, tol)
                    return n, wit
    # the same graph OBJECT re-weighted in place between two calls: the second call must see the new weights
    T = nx.path_graph(4)
    for j, (u, v) in enumerate(T.edges()):
        T[u][v]['tw'] = 1.0 + 0.5 * j
    for rnd in range(2):
        n += 1
        t, S, I, R = EoN.SIR_pair_based_pure_IC(T, tau, gamma, [0], tmin=0.0, tmax=2.0, tcount=3, transmission_weight='tw')
        want = master_equation_SIR(T, lambda a, b: tau * T[a][b]['tw'], lambda a: gamma, {0}, set(), list(t))
        err = np.abs(np.array([S, I, R], dtype=float).T - want).max()
        if not (err <= tol):
            return n, dict(tree='path P4, one graph object used twice', call=rnd + 1, edge_weights=[T[a][b]['tw'] for a, b in T.edges()],
                           observed='call %d on the same graph object (weights changed in place before it): max deviation from the master equation %.3e' % (rnd + 1, err))
        for j, (u, v) in enumerate(T.edges()):
            T[u][v]['tw'] = 3.0 - 1.25 * j if j < 2 else 0.0
    return n, None
