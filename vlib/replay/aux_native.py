"""native replay for the auxiliary.py contracts: the real subsample / get_time_shift against the property sentence"""
import itertools


def oracle_subsample(rt, times, st):
    out = []
    for r in rt:
        idx = max(i for i, t in enumerate(times) if t <= r)
        out.append(st[idx])
    return out


def replayer(ob):
    import EoN
    import numpy as np
    vals = [0, 1, 2]
    if 'subsample' in ob.id:
        tried = 0
        for n in (1, 2, 3):
            for times in itertools.combinations_with_replacement(vals, n):
                for m in (1, 2, 3):
                    for rt in itertools.combinations_with_replacement(vals, m):
                        if rt[0] < times[0]:
                            continue
                        s1 = [10 + i for i in range(n)]
                        s2 = [20 + i for i in range(n)]
                        s3 = [30 + i for i in range(n)]
                        tried += 1
                        try:
                            r1 = list(EoN.subsample(list(rt), list(times), s1))
                            r2 = [list(x) for x in EoN.subsample(list(rt), list(times), s1, s2)]
                            r3 = [list(x) for x in EoN.subsample(list(rt), list(times), s1, s2, s3)]
                        except Exception as e:
                            return dict(failure_exhibited=True, input=dict(report_times=rt, times=times), observed='%s: %s' % (type(e).__name__, e))
                        want = [oracle_subsample(rt, times, s) for s in (s1, s2, s3)]
                        if r1 != want[0] or r2 != want[:2] or r3 != want:
                            return dict(failure_exhibited=True, how='native run vs the property sentence',
                                        input=dict(report_times=rt, times=times, status1=s1, status2=s2, status3=s3),
                                        observed=dict(one=r1, two=r2, three=r3), expected=want)
        return dict(failure_exhibited=False, how='exhaustive native search over times/report_times in {0,1,2}^<=3', tried=tried)
    if 'get_time_shift' in ob.id:
        for n in (1, 2, 3):
            for L in itertools.product(vals, repeat=n):
                for thr in (0, 1, 2):
                    times = [5 + i for i in range(n)]
                    got = EoN.get_time_shift(times, list(L), thr)
                    idx = [i for i in range(n) if L[i] >= thr]
                    want = times[idx[0]] if idx else times[-1]
                    if got != want:
                        return dict(failure_exhibited=True, input=dict(times=times, L=L, threshold=thr), observed=got, expected=want)
        return dict(failure_exhibited=False, how='exhaustive native search')
    if 'get_Pk' in ob.id or 'estimate_R0' in ob.id:
        from . import native_small
        import networkx as nx
        for G in native_small.all_graphs(4):
            if G.number_of_edges() == 0:
                continue
            Pk = EoN.get_Pk(G)
            deg = [d for _, d in G.degree()]
            for k in set(deg):
                if abs(Pk.get(k, 0) * G.order() - deg.count(k)) > 1e-9:
                    return dict(failure_exhibited=True, input=sorted(G.edges()), observed=Pk)
            if set(Pk) != set(deg):
                return dict(failure_exhibited=True, input=sorted(G.edges()), observed=Pk)
            k1 = sum(deg) / len(deg)
            k2 = sum(d * (d - 1) for d in deg) / len(deg)
            for tau, gamma in ((1.0, 1.0), (0.5, 2.0)):
                want = tau / (tau + gamma) * k2 / k1
                got = EoN.estimate_R0(G, tau=tau, gamma=gamma)
                if abs(got - want) > 1e-9:
                    return dict(failure_exhibited=True, input=dict(edges=sorted(G.edges()), tau=tau, gamma=gamma), observed=got, expected=want)
        return dict(failure_exhibited=False, how='native search over graphs <= 4 nodes')
    return None
