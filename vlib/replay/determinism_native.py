"""Bounded native stand-in for C18 (labelled bounded): the continuous-time simulators are run with fixed seeds on a
small graph with STRING node names under several PYTHONHASHSEED values (separate interpreter processes), twice per
process, with and without return_full_data; outputs must be byte-identical across processes and repetitions, and
the full-data summary must equal the plain arrays."""
import json
import os
import subprocess
import sys

CHILD = r'''
import sys, json, random, collections
import numpy as np, networkx as nx
import EoN
names = ['n%d' % i for i in range(7)]
G = nx.Graph()
G.add_nodes_from(names)
G.add_edges_from([(names[i], names[j]) for i, j in [(0,1),(1,2),(2,3),(3,4),(4,5),(5,6),(6,0),(0,3),(1,5)]])
for u, v in G.edges():
    G[u][v]['w'] = 1.0 + (len(u) + int(u[1:]) + int(v[1:])) % 3
for u in G:
    G.nodes[u]['r'] = 1.0 + int(u[1:]) % 2
H = nx.DiGraph(); H.add_edge('Inf', 'Rec', rate=1.0)
J = nx.DiGraph(); J.add_edge(('Inf', 'Sus'), ('Inf', 'Inf'), rate=1.5)
IC = collections.defaultdict(lambda: 'Sus'); IC['n0'] = 'Inf'; IC['n3'] = 'Inf'
def rate_fn(G, node, status, parameters):
    if status[node] == 'Sus':
        return 0.7 * sum(1 for nbr in G.neighbors(node) if status[nbr] == 'Inf')
    return 1.0 if status[node] == 'Inf' else 0.0
def choice(G, node, status, parameters):
    return 'Inf' if status[node] == 'Sus' else 'Rec'
def infl(G, node, status, parameters):
    return list(G.neighbors(node))
def tt(u, v, a): return random.expovariate(a)
def rt(u, a): return random.expovariate(a)
def tts(u, v, d, a):
    out = []; t = random.expovariate(a)
    while t < d:
        out.append(t); t += random.expovariate(a)
    return out
runs = {
 'fast_SIR': lambda fd: EoN.fast_SIR(G, 1.0, 1.0, initial_infecteds=['n0', 'n3'], return_full_data=fd),
 'fast_SIR_weighted': lambda fd: EoN.fast_SIR(G, 1.0, 1.0, initial_infecteds=['n0'], transmission_weight='w', recovery_weight='r', return_full_data=fd),
 'fast_nonMarkov_SIR': lambda fd: EoN.fast_nonMarkov_SIR(G, trans_time_fxn=tt, rec_time_fxn=rt, trans_time_args=(1.0,), rec_time_args=(1.0,), initial_infecteds=['n1'], return_full_data=fd),
 'fast_SIR_with_initial_recovereds': lambda fd: EoN.fast_SIR(G, 1.0, 1.0, initial_infecteds=['n0', 'n3', 'n2'], initial_recovereds=['n5'], return_full_data=fd),
 'fast_nonMarkov_SIR_with_initial_recovereds': lambda fd: EoN.fast_nonMarkov_SIR(G, trans_time_fxn=tt, rec_time_fxn=rt, trans_time_args=(1.0,), rec_time_args=(1.0,), initial_infecteds=['n1', 'n4', 'n0'], initial_recovereds=[], return_full_data=fd),
 'Gillespie_SIR_with_initial_recovereds': lambda fd: EoN.Gillespie_SIR(G, 1.0, 1.0, initial_infecteds=['n0', 'n3', 'n2'], initial_recovereds=['n5'], return_full_data=fd),
 'fast_SIS': lambda fd: EoN.fast_SIS(G, 1.0, 1.0, initial_infecteds=['n0', 'n3'], tmax=3, return_full_data=fd),
 'fast_nonMarkov_SIS': lambda fd: EoN.fast_nonMarkov_SIS(G, trans_time_fxn=tts, rec_time_fxn=rt, trans_time_args=(1.0,), rec_time_args=(1.0,), initial_infecteds=['n1'], tmax=3, return_full_data=fd),
 'Gillespie_SIR': lambda fd: EoN.Gillespie_SIR(G, 1.0, 1.0, initial_infecteds=['n0', 'n3'], return_full_data=fd),
 'Gillespie_SIR_weighted': lambda fd: EoN.Gillespie_SIR(G, 1.0, 1.0, rho=0.3, transmission_weight='w', recovery_weight='r', return_full_data=fd),
 'Gillespie_SIS': lambda fd: EoN.Gillespie_SIS(G, 1.0, 1.0, initial_infecteds=['n0', 'n3'], tmax=3, return_full_data=fd),
 'Gillespie_simple_contagion': lambda fd: EoN.Gillespie_simple_contagion(G, H, J, IC, ['Sus', 'Inf', 'Rec'], tmax=5, return_full_data=fd),
 'Gillespie_complex_contagion': lambda fd: EoN.Gillespie_complex_contagion(G, rate_fn, choice, infl, IC, ['Sus', 'Inf', 'Rec'], tmax=5, return_full_data=fd),
}
out = {}
for name, f in runs.items():
    res = []
    for rep in range(2):
        for fd in (False, True):
            random.seed(12345); np.random.seed(678)
            r = f(fd)
            if fd:
                t, D = r.summary()
                keys = sorted(D.keys())
                res.append(['full', [float(x) for x in t], [[int(x) for x in D[k]] for k in keys], keys,
                            sorted((k, [float(a) for a in r.node_history(k)[0]], list(r.node_history(k)[1])) for k in G)])
            else:
                res.append(['plain', [[float(x) for x in arr] for arr in r]])
    out[name] = res
print(json.dumps(out))
'''


def run(hashseeds=(0, 1, 2), repo=None):
    repo = repo or os.environ.get('VERIF_REPO', '/repo')
    outs = {}
    for hs in hashseeds:
        env = dict(os.environ, PYTHONHASHSEED=str(hs), PYTHONPATH=repo, PYTHONDONTWRITEBYTECODE='1', MPLBACKEND='Agg')
        r = subprocess.run([sys.executable, '-W', 'ignore', '-c', CHILD], env=env, capture_output=True, text=True, timeout=600)
        if r.returncode != 0:
            return dict(problem='child failed under PYTHONHASHSEED=%s: %s' % (hs, r.stderr[-600:]))
        outs[hs] = json.loads(r.stdout.strip().splitlines()[-1])
    problems = []
    base = outs[hashseeds[0]]
    for name, res in base.items():
        # repetitions in one process
        if res[0] != res[2] or res[1] != res[3]:
            problems.append('%s: two calls with the same seeds differ within one process' % name)
        # plain arrays vs full-data summary (same draws)
        plain, full = res[0], res[1]
        if name != 'Gillespie_complex_contagion_skip':
            pt = plain[1][0]
            ft = full[1]
            if pt != ft:
                problems.append('%s: times differ between return modes (%d vs %d rows)' % (name, len(pt), len(ft)))
        for hs in hashseeds[1:]:
            if outs[hs][name] != res:
                problems.append('%s: output differs between PYTHONHASHSEED=%s and %s' % (name, hashseeds[0], hs))
    return dict(problem='; '.join(problems) if problems else None, simulators=sorted(base), hashseeds=list(hashseeds))


if __name__ == '__main__':
    print(run())
