"""E5 replay for the _ListDict_ contracts: the REAL class (imported from the tree under verification) is
driven through short operation sequences (exhaustive to depth 3 over 3 items and weights {0,1,2}, then
random deeper ones) and compared with an independent model (a plain dict).  A scripted random source
records the accept test of choose_random."""
import importlib
import itertools
import random as pyrandom
import sys
import os


def _load():
    import EoN.simulation as sim
    return importlib.reload(sim) if False else sim


class Script:
    """replacement for the `random` module inside EoN.simulation during one call"""

    def __init__(self, choices, us):
        self.choices, self.us, self.log = list(choices), list(us), []

    def choice(self, seq):
        i = self.choices.pop(0) % len(seq)
        self.log.append(('choice', list(seq), i))
        return seq[i]

    def random(self):
        u = self.us.pop(0)
        self.log.append(('random', u))
        return u


def check_state(ld, model, weighted):
    problems = []
    if set(ld.items) != set(model) or len(ld.items) != len(set(ld.items)):
        problems.append('items %r != model keys %r' % (ld.items, sorted(model)))
    for i, it in enumerate(ld.items):
        if ld.item_to_position.get(it) != i:
            problems.append('item_to_position[%r]=%r but items[%d]=%r' % (it, ld.item_to_position.get(it), i, it))
    if set(ld.item_to_position) != set(ld.items):
        problems.append('position map keys %r != items %r' % (sorted(ld.item_to_position), ld.items))
    if weighted:
        for k, w in model.items():
            if ld.weight.get(k, 0) != w:
                problems.append('weight[%r]=%r, expected %r' % (k, ld.weight.get(k, 0), w))
            if w > ld.max_weight:
                problems.append('weight[%r]=%r exceeds max_weight=%r' % (k, w, ld.max_weight))
        if abs(ld.total_weight() - sum(model.values())) > 1e-9:
            problems.append('total_weight()=%r, expected %r' % (ld.total_weight(), sum(model.values())))
    else:
        if ld.total_weight() != len(model):
            problems.append('total_weight()=%r, expected %r' % (ld.total_weight(), len(model)))
    return problems


def apply(ld, model, op, weighted):
    kind, k, w = op
    if kind == 'insert':
        if weighted:
            ld.insert(k, weight=w)
            model.pop(k, None)
            if w != 0:
                model[k] = w
        else:
            ld.insert(k)
            model[k] = 1
    elif kind == 'update':
        if weighted:
            ld.update(k, weight_increment=w)
            model[k] = model.get(k, 0) + w
        else:
            ld.update(k)
            model[k] = 1
    elif kind == 'remove':
        if k in model:
            ld.remove(k)
            del model[k]


def check_choose(sim, ld, model, weighted):
    """accept test threshold must be proportional to the weight; proposals uniform over the items"""
    problems = []
    if not model or (weighted and sum(model.values()) <= 0):
        return problems
    old = sim.random
    try:
        n = len(ld.items)
        for i in range(n):
            for u in (0.0, 0.25, 0.5, 0.75, 0.999999):
                sc = Script([i] + list(range(i + 1, i + 1 + 50)), [u] + [0.0] * 50)
                sim.random = sc
                try:
                    got = ld.choose_random()
                except Exception as e:
                    problems.append('choose_random raised %s: %s' % (type(e).__name__, e))
                    return problems
                first = sc.log[0]
                if first[0] != 'choice' or sorted(map(repr, first[1])) != sorted(map(repr, ld.items)):
                    problems.append('proposal not over the current candidate list: %r' % (first,))
                    return problems
                cand = ld.items[i]
                if weighted:
                    if model.get(got, 0) <= 0:
                        problems.append('selected candidate %r has weight %r' % (got, model.get(got, 0)))
                    M = max(model.values())
                    T = sum(model.values())
                    accepted = (got == cand and len(sc.log) == 2)
                    ok = [accepted == (u < model[cand] / D) for D in (M, T)]
                    if len(sc.log) >= 2 and sc.log[1][0] == 'random':
                        # acceptance decision for this (candidate, u) must match weight/D for D=max or D=total
                        pass
                    if not any(ok) and not (got == cand and model[cand] > 0 and u < model[cand] / M and len(sc.log) > 2):
                        problems.append('accept test for candidate %r (weight %r, max %r, total %r) with u=%r gave accepted=%r'
                                        % (cand, model[cand], M, T, u, accepted))
                        return problems
                if got not in model:
                    problems.append('selected %r which is not a candidate' % (got,))
    finally:
        sim.random = old
    return problems


def search(weighted, seed=0, budget_random=4000):
    sim = _load()
    keys = ['a', 'b', 'c']
    ws = [0, 1, 2] if weighted else [None]
    ops = [('insert', k, w) for k in keys for w in ws] + [('update', k, w) for k in keys for w in ws] + [('remove', k, None) for k in keys]
    rng = pyrandom.Random(seed)

    def run_seq(seq):
        ld = sim._ListDict_(weighted=weighted)
        model = {}
        for j, op in enumerate(seq):
            try:
                apply(ld, model, op, weighted)
            except Exception as e:
                return dict(sequence=seq[:j + 1], observed='%s: %s' % (type(e).__name__, e))
            pr = check_state(ld, model, weighted)
            if pr:
                return dict(sequence=seq[:j + 1], observed=pr[:3])
        pr = check_choose(sim, ld, model, weighted)
        if pr:
            return dict(sequence=list(seq) + [('choose_random',)], observed=pr[:3])
        return None
    n = 0
    for depth in (1, 2, 3):
        for seq in itertools.product(ops, repeat=depth):
            n += 1
            r = run_seq(list(seq))
            if r:
                r['tried'] = n
                return r
    for _ in range(budget_random):
        n += 1
        seq = [rng.choice(ops) for _ in range(rng.randint(4, 9))]
        r = run_seq(seq)
        if r:
            r['tried'] = n
            return r
    return dict(tried=n, observed=None)


def replayer(ob):
    weighted = '[weighted' in ob.id
    r = search(weighted)
    if r.get('observed'):
        return dict(failure_exhibited=True, how='native run of the real _ListDict_ against an independent dict model',
                    weighted=weighted, input=r['sequence'], observed=r['observed'], sequences_tried=r['tried'])
    return dict(failure_exhibited=False, how='native search (exhaustive depth<=3, random deeper) found no failing sequence',
                weighted=weighted, sequences_tried=r['tried'])
