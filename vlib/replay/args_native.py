"""Bounded native backup for C19 (labelled bounded): public functions are called on representative arguments; every argument object
must be bit-identical afterwards (pickle of the object before == after; numpy arrays: bytes, shape, dtype), and for the deterministic
(analytic) functions a second call with the very same objects returns the same values.  The direct ODE entry points get the arguments
their *_from_graph wrappers hand them (recorded), so array-valued initial conditions (reshaped in place? degree arrays?) are covered."""
import inspect
import pickle
import random
import numpy as np
import networkx as nx


def _snap(x):
    if isinstance(x, np.ndarray):
        return ('nd', x.shape, str(x.dtype), x.tobytes())
    if isinstance(x, (nx.Graph, nx.DiGraph)):
        return ('g', type(x).__name__, pickle.dumps((list(x.nodes(data=True)), list(x.edges(data=True)), dict(x.graph))))
    if callable(x) and not isinstance(x, type):
        return ('fn', id(x))
    try:
        return ('p', pickle.dumps(x))
    except Exception:
        return ('r', repr(x))


def _same_result(a, b):
    try:
        if isinstance(a, (tuple, list)) and isinstance(b, (tuple, list)):
            return len(a) == len(b) and all(_same_result(x, y) for x, y in zip(a, b))
        if isinstance(a, dict) and isinstance(b, dict):
            return a.keys() == b.keys() and all(_same_result(a[k], b[k]) for k in a)
        if isinstance(a, (nx.Graph, nx.DiGraph)):
            return _snap(a) == _snap(b)
        return bool(np.array_equal(np.asarray(a, dtype=float), np.asarray(b, dtype=float), equal_nan=True))
    except Exception:
        return True          # objects we cannot compare (full-data objects of simulators) are not compared


def graph():
    G = nx.Graph()
    G.add_edges_from([(0, 1), (1, 2), (2, 0), (2, 3), (3, 4), (4, 5)])
    G.add_node(6)
    for u, v in G.edges():
        G[u][v]['w'] = 1.0 + 0.5 * ((u + v) % 3)
    for u in G:
        G.nodes[u]['r'] = 1.0 + 0.25 * (u % 2)
    return G


def calls():
    """(label, function, args, kwargs, deterministic)"""
    import EoN
    G = graph()
    GL = graph(); GL.add_edge(1, 1); GL.add_edge(4, 4)
    out = []
    H = nx.DiGraph(); H.add_edge('I', 'R', rate=1.0); H.add_edge('R', 'S', rate=0.0)
    J = nx.DiGraph(); J.add_edge(('I', 'S'), ('I', 'I'), rate=1.5)
    IC = {u: ('I' if u in (0, 2) else 'S') for u in G}
    from collections import defaultdict
    ICd = defaultdict(lambda: 'S'); ICd[0] = 'I'
    def tt(u, v): return 0.5 + 0.1 * u
    def rt(u): return 1.0 + 0.1 * u
    def tts(u, v, d): return [x for x in (0.4, 1.3) if x < d]
    def crate(G_, n, st, p): return 0.9 * sum(1 for nb in G_.neighbors(n) if st[nb] == 'I') if st[n] == 'S' else (1.2 if st[n] == 'I' else 0.0)
    def cch(G_, n, st, p): return 'I' if st[n] == 'S' else 'R'
    def cinf(G_, n, st, p): return list(G_.neighbors(n))
    sim = [
        ('fast_SIR', (G, 0.8, 1.1), dict(initial_infecteds=[0, 2], initial_recovereds=[5], tmax=2)),
        ('fast_SIR(weighted)', (G, 0.8, 1.1), dict(initial_infecteds=np.array([0, 2]), transmission_weight='w', recovery_weight='r', tmax=2, return_full_data=True)),
        ('fast_nonMarkov_SIR', (G,), dict(trans_time_fxn=tt, rec_time_fxn=rt, initial_infecteds=[1], initial_recovereds=[4], tmax=3)),
        ('fast_SIS', (G, 0.8, 1.1), dict(initial_infecteds=[0, 2], tmax=2, return_full_data=True)),
        ('fast_nonMarkov_SIS', (G,), dict(trans_time_fxn=tts, rec_time_fxn=rt, initial_infecteds=[1], tmax=3)),
        ('Gillespie_SIR', (G, 0.8, 1.1), dict(initial_infecteds=[0, 2], initial_recovereds=[5], tmax=2, transmission_weight='w', recovery_weight='r')),
        ('Gillespie_SIS', (G, 0.8, 1.1), dict(initial_infecteds={0, 2}, tmax=2, return_full_data=True)),
        ('Gillespie_SIS(graph with self-loops)', (GL, 0.8, 1.1), dict(initial_infecteds=[0], tmax=2)),
        ('Gillespie_SIR(graph with self-loops)', (GL, 0.8, 1.1), dict(initial_infecteds=[0], tmax=2)),
        ('Gillespie_simple_contagion', (G, H, J, IC, ['S', 'I', 'R']), dict(tmax=2)),
        ('Gillespie_simple_contagion(defaultdict IC)', (G, H, J, ICd, ('S', 'I', 'R')), dict(tmax=2, return_full_data=True)),
        ('Gillespie_Arbitrary', (G, H, J, IC, ['S', 'I', 'R']), dict(tmax=2)),
        ('Gillespie_complex_contagion', (G, crate, cch, cinf, IC, ['S', 'I', 'R']), dict(tmax=2)),
        ('discrete_SIR', (G,), dict(args=(0.5,), initial_infecteds=[0], initial_recovereds=[3])),
        ('basic_discrete_SIR', (G, 0.5), dict(initial_infecteds=[0], initial_recovereds=[3], return_full_data=True)),
        ('basic_discrete_SIS', (G, 0.5), dict(initial_infecteds=[0, 2], tmax=4)),
        ('percolation_based_discrete_SIR', (G, 0.5), dict(initial_infecteds=[0], initial_recovereds=[3])),
        ('percolate_network', (G, 0.5), {}), ('directed_percolate_network', (G, 0.8, 1.1), {}),
        ('nonMarkov_directed_percolate_network_with_timing', (G, tt, rt), {}),
        ('nonMarkov_directed_percolate_network', (G, {u: 0.5 + 0.1 * u for u in G}, {u: 0.3 + 0.1 * u for u in G}, lambda a, b: a > b), {}),
        ('estimate_SIR_prob_size', (G, 0.5), {}), ('estimate_directed_SIR_prob_size', (G, 0.8, 1.1), {}),
        ('estimate_nonMarkov_SIR_prob_size_with_timing', (G, tt, rt), {}),
        ('get_infected_nodes', (G, 0.8, 1.1), dict(initial_infecteds=[0], initial_recovereds=[3])),
        ('get_infected_nodes(gamma=0)', (G, 0.8, 0.0), dict(initial_infecteds=[0], initial_recovereds=[3])),
    ]
    for label, a, k in sim:
        out.append((label, getattr(EoN, label.split('(')[0]), a, k, False))
    for name in sorted(dir(EoN)):
        f = getattr(EoN, name)
        if not callable(f) or isinstance(f, type) or name.startswith('_'):
            continue
        try:
            sig = inspect.signature(f)
        except Exception:
            continue
        ps = sig.parameters
        if not (name.endswith('_from_graph') or name.endswith('_pure_IC')) or 'G' not in ps:
            continue
        a = [G] + ([0.8, 1.1] if 'tau' in ps else ([0.4] if 'p' in ps else []))
        k = {}
        if 'tcount' in ps:
            k.update(tmin=0.5, tmax=2.5, tcount=4)
        elif 'tmax' in ps:
            k.update(tmax=3)
        if 'initial_infecteds' in ps:
            k['initial_infecteds'] = [0, 2]
            if 'initial_recovereds' in ps:
                k['initial_recovereds'] = [5]
        elif 'rho' in ps:
            k['rho'] = 0.2
        if 'return_full_data' in ps:
            k['return_full_data'] = True
        if 'transmission_weight' in ps and ('pair_based' in name or 'individual_based' in name):
            k.update(transmission_weight='w', recovery_weight='r')
        out.append((name, f, tuple(a), k, True))
    N_ = G.order()
    Y0 = np.array([1.0 if u in (0, 2) else 0.0 for u in G]); X0 = 1 - Y0
    XY0 = X0[:, None] * Y0[None, :]; XX0 = X0[:, None] * X0[None, :]
    out.append(('SIR_pair_based(explicit arrays)', EoN.SIR_pair_based, (G, 0.8, 1.1), dict(nodelist=list(G), Y0=Y0, X0=X0, XY0=XY0, XX0=XX0, tmax=2, tcount=3), True))
    out.append(('SIS_pair_based(explicit arrays)', EoN.SIS_pair_based, (G, 0.8, 1.1), dict(nodelist=list(G), Y0=Y0.copy(), XY0=XY0.copy(), XX0=XX0.copy(), tmax=2, tcount=3), True))
    # helpers
    out.append(('get_Pk', EoN.get_Pk, (G,), {}, True)); out.append(('get_Pnk', EoN.get_Pnk, (G,), {}, True)); out.append(('estimate_R0', EoN.estimate_R0, (G,), dict(tau=0.8, gamma=1.1), True))
    t = np.array([0., 0.5, 1.0, 1.5, 2.0]); s1 = np.array([5., 4, 3, 3, 2]); s2 = [1, 2, 3, 3, 4]
    out.append(('subsample', EoN.subsample, ([0.25, 1.0, 1.75], t, s1), dict(status2=s2), True))
    out.append(('get_time_shift', EoN.get_time_shift, (t, s2, 3), {}, True))
    return out


def check():
    import EoN
    import EoN.analytic as A
    n = 0
    recorded = {}
    direct = [nm for nm, f in vars(A).items() if inspect.isfunction(f) and not nm.startswith('_') and not nm.endswith('_from_graph') and nm[:4] in ('SIS_', 'SIR_', 'EBCM', 'Atta', 'Epi_')]
    originals = {nm: getattr(A, nm) for nm in direct}

    def recorder(nm, f):
        def w(*a, **k):
            recorded.setdefault(nm, (a, k))
            return f(*a, **k)
        return w
    for nm in direct:
        setattr(A, nm, recorder(nm, originals[nm]))
    try:
        for label, f, a, k, det in calls():
            n += 1
            before = [_snap(x) for x in a] + [(_k, _snap(v)) for _k, v in sorted(k.items())]
            random.seed(11); np.random.seed(11)
            try:
                r1 = f(*a, **k)
            except Exception as e:
                return n, dict(function=label, observed='%s: %s' % (type(e).__name__, str(e)[:150]))
            after = [_snap(x) for x in a] + [(_k, _snap(v)) for _k, v in sorted(k.items())]
            for i, (b, c) in enumerate(zip(before, after)):
                if b != c:
                    which = ('positional argument %d' % i) if i < len(a) else ('keyword argument %s' % sorted(k)[i - len(a)])
                    return n, dict(function=label, observed='%s was modified by the call' % which)
            if det:
                try:
                    r2 = f(*a, **k)
                except Exception as e:
                    return n, dict(function=label, observed='second call with the same argument objects: %s: %s' % (type(e).__name__, str(e)[:150]))
                if not _same_result(r1, r2):
                    return n, dict(function=label, observed='a second call with the same argument objects returns different values')
    finally:
        for nm in direct:
            setattr(A, nm, originals[nm])
    # the direct entry points on the arguments their wrappers build (float arrays incl. degree arrays and matrices)
    for nm, (a, k) in sorted(recorded.items()):
        n += 1
        f = originals[nm]
        a2 = tuple(np.array(x, dtype=float) if isinstance(x, np.ndarray) else x for x in a)       # float copies owned by "the caller"
        k = {_k: (np.array(v, dtype=float) if isinstance(v, np.ndarray) else v) for _k, v in k.items()}
        before = [_snap(x) for x in a2] + [(_k, _snap(v)) for _k, v in sorted(k.items())]
        try:
            r1 = f(*a2, **k)
            r2 = f(*a2, **k)
        except Exception as e:
            return n, dict(function=nm, observed='%s: %s (arguments as built by the *_from_graph wrapper, twice)' % (type(e).__name__, str(e)[:150]))
        after = [_snap(x) for x in a2] + [(_k, _snap(v)) for _k, v in sorted(k.items())]
        for i, (b, c) in enumerate(zip(before, after)):
            if b != c:
                return n, dict(function=nm, observed='argument %d (%s) was modified by the call' % (i, type(a2[i]).__name__ if i < len(a2) else 'keyword'))
        if not _same_result(r1, r2):
            return n, dict(function=nm, observed='a second call with the same argument objects returns different values')
    return n, None
