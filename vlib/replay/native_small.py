"""Bounded native stand-ins (always labelled bounded): exhaustive enumeration of small graphs."""
import itertools
import networkx as nx


def all_graphs(nmax, nmin=1):
    for n in range(nmin, nmax + 1):
        pairs = list(itertools.combinations(range(n), 2))
        for mask in range(1 << len(pairs)):
            G = nx.Graph()
            G.add_nodes_from(range(n))
            G.add_edges_from(p for i, p in enumerate(pairs) if mask >> i & 1)
            yield G


def check_pnk(nmax=5):
    """get_Pnk: every row k1>0 sums to 1 and Pnk[k1][k2] = #(ordered adjacent pairs (u,v), deg u=k1, deg v=k2)/(k1*N_k1)"""
    import EoN
    n = 0
    for G in all_graphs(nmax):
        n += 1
        try:
            P = EoN.get_Pnk(G)
        except Exception as e:
            return n, dict(graph=sorted(G.edges()), nodes=G.order(), observed='%s: %s' % (type(e).__name__, e))
        deg = dict(G.degree())
        Nk = {}
        for d in deg.values():
            Nk[d] = Nk.get(d, 0) + 1
        for k1 in Nk:
            row = P[k1]
            if k1 > 0 and abs(sum(row.values()) - 1.0) > 1e-9:
                return n, dict(graph=sorted(G.edges()), nodes=G.order(), observed='row %d sums to %r' % (k1, sum(row.values())))
            cntp = {}
            for u in G:
                if deg[u] != k1:
                    continue
                for v in G.neighbors(u):
                    cntp[deg[v]] = cntp.get(deg[v], 0) + 1
            for k2, c in cntp.items():
                want = c / float(k1 * Nk[k1])
                if abs(row.get(k2, 0) - want) > 1e-9:
                    return n, dict(graph=sorted(G.edges()), nodes=G.order(), observed='Pnk[%d][%d]=%r expected %r' % (k1, k2, row.get(k2, 0), want))
            for k2 in row:
                if k2 not in cntp and abs(row[k2]) > 1e-12:
                    return n, dict(graph=sorted(G.edges()), nodes=G.order(), observed='Pnk[%d][%d]=%r expected 0' % (k1, k2, row[k2]))
    return n, None
