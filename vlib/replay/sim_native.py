"""Bounded native stand-ins (always labelled bounded, never counted as proved): the REAL simulators are run on small
inputs with fixed seeds / deterministic rules and compared with independent oracles written from the property
sentences.  They back up the contract checks (a change that leaves the supported subset, or touches a simulator that is
not under contract, is still caught here) and provide the replayed failing input of a violation."""
import heapq
import itertools
import math
import random
import numpy as np
import networkx as nx


def small_graph():
    G = nx.Graph()
    G.add_edges_from([(0, 1), (1, 2), (2, 3), (3, 0), (1, 3), (3, 4), (4, 5)])
    G.add_node(6)                      # isolated node
    for u, v in G.edges():
        G[u][v]['w'] = 1.0 + (u + v) % 3
    for u in G:
        G.nodes[u]['r'] = 1.0 + u % 2
    return G


# ------------------------------------------------------------------------------------------------ C04
def check_rows(arrs, N, tmin, tmax, kind, discrete=False):
    t = [float(x) for x in arrs[0]]
    cols = [[int(x) for x in a] for a in arrs[1:]]
    if any(len(c) != len(t) for c in cols) or len(t) < 1:
        return 'arrays of different lengths'
    if t[0] != float(tmin):
        return 'first time %s is not tmin=%s' % (t[0], tmin)
    for i in range(len(t)):
        if any(c[i] < 0 for c in cols) or sum(c[i] for c in cols) != N:
            return 'row %d: counts %s do not sum to N=%d / negative' % (i, [c[i] for c in cols], N)
        if any(float(a[i]) != int(a[i]) for a in arrs[1:]):
            return 'non-integer count in row %d' % i
        if i > 0:
            if t[i] < t[i - 1]:
                return 'time decreases at row %d' % i
            if not discrete and not (t[i] < tmax):
                return 'time %s reaches tmax=%s' % (t[i], tmax)
            if discrete and t[i] > tmax and math.isfinite(tmax) and float(tmax - tmin).is_integer():
                return 'discrete time %s exceeds tmax=%s' % (t[i], tmax)
            if discrete and t[i] != t[i - 1] + 1:
                return 'discrete time step is not 1 at row %d' % i
            d = [c[i] - c[i - 1] for c in cols]
            if not discrete:
                legal = [[-1, 1, 0], [0, -1, 1]] if kind == 'SIR' else [[-1, 1], [1, -1]]
                if d not in legal:
                    return 'row %d differs from row %d by %s (not one legal move)' % (i, i - 1, d)
            if kind == 'SIR' and (d[0] > 0 or d[2] < 0):
                return 'S increases or R decreases at row %d' % i
    return None


def c04_cases():
    import EoN
    G = small_graph()
    N = G.order()
    inf = float('inf')
    out = []
    def tt(u, v, a): return random.expovariate(a)
    def rt(u, a): return random.expovariate(a)
    def tts(u, v, d, a):
        res = []; x = random.expovariate(a)
        while x < d:
            res.append(x); x += random.expovariate(a)
        return res
    for tmin, tmax in ((0, inf), (2.5, 4.0), (-1, 1)):
        fin = tmax if math.isfinite(tmax) else tmin + 6
        out += [
            ('fast_SIR', 'SIR', tmin, tmax, False, lambda tmin=tmin, tmax=tmax: EoN.fast_SIR(G, 1.2, 1.0, initial_infecteds=[0, 2], initial_recovereds=[5], tmin=tmin, tmax=tmax)),
            ('fast_SIR gamma=0', 'SIR', tmin, tmax, False, lambda tmin=tmin, tmax=tmax: EoN.fast_SIR(G, 1.2, 0.0, initial_infecteds=[0], tmin=tmin, tmax=tmax)),
            ('fast_SIR weighted', 'SIR', tmin, tmax, False, lambda tmin=tmin, tmax=tmax: EoN.fast_SIR(G, 1.2, 1.0, rho=0.3, tmin=tmin, tmax=tmax, transmission_weight='w', recovery_weight='r')),
            ('fast_nonMarkov_SIR fixed period', 'SIR', tmin, tmax, False, lambda tmin=tmin, tmax=tmax: EoN.fast_nonMarkov_SIR(G, trans_time_fxn=lambda u, v: 1.0, rec_time_fxn=lambda u: 2.0, initial_infecteds=[1], tmin=tmin, tmax=tmax)),
            ('fast_nonMarkov_SIR', 'SIR', tmin, tmax, False, lambda tmin=tmin, tmax=tmax: EoN.fast_nonMarkov_SIR(G, trans_time_fxn=tt, rec_time_fxn=rt, trans_time_args=(1.0,), rec_time_args=(1.0,), initial_infecteds=[1], initial_recovereds=[4], tmin=tmin, tmax=tmax)),
            ('Gillespie_SIR', 'SIR', tmin, tmax, False, lambda tmin=tmin, tmax=tmax: EoN.Gillespie_SIR(G, 1.2, 1.0, initial_infecteds=[0, 2], initial_recovereds=[5], tmin=tmin, tmax=tmax)),
            ('Gillespie_SIR weighted', 'SIR', tmin, tmax, False, lambda tmin=tmin, tmax=tmax: EoN.Gillespie_SIR(G, 1.2, 1.0, rho=0.3, tmin=tmin, tmax=tmax, transmission_weight='w', recovery_weight='r')),
            ('fast_SIS', 'SIS', tmin, fin, False, lambda tmin=tmin, fin=fin: EoN.fast_SIS(G, 1.2, 1.0, initial_infecteds=[0, 2], tmin=tmin, tmax=fin)),
            ('fast_SIS weighted', 'SIS', tmin, fin, False, lambda tmin=tmin, fin=fin: EoN.fast_SIS(G, 1.2, 1.0, rho=0.4, tmin=tmin, tmax=fin, transmission_weight='w', recovery_weight='r')),
            ('fast_nonMarkov_SIS', 'SIS', tmin, fin, False, lambda tmin=tmin, fin=fin: EoN.fast_nonMarkov_SIS(G, trans_time_fxn=tts, rec_time_fxn=rt, trans_time_args=(1.0,), rec_time_args=(1.0,), initial_infecteds=[1], tmin=tmin, tmax=fin)),
            ('fast_nonMarkov_SIS fixed delays', 'SIS', tmin, fin, False, lambda tmin=tmin, fin=fin: EoN.fast_nonMarkov_SIS(G, trans_time_fxn=lambda u, v, d: [1.0] if d > 1.0 else [], rec_time_fxn=lambda u: 1.5, initial_infecteds=[1], tmin=tmin, tmax=fin)),
            ('Gillespie_SIS', 'SIS', tmin, fin, False, lambda tmin=tmin, fin=fin: EoN.Gillespie_SIS(G, 1.2, 1.0, initial_infecteds=[0, 2], tmin=tmin, tmax=fin)),
        ]
    H = nx.DiGraph(); H.add_edge('I', 'R', rate=1.0)
    J = nx.DiGraph(); J.add_edge(('I', 'S'), ('I', 'I'), rate=1.5)
    IC = {u: ('I' if u in (0, 2) else 'S') for u in G}
    out.append(('Gillespie_simple_contagion', 'SIR', 1.5, 6.0, False, lambda: EoN.Gillespie_simple_contagion(G, H, J, IC, ['S', 'I', 'R'], tmin=1.5, tmax=6.0)))
    def rate_fn(G_, node, status, parameters):
        if status[node] == 'S':
            return 0.7 * sum(1 for nbr in G_.neighbors(node) if status[nbr] == 'I')
        return 1.0 if status[node] == 'I' else 0.0
    out.append(('Gillespie_complex_contagion', 'SIR', 1.5, 6.0, False, lambda: EoN.Gillespie_complex_contagion(
        G, rate_fn, lambda G_, n, s, p: 'I' if s[n] == 'S' else 'R', lambda G_, n, s, p: list(G_.neighbors(n)), IC, ['S', 'I', 'R'], tmin=1.5, tmax=6.0)))
    star = nx.star_graph(5)
    out.append(('discrete_SIR on a star with recovered leaves', 'SIR', 0, inf, True,
                lambda: EoN.discrete_SIR(star, test_transmission=lambda u, v: True, initial_infecteds=[0], initial_recovereds=[1, 2, 3, 4, 5])))
    out.append(('basic_discrete_SIR on a path with a recovered barrier', 'SIR', 0, inf, True,
                lambda: EoN.basic_discrete_SIR(nx.path_graph(5), 1.0, initial_infecteds=[0], initial_recovereds=[2])))
    for tmin, tmax in ((0, inf), (3, 5)):
        out += [
            ('discrete_SIR', 'SIR', tmin, tmax, True, lambda tmin=tmin, tmax=tmax: EoN.discrete_SIR(G, args=(0.6,), initial_infecteds=[0], initial_recovereds=[3], tmin=tmin, tmax=tmax)),
            ('basic_discrete_SIR', 'SIR', tmin, tmax, True, lambda tmin=tmin, tmax=tmax: EoN.basic_discrete_SIR(G, 0.6, initial_infecteds=[0, 2], initial_recovereds=[5], tmin=tmin, tmax=tmax)),
            ('percolation_based_discrete_SIR', 'SIR', tmin, tmax, True, lambda tmin=tmin, tmax=tmax: EoN.percolation_based_discrete_SIR(G, 0.6, initial_infecteds=[0], initial_recovereds=[3], tmin=tmin, tmax=tmax)),
            ('basic_discrete_SIS', 'SIS', tmin, tmin + 4, True, lambda tmin=tmin: EoN.basic_discrete_SIS(G, 0.6, initial_infecteds=[0, 2], tmin=tmin, tmax=tmin + 4)),
        ]
    # a recovery rule that keeps some nodes infectious for several steps (finite horizon: the rule may never let go)
    for tmin, tmax in ((0, 8), (3, 7)):
        out.append(('discrete_SIR with test_recovery', 'SIR', tmin, tmax, True, lambda tmin=tmin, tmax=tmax: EoN.discrete_SIR(
            G, args=(0.6,), test_recovery=lambda u: random.random() < 0.4, initial_infecteds=[0, 2], initial_recovereds=[3], tmin=tmin, tmax=tmax)))
    # an initial condition written for a larger population than the simulated network: the extra keys are not nodes of G
    IC_big = dict(IC); IC_big.update({'outside-%d' % i: 'I' for i in range(4)}); IC_big['outside-r'] = 'R'
    out.append(('Gillespie_complex_contagion (IC with keys that are not nodes)', 'SIR', 1.5, 6.0, False, lambda: EoN.Gillespie_complex_contagion(
        G, rate_fn, lambda G_, n, s, p: 'I' if s[n] == 'S' else 'R', lambda G_, n, s, p: list(G_.neighbors(n)), IC_big, ['S', 'I', 'R'], tmin=1.5, tmax=6.0)))
    out.append(('Gillespie_simple_contagion (IC with keys that are not nodes)', 'SIR', 1.5, 6.0, False,
                lambda: EoN.Gillespie_simple_contagion(G, H, J, IC_big, ['S', 'I', 'R'], tmin=1.5, tmax=6.0)))
    # directed contact network with reciprocal pairs (every undirected edge in both directions, plus two one-way edges)
    Gd = G.to_directed(); Gd.add_edge(0, 4); Gd.add_edge(5, 2)        # one-way edges between non-adjacent nodes
    out.append(('Gillespie_simple_contagion on a DiGraph with reciprocal pairs', 'SIR', 0.5, 7.0, False,
                lambda: EoN.Gillespie_simple_contagion(Gd, H, J, IC, ['S', 'I', 'R'], tmin=0.5, tmax=7.0)))
    Hs = nx.DiGraph(); Hs.add_edge('I', 'S', rate=1.0)
    out.append(('Gillespie_simple_contagion SIS on a DiGraph with reciprocal pairs', 'SIS', 0.5, 4.0, False,
                lambda: EoN.Gillespie_simple_contagion(Gd, Hs, J, IC, ['S', 'I'], tmin=0.5, tmax=4.0)))
    # everybody infectious at the start: the SIS chain goes on (next step: everybody susceptible), it does not stop
    out.append(('basic_discrete_SIS from an all-infected start', 'SIS', 2, 6, True, lambda: EoN.basic_discrete_SIS(G, 0.6, initial_infecteds=list(G), tmin=2, tmax=6)))
    out.append(('basic_discrete_SIS rho=1', 'SIS', 0, 3, True, lambda: EoN.basic_discrete_SIS(G, 1.0, rho=1.0, tmin=0, tmax=3)))
    return N, out


def c04_native(seeds=(1, 2, 3, 4)):
    N, cases = c04_cases()
    n = 0
    for name, kind, tmin, tmax, discrete, f in cases:
        for seed in seeds:
            n += 1
            random.seed(seed); np.random.seed(seed)
            try:
                arrs = f()
            except Exception as e:
                return n, dict(simulator=name, tmin=tmin, tmax=tmax, seed=seed, observed='%s: %s' % (type(e).__name__, e))
            Nn = sum(int(a[0]) for a in arrs[1:])
            why = check_rows(arrs, Nn if ' on a ' in name else N, tmin, tmax, kind, discrete)
            if why is None and kind == 'SIR' and not discrete and not math.isfinite(tmax) and 'gamma=0' not in name and int(arrs[2][-1]) != 0:
                why = 'unbounded horizon but the run ends with %d infected nodes' % int(arrs[2][-1])
            if why is None and discrete and math.isfinite(tmax) and int(arrs[2][-1]) != 0 and float(arrs[0][-1]) + 1 <= tmax:
                why = 'the run stops at t=%s with %d infectious nodes although another step fits before tmax=%s' % (arrs[0][-1], int(arrs[2][-1]), tmax)
            if why:
                return n, dict(simulator=name, tmin=tmin, tmax=tmax, seed=seed, observed=why,
                               arrays=[[float(x) for x in a][:12] for a in arrs])
    # the same runs through the full-data object: its population summary obeys the same row conditions (rows of equal time are
    # merged by summary(), so "one move per row" is not asked here)
    import EoN
    names = ['fast_SIR', 'fast_nonMarkov_SIR', 'Gillespie_SIR', 'fast_SIS', 'fast_nonMarkov_SIS', 'Gillespie_SIS', 'Gillespie_simple_contagion',
             'Gillespie_complex_contagion', 'discrete_SIR', 'basic_discrete_SIR', 'basic_discrete_SIS']
    orig = {nm: getattr(EoN, nm) for nm in names}
    try:
        for nm in names:
            setattr(EoN, nm, (lambda f: (lambda *a, **k: f(*a, **dict(k, return_full_data=True))))(orig[nm]))
        for name, kind, tmin, tmax, discrete, f in cases:
            if name.startswith('percolation_based'):
                continue
            for seed in seeds[:2]:
                n += 1
                random.seed(seed); np.random.seed(seed)
                try:
                    sim = f()
                    t, D = sim.summary()
                except Exception as e:
                    return n, dict(simulator=name + ' (return_full_data=True)', tmin=tmin, tmax=tmax, seed=seed, observed='%s: %s' % (type(e).__name__, e))
                cols = [D[k] for k in (('S', 'I', 'R') if kind == 'SIR' else ('S', 'I'))]
                tot = sum(int(c[0]) for c in cols)
                why = None
                if float(t[0]) != float(tmin):
                    why = 'summary starts at %s, tmin is %s' % (t[0], tmin)
                for i in range(len(t)):
                    if why:
                        break
                    if i and not (t[i - 1] <= t[i]):
                        why = 'summary times decrease at row %d' % i
                    elif i and not discrete and not (t[i] < tmax):
                        why = 'the full-data object reports an event at time %s although tmax=%s' % (t[i], tmax)
                    elif any(int(c[i]) < 0 for c in cols) or sum(int(c[i]) for c in cols) != tot:
                        why = 'summary counts at row %d are %s (total at tmin %d)' % (i, [int(c[i]) for c in cols], tot)
                if why:
                    return n, dict(simulator=name + ' (return_full_data=True)', tmin=tmin, tmax=tmax, seed=seed, observed=why,
                                   summary=[[float(x) for x in t][:12]] + [[int(x) for x in c][:12] for c in cols])
    finally:
        for nm in names:
            setattr(EoN, nm, orig[nm])
    return n, None


# ------------------------------------------------------------------------------------------------ C05
def c05_native():
    import EoN
    G = small_graph()
    N = G.order()
    n = 0
    tm = 2.5
    def nm_sir(**kw): return EoN.fast_nonMarkov_SIR(G, trans_time_fxn=lambda u, v: 1.0, rec_time_fxn=lambda u: 1.0, **kw)
    def nm_sis(**kw): return EoN.fast_nonMarkov_SIS(G, trans_time_fxn=lambda u, v, d: [], rec_time_fxn=lambda u: 1.0, **kw)
    sir = {'fast_SIR': lambda **kw: EoN.fast_SIR(G, 1.0, 1.0, **kw), 'fast_SIR(gamma=0)': lambda **kw: EoN.fast_SIR(G, 1.0, 0.0, **kw),
           'fast_nonMarkov_SIR': nm_sir, 'Gillespie_SIR': lambda **kw: EoN.Gillespie_SIR(G, 1.0, 1.0, **kw),
           'discrete_SIR': lambda **kw: EoN.discrete_SIR(G, args=(0.5,), **kw), 'basic_discrete_SIR': lambda **kw: EoN.basic_discrete_SIR(G, 0.5, **kw),
           'percolation_based_discrete_SIR': lambda **kw: EoN.percolation_based_discrete_SIR(G, 0.5, **kw)}
    sis = {'fast_SIS': lambda **kw: EoN.fast_SIS(G, 1.0, 1.0, **kw), 'fast_nonMarkov_SIS': nm_sis,
           'Gillespie_SIS': lambda **kw: EoN.Gillespie_SIS(G, 1.0, 1.0, **kw), 'basic_discrete_SIS': lambda **kw: EoN.basic_discrete_SIS(G, 0.5, **kw)}
    spellings = [('list', [0, 2], {0, 2}), ('tuple', (0, 2), {0, 2}), ('set', {0, 2}, {0, 2}), ('range', range(0, 3, 2), {0, 2}),
                 ('array', np.array([0, 2]), {0, 2}), ('single node', 0, {0}), ('single node 3', 3, {3}), ('one-element list', [0], {0})]
    for fam, sims in (('SIR', sir), ('SIS', sis)):
        for name, f in sims.items():
            disc = 'discrete' in name
            tmin = 2 if disc else tm
            for label, ii, want in spellings:
                for rec in ([None, [5, 6]] if fam == 'SIR' else [None]):
                    n += 1
                    kw = dict(initial_infecteds=ii, tmin=tmin, tmax=tmin + 3)
                    if rec is not None:
                        kw['initial_recovereds'] = rec
                    random.seed(7); np.random.seed(7)
                    try:
                        arrs = f(**kw)
                        random.seed(7); np.random.seed(7)
                        full = f(return_full_data=True, **kw)
                    except Exception as e:
                        return n, dict(simulator=name, initial_infecteds=label, initial_recovereds=rec, observed='%s: %s' % (type(e).__name__, e))
                    r0 = len(rec or [])
                    row0 = [int(a[0]) for a in arrs[1:]]
                    exp = [N - len(want) - r0, len(want)] + ([r0] if fam == 'SIR' else [])
                    if row0 != exp or float(arrs[0][0]) != float(tmin):
                        return n, dict(simulator=name, initial_infecteds=label, initial_recovereds=rec, observed='row 0 is t=%s %s, expected t=%s %s' % (arrs[0][0], row0, tmin, exp))
                    st = full.get_statuses(time=tmin)
                    for u in G:
                        w = 'I' if u in want else ('R' if rec and u in rec else 'S')
                        if st[u] != w:
                            return n, dict(simulator=name, initial_infecteds=label, initial_recovereds=rec, observed='node %s is %s at tmin, expected %s' % (u, st[u], w))
                    if rec:
                        for u in rec:
                            if list(full.node_history(u)[1]) != ['R']:
                                return n, dict(simulator=name, initial_infecteds=label, initial_recovereds=rec, observed='initially recovered node %s has history %s' % (u, full.node_history(u)))
            # rho
            for rho in (0.0, 0.3, 0.5, 1.0):
                n += 1
                random.seed(3); np.random.seed(3)
                try:
                    arrs = f(rho=rho, tmin=tmin, tmax=tmin + 1)
                except Exception as e:
                    return n, dict(simulator=name, rho=rho, observed='%s: %s' % (type(e).__name__, e))
                if int(arrs[2][0]) != int(round(N * rho)):
                    return n, dict(simulator=name, rho=rho, observed='I(tmin) = %s, expected int(round(N*rho)) = %d' % (arrs[2][0], int(round(N * rho))))
            # both given -> EoNError  (also with falsy values)
            for ii, rho in (([0], 0.5), (0, 0.5), ([0], 0.0), ([], 0.5)):
                n += 1
                try:
                    f(initial_infecteds=ii, rho=rho, tmin=tmin, tmax=tmin + 1)
                    return n, dict(simulator=name, initial_infecteds=str(ii), rho=rho, observed='accepted although both rho and initial_infecteds were given')
                except EoN.EoNError:
                    pass
                except Exception as e:
                    return n, dict(simulator=name, initial_infecteds=str(ii), rho=rho, observed='%s instead of EoNError: %s' % (type(e).__name__, e))
    # initially recovered nodes are never infected later: deterministic limits, PLAIN return mode
    for Gx, seeds_, rec_ in ((G, [0], [1, 3]), (nx.star_graph(5), [0], [1, 2, 3, 4, 5]), (nx.path_graph(5), [0], [2])):
        Gm = Gx.copy(); Gm.remove_nodes_from(rec_)
        comp = set()
        for s_ in seeds_:
            comp |= nx.node_connected_component(Gm, s_)
        Nx = Gx.order()
        runs = {'discrete_SIR(always)': lambda: EoN.discrete_SIR(Gx, test_transmission=lambda u, v: True, initial_infecteds=seeds_, initial_recovereds=rec_),
                'basic_discrete_SIR(p=1)': lambda: EoN.basic_discrete_SIR(Gx, 1.0, initial_infecteds=seeds_, initial_recovereds=rec_),
                'percolation_based_discrete_SIR(p=1)': lambda: EoN.percolation_based_discrete_SIR(Gx, 1.0, initial_infecteds=seeds_, initial_recovereds=rec_),
                'fast_SIR(gamma=0)': lambda: EoN.fast_SIR(Gx, 1.0, 0.0, initial_infecteds=seeds_, initial_recovereds=rec_),
                'Gillespie_SIR(gamma=0)': lambda: EoN.Gillespie_SIR(Gx, 1.0, 0.0, initial_infecteds=seeds_, initial_recovereds=rec_, tmax=200)}
        for name, f in runs.items():
            n += 1
            random.seed(11); np.random.seed(11)
            try:
                arrs = f()
            except Exception as e:
                return n, dict(simulator=name, edges=list(Gx.edges()), initial_infecteds=seeds_, initial_recovereds=rec_, observed='%s: %s' % (type(e).__name__, e))
            S_end, ever = int(arrs[1][-1]), int(arrs[2][-1]) + int(arrs[3][-1]) - len(rec_)
            if S_end != Nx - len(comp) - len(rec_) or ever != len(comp) or min(int(x) for x in arrs[1]) < 0:
                return n, dict(simulator=name, edges=list(Gx.edges()), initial_infecteds=seeds_, initial_recovereds=rec_,
                               observed='final S=%d, ever infected=%d; only the %d nodes reachable without crossing a recovered node can be infected (S must end at %d)' % (
                                   S_end, ever, len(comp), Nx - len(comp) - len(rec_)), arrays=[[float(x) for x in a][:10] for a in arrs])
    # wrappers start the same epidemic as the general function
    for seed in (1, 2):
        n += 1
        random.seed(seed); a = EoN.basic_discrete_SIR(G, 0.6, initial_infecteds=[0], initial_recovereds=[5], tmin=1)
        random.seed(seed); b = EoN.discrete_SIR(G, args=(0.6,), initial_infecteds=[0], initial_recovereds=[5], tmin=1)
        if any(list(x) != list(y) for x, y in zip(a, b)):
            return n, dict(simulator='basic_discrete_SIR vs discrete_SIR', seed=seed, observed='different trajectories: %s vs %s' % ([list(x) for x in a], [list(x) for x in b]))
    return n, None


# ------------------------------------------------------------------------------------------------ C12
def bfs_layers(G, contact, seeds, removed):
    dist = {u: 0 for u in seeds}
    frontier = list(seeds)
    d = 0
    while frontier:
        d += 1
        nxt = []
        for u in frontier:
            for v in G.neighbors(u):
                if v not in dist and v not in removed and contact(u, v):
                    dist[v] = d
                    nxt.append(v)
        frontier = nxt
    return dist


def c12_native():
    import EoN
    n = 0
    graphs = [small_graph(), nx.path_graph(5), nx.star_graph(4), nx.cycle_graph(6)]
    rules = [('always', lambda u, v: True), ('parity', lambda u, v: (u + 2 * v) % 3 != 0), ('never', lambda u, v: False), ('up', lambda u, v: v > u)]
    for G in graphs:
        nodes = list(G.nodes())
        for rname, rule in rules:
            for seeds, rec in (([nodes[0]], []), ([nodes[0], nodes[-1]], []), ([nodes[0]], [nodes[1]]), ([nodes[1]], [nodes[0], nodes[2]])):
                for tmin in (0, 3, -2):
                    n += 1
                    try:
                        sim = EoN.discrete_SIR(G, test_transmission=rule, initial_infecteds=seeds, initial_recovereds=rec, tmin=tmin, return_full_data=True)
                        t, S, I, R = EoN.discrete_SIR(G, test_transmission=rule, initial_infecteds=seeds, initial_recovereds=rec, tmin=tmin)
                    except Exception as e:
                        return n, dict(edges=list(G.edges()), rule=rname, seeds=seeds, recovered=rec, tmin=tmin, observed='%s: %s' % (type(e).__name__, e))
                    dist = bfs_layers(G, rule, seeds, set(rec))
                    wit = dict(edges=list(G.edges()), rule=rname, seeds=seeds, recovered=rec, tmin=tmin)
                    for u in G:
                        ht, hs = sim.node_history(u)
                        if u in rec:
                            want = ([tmin], ['R'])
                        elif u in dist:
                            want = ([tmin + dist[u], tmin + dist[u] + 1], ['I', 'R']) if dist[u] == 0 else ([tmin, tmin + dist[u], tmin + dist[u] + 1], ['S', 'I', 'R'])
                        else:
                            want = ([tmin], ['S'])
                        if [float(x) for x in ht] != [float(x) for x in want[0]] or list(hs) != want[1]:
                            wit['observed'] = 'node %s has history %s, the layer recurrence gives %s' % (u, (list(ht), list(hs)), want)
                            return n, wit
                    Nn = G.order()
                    for j in range(len(t)):
                        if int(S[j]) + int(I[j]) + int(R[j]) != Nn or float(t[j]) != tmin + j:
                            wit['observed'] = 'row %d: t=%s S+I+R=%s' % (j, t[j], int(S[j]) + int(I[j]) + int(R[j]))
                            return n, wit
                        expI = sum(1 for u, d in dist.items() if d == j)
                        expR = len(rec) + sum(1 for u, d in dist.items() if d < j)
                        if int(I[j]) != expI or int(R[j]) != expR:
                            wit['observed'] = 'row %d: I=%s R=%s, expected I=%d R=%d' % (j, I[j], R[j], expI, expR)
                            return n, wit
    # the wrappers with p = 1 (every contact succeeds; one draw per contact / per edge, all below 1): same layers as discrete_SIR with the
    # always-rule, also with initially recovered nodes; counts sum to the order of G
    for G in graphs[:3]:
        nodes = list(G.nodes())
        for seeds, rec in (([nodes[0]], []), ([nodes[0]], [nodes[1]]), ([nodes[1]], [nodes[0], nodes[2]])):
            dist = bfs_layers(G, lambda u, v: True, seeds, set(rec))
            for wname in ('basic_discrete_SIR', 'percolation_based_discrete_SIR'):
                for tmin in (0, 2):
                    n += 1
                    wit = dict(simulator=wname, edges=list(G.edges()), p=1.0, seeds=seeds, recovered=rec, tmin=tmin)
                    try:
                        t, S, I, R = getattr(EoN, wname)(G, 1.0, initial_infecteds=seeds, initial_recovereds=rec, tmin=tmin)
                        sim = getattr(EoN, wname)(G, 1.0, initial_infecteds=seeds, initial_recovereds=rec, tmin=tmin, return_full_data=True)
                    except Exception as e:
                        wit['observed'] = '%s: %s' % (type(e).__name__, e)
                        return n, wit
                    for j in range(len(t)):
                        expI = sum(1 for u, d in dist.items() if d == j)
                        expR = len(rec) + sum(1 for u, d in dist.items() if d < j)
                        if (int(S[j]), int(I[j]), int(R[j])) != (G.order() - expI - expR, expI, expR) or float(t[j]) != tmin + j:
                            wit['observed'] = 'row %d is (t,S,I,R)=(%s,%s,%s,%s), the layer recurrence on all %d nodes gives (%s,%s,%s,%s)' % (
                                j, t[j], S[j], I[j], R[j], G.order(), tmin + j, G.order() - expI - expR, expI, expR)
                            return n, wit
                    for u in G:
                        try:
                            st0 = sim.node_status(u, tmin)
                        except Exception as e:
                            wit['observed'] = 'node %s is missing from the full-data object (%s)' % (u, type(e).__name__)
                            return n, wit
                        want0 = 'R' if u in rec else ('I' if u in seeds else 'S')
                        if st0 != want0:
                            wit['observed'] = 'node %s is %s at tmin, requested %s' % (u, st0, want0)
                            return n, wit
    # recovery rule keeps nodes infectious
    G = nx.path_graph(4)
    calls = {}
    def recover_second_time(u):
        calls[u] = calls.get(u, 0) + 1
        return calls[u] >= 2
    n += 1
    sim = EoN.discrete_SIR(G, test_transmission=lambda u, v: True, test_recovery=recover_second_time, initial_infecteds=[0], return_full_data=True)
    calls.clear()
    t, S, I, R = EoN.discrete_SIR(G, test_transmission=lambda u, v: True, test_recovery=recover_second_time, initial_infecteds=[0])
    for j in range(len(t)):
        if int(S[j]) + int(I[j]) + int(R[j]) != 4:
            return n, dict(observed='with a recovery rule S+I+R=%d at step %d' % (int(S[j]) + int(I[j]) + int(R[j]), j))
        cnt = sum(1 for u in G if sim.node_status(u, t[j]) == 'I')
        if cnt != int(I[j]):
            return n, dict(observed='with a recovery rule I=%s at step %d but %d nodes are infectious in the histories' % (I[j], j, cnt))
    # Bernoulli rule: one draw per contact compared with p (scripted random source)
    import EoN.simulation as sim_mod
    class Src:
        def __init__(self): self.us = []
        def random(self):
            self.us.append(0.4); return 0.4
        def sample(self, pop, k): return list(pop)[:k]
        def choice(self, seq): return seq[0]
    old = sim_mod.random
    try:
        for p, expect in ((0.5, True), (0.3, False), (0.4, False)):
            n += 1
            s = Src(); sim_mod.random = s
            got = sim_mod._simple_test_transmission_(0, 1, p)
            if bool(got) != expect or len(s.us) != 1:
                return n, dict(observed='_simple_test_transmission_ with u01=0.4, p=%s returned %s using %d draws' % (p, got, len(s.us)))
    finally:
        sim_mod.random = old
    # basic_discrete_SIR / basic_discrete_SIS / percolation_based_discrete_SIR: ONE draw per infectious->susceptible contact (per kept
    # edge for the percolation variant), compared with p; exactly the successful contacts infect.  Scripted random source; the draw
    # sequence with a single success is moved over every position.
    class Seq:
        def __init__(self, us): self.us, self.k = list(us), 0
        def random(self):
            u = self.us[self.k] if self.k < len(self.us) else 0.99
            self.k += 1
            return u
        def sample(self, pop, k): return list(pop)[:k]
        def choice(self, seq): return seq[0]
        def expovariate(self, r): return 1.0
    G = nx.Graph(); G.add_edges_from([(0, 1), (0, 2), (1, 2), (2, 3), (3, 4), (1, 4)]); G.add_node(5)
    pval = 0.35
    try:
        for name, seeds in (('basic_discrete_SIS', [0, 3]), ('basic_discrete_SIR', [0, 3]), ('basic_discrete_SIS', [2]), ('basic_discrete_SIR', [2]),
                            ('basic_discrete_SIS', list(G)), ('basic_discrete_SIR', list(G)), ('basic_discrete_SIS', [0, 1, 2, 3, 4])):
            f = getattr(EoN, name)
            contacts = [(u, v) for u in seeds for v in G.neighbors(u) if v not in seeds]
            targets_seen = []
            for pos in range(-1, len(contacts)):
                n += 1
                us = [0.9] * len(contacts)
                if pos >= 0:
                    us[pos] = 0.1
                src = Seq(us); sim_mod.random = src
                try:
                    sim = f(G, pval, initial_infecteds=list(seeds), tmin=2, tmax=3, return_full_data=True)
                finally:
                    sim_mod.random = old
                wit = dict(simulator=name, edges=list(G.edges()), initial_infecteds=seeds, p=pval, uniform_draws=us)
                if src.k != len(contacts):
                    wit['observed'] = 'the first step consumed %d uniform draws, there are %d infectious-susceptible contacts' % (src.k, len(contacts))
                    return n, wit
                newly = [u for u in G if u not in seeds and sim.node_status(u, 3) == 'I']
                if pos < 0 and newly:
                    wit['observed'] = 'no contact succeeded (all draws >= p) but %s got infected' % newly
                    return n, wit
                if pos >= 0:
                    if len(newly) != 1 or newly[0] not in [v for _, v in contacts]:
                        wit['observed'] = 'exactly one contact succeeded but the newly infected nodes are %s' % newly
                        return n, wit
                    targets_seen.append(newly[0])
                want_old = 'S' if name.endswith('SIS') else 'R'
                for u in seeds:
                    if sim.node_status(u, 3) != want_old and not (name.endswith('SIS') and u in newly):
                        wit['observed'] = 'node %s was infectious at step 0 and is %s one step later (expected %s)' % (u, sim.node_status(u, 3), want_old)
                        return n, wit
            if sorted(targets_seen) != sorted(v for _, v in contacts):
                return n, dict(simulator=name, initial_infecteds=seeds, observed='moving the single success over the draws infected %s, the contact targets are %s' % (
                    sorted(targets_seen), sorted(v for _, v in contacts)))
        # percolate_network / percolation_based_discrete_SIR: one draw per edge, same node set, exactly the edges whose draw is below p
        edges = list(G.edges())
        kept_by_pos = []
        for pos in range(-1, len(edges)):
            n += 1
            us = [0.9] * len(edges)
            if pos >= 0:
                us[pos] = 0.1
            src = Seq(us); sim_mod.random = src
            try:
                Hh = EoN.percolate_network(G, pval)
            finally:
                sim_mod.random = old
            wit = dict(function='percolate_network', edges=edges, p=pval, uniform_draws=us)
            if src.k != len(edges) or set(Hh.nodes()) != set(G.nodes()) or Hh.number_of_edges() != (1 if pos >= 0 else 0) or any(not G.has_edge(a, b) for a, b in Hh.edges()):
                wit['observed'] = '%d draws for %d edges; nodes %s; kept edges %s' % (src.k, len(edges), sorted(Hh.nodes()), list(Hh.edges()))
                return n, wit
            if pos >= 0:
                kept_by_pos.append(frozenset(list(Hh.edges())[0]))
        if len(set(kept_by_pos)) != len(edges):
            return n, dict(function='percolate_network', observed='moving the single success over the draws kept the edges %s: not one edge per draw' % [sorted(e) for e in kept_by_pos])
    finally:
        sim_mod.random = old
    return n, None


# ------------------------------------------------------------------------------------------------ C11
def dijkstra_oracle(G, delay, duration, seeds, removed, tmin, tmax):
    inf_t, infector = {}, {}
    pq = [(tmin, i, None, s) for i, s in enumerate(seeds)]
    heapq.heapify(pq)
    c = len(seeds)
    while pq:
        t, _, src, v = heapq.heappop(pq)
        if v in inf_t or v in removed or not t < tmax:
            continue
        inf_t[v] = t
        infector.setdefault(v, set()).add(src)
        for w in G.neighbors(v):
            d = delay(v, w)
            if d <= duration(v) and w not in inf_t:
                c += 1
                heapq.heappush(pq, (t + d, c, v, w))
    return inf_t


def c11_native():
    import EoN
    n = 0
    rng = random.Random(5)
    inf = float('inf')
    for trial in range(120):
        Nn = rng.randint(2, 7)
        G = nx.gnp_random_graph(Nn, 0.5, seed=rng.randint(0, 10 ** 6))
        relabel = rng.random() < 0.3
        if relabel:
            G = nx.relabel_nodes(G, {u: 'n%d' % u for u in G})
        nodes = list(G.nodes())
        vals = [0.0, 0.5, 1.0, 1.0, 2.0, inf]
        dl = {(u, v): rng.choice(vals) for u in nodes for v in nodes}
        du = {u: rng.choice(vals) for u in nodes}
        seeds = rng.sample(nodes, rng.randint(1, min(2, Nn)))
        rest = [u for u in nodes if u not in seeds]
        rec = rng.sample(rest, rng.randint(0, min(2, len(rest)))) if rest else []
        tmin = rng.choice([0, 2.5, -1])
        tmax = rng.choice([inf, tmin + 2.0, tmin + 3.0])
        n += 1
        wit = dict(nodes=[str(x) for x in nodes], edges=[[str(a), str(b)] for a, b in G.edges()], delays={str(k): v for k, v in dl.items() if G.has_edge(*k)},
                   durations={str(k): v for k, v in du.items()}, seeds=[str(x) for x in seeds], recovered=[str(x) for x in rec], tmin=tmin, tmax=tmax)
        try:
            sim = EoN.fast_nonMarkov_SIR(G, trans_time_fxn=lambda u, v: dl[(u, v)], rec_time_fxn=lambda u: du[u], initial_infecteds=seeds,
                                          initial_recovereds=rec, tmin=tmin, tmax=tmax, return_full_data=True)
        except Exception as e:
            wit['observed'] = '%s: %s' % (type(e).__name__, e)
            return n, wit
        want = dijkstra_oracle(G, lambda u, v: dl[(u, v)], lambda u: du[u], seeds, set(rec), tmin, tmax)
        for u in nodes:
            ht, hs = sim.node_history(u)
            got_inf = [float(ht[i]) for i in range(len(ht)) if hs[i] == 'I']
            if u in want:
                if got_inf != [float(want[u])]:
                    wit['observed'] = 'node %s infected at %s, first-passage time is %s' % (u, got_inf, want[u])
                    return n, wit
                trec = want[u] + du[u]
                got_rec = [float(ht[i]) for i in range(len(ht)) if hs[i] == 'R']
                if trec < tmax and got_rec != [float(trec)]:
                    wit['observed'] = 'node %s recovers at %s, expected %s' % (u, got_rec, trec)
                    return n, wit
                if not trec < tmax and got_rec:
                    wit['observed'] = 'node %s recovery at %s reported although it is not before tmax' % (u, got_rec)
                    return n, wit
            elif got_inf and u not in rec:
                wit['observed'] = 'node %s infected at %s but is not reachable in the kept-edge digraph before tmax' % (u, got_inf)
                return n, wit
        for (t, src, tgt) in sim.transmissions():
            if src is None:
                continue
            if not (G.has_edge(src, tgt) and dl[(src, tgt)] <= du[src] and abs(want[src] + dl[(src, tgt)] - t) < 1e-12 and abs(want[tgt] - t) < 1e-12):
                wit['observed'] = 'recorded infector %s of %s at time %s is not a predecessor on a shortest path' % (src, tgt, t)
                return n, wit
        # percolation builder and get_infected_nodes
        H = EoN.nonMarkov_directed_percolate_network_with_timing(G, lambda u, v: dl[(u, v)], lambda u: du[u])
        if set(H.nodes()) != set(nodes) or set(H.edges()) != {(u, v) for u in nodes for v in G.neighbors(u) if dl[(u, v)] <= du[u]}:
            wit['observed'] = 'percolated digraph has edges %s' % sorted(map(str, H.edges()))
            return n, wit
    # get_infected_nodes: gamma = 0 makes every edge transmit -> component of the seeds after removing the recovered
    for trial in range(40):
        Nn = rng.randint(3, 8)
        G = nx.gnp_random_graph(Nn, 0.35, seed=rng.randint(0, 10 ** 6))
        nodes = list(G.nodes())
        seeds = rng.sample(nodes, 1)
        rest = [u for u in nodes if u not in seeds]
        rec = rng.sample(rest, rng.randint(0, min(2, len(rest))))
        n += 1
        got = EoN.get_infected_nodes(G, 1.0, 0.0, initial_infecteds=seeds, initial_recovereds=rec)
        Gm = G.copy(); Gm.remove_nodes_from(rec)
        want = set()
        for s in seeds:
            want |= nx.node_connected_component(Gm, s)
        if set(got) != want:
            return n, dict(edges=list(G.edges()), seeds=seeds, recovered=rec, observed='get_infected_nodes = %s, expected %s' % (sorted(got), sorted(want)))
        if G.number_of_nodes() != Nn or any(u not in G for u in rec):
            return n, dict(observed='get_infected_nodes modified the caller\'s graph')
    return n, None


# ------------------------------------------------------------------------------------------------ C17
def c17_native(nmax=4):
    import EoN
    n = 0
    for k in range(1, nmax + 1):
        pairs = [(a, b) for a in range(k) for b in range(k) if a != b]
        masks = range(1 << len(pairs)) if k <= 3 else random.Random(1).sample(range(1 << len(pairs)), 400)
        for mask in masks:
            H = nx.DiGraph(); H.add_nodes_from(range(k))
            H.add_edges_from(p for i, p in enumerate(pairs) if mask >> i & 1)
            n += 1
            try:
                PE, AR = EoN.estimate_SIR_prob_size_from_dir_perc(H)
            except Exception as e:
                return n, dict(nodes=k, edges=list(H.edges()), observed='%s: %s' % (type(e).__name__, e))
            sccs = list(nx.strongly_connected_components(H))
            big = max(len(c) for c in sccs)
            ok = False
            for c in sccs:
                if len(c) == big:
                    u = next(iter(c))
                    pe = (len(nx.ancestors(H, u)) + 1) / k
                    ar = (len(nx.descendants(H, u)) + 1) / k
                    if abs(pe - PE) < 1e-12 and abs(ar - AR) < 1e-12:
                        ok = True
            if not ok or not (0 <= PE <= 1 and 0 <= AR <= 1):
                return n, dict(nodes=k, edges=list(H.edges()), observed='(PE, AR) = (%s, %s) matches no largest strongly connected component' % (PE, AR))
    # percolation builders keep isolated nodes, also with weights=False
    G = small_graph()
    for w in (True, False):
        n += 1
        H = EoN.directed_percolate_network(G, 0.0, 1.0, weights=w)
        if set(H.nodes()) != set(G.nodes()) or H.number_of_edges() != 0:
            return n, dict(observed='directed_percolate_network(tau=0, weights=%s) has nodes %s' % (w, sorted(H.nodes())))
        H = EoN.directed_percolate_network(G, 1.0, 0.0, weights=w)
        if set(H.nodes()) != set(G.nodes()) or H.number_of_edges() != 2 * G.number_of_edges():
            return n, dict(observed='directed_percolate_network(gamma=0, weights=%s) has %d edges' % (w, H.number_of_edges()))
    random.seed(2)
    n += 1
    a, b = EoN.estimate_SIR_prob_size(G, 1.0)
    if a != b or abs(a - 6 / 7) > 1e-12:
        return n, dict(observed='estimate_SIR_prob_size(G, 1) = (%s, %s), largest component fraction is 6/7' % (a, b))
    xi = {u: u % 2 for u in G}; zeta = {u: u % 3 for u in G}
    n += 1
    H = EoN.nonMarkov_directed_percolate_network(G, xi, zeta, lambda x, z: x + z >= 2)
    if set(H.nodes()) != set(G.nodes()) or set(H.edges()) != {(u, v) for u in G for v in G.neighbors(u) if xi[u] + zeta[v] >= 2}:
        return n, dict(observed='nonMarkov_directed_percolate_network edges %s' % sorted(H.edges()))
    return n, None


# ------------------------------------------------------------------------------------------------ C20
def c20_native():
    import EoN
    n = 0
    graphs = []
    for G in (nx.path_graph(4), nx.star_graph(3), small_graph()):
        graphs.append(G)
    L = nx.cycle_graph(4); L.add_edge(0, 0); L.add_edge(2, 2)
    graphs.append(L)
    M = nx.MultiGraph(); M.add_edges_from([(0, 1), (0, 1), (1, 2), (2, 2)])
    graphs.append(M)
    for G in graphs:
        n += 1
        deg = [d for _, d in G.degree()]
        Pk = EoN.get_Pk(G)
        wit = dict(graph_type=type(G).__name__, edges=[list(e)[:2] for e in G.edges()])
        if abs(sum(Pk.values()) - 1) > 1e-12 or any(abs(Pk.get(k, 0) * len(deg) - deg.count(k)) > 1e-9 for k in set(deg) | set(Pk)):
            wit['observed'] = 'get_Pk = %s but the degree sequence is %s' % (Pk, deg)
            return n, wit
        k1 = sum(deg) / len(deg); k2 = sum(d * (d - 1) for d in deg) / len(deg)
        if abs(EoN.get_PGF(Pk)(1.0) - 1) > 1e-12 or abs(EoN.get_PGFPrime(Pk)(1.0) - k1) > 1e-9 or abs(EoN.get_PGFDPrime(Pk)(1.0) - k2) > 1e-9:
            wit['observed'] = 'PGF moments at 1 are wrong'
            return n, wit
        if k1 > 0 and abs(EoN.estimate_R0(G, tau=0.3, gamma=1.2) - 0.2 * k2 / k1) > 1e-9:
            wit['observed'] = 'estimate_R0 = %s, expected %s' % (EoN.estimate_R0(G, tau=0.3, gamma=1.2), 0.2 * k2 / k1)
            return n, wit
    return n, None


# ------------------------------------------------------------------------------------------------ C13
def sis_reference(G, seeds, tmin, tmax, duration, delays):
    """plain reference semantics: a node infected at s recovers at s+duration; it attempts transmission to each neighbour
    at s+delay for EVERY listed delay (the property does not filter by the duration); an attempt infects iff the neighbour is
    susceptible at that instant.  duration(u, k) / delays(u, v, k): k = how many times u has been infected before."""
    status = {u: 'S' for u in G}
    count = {u: 0 for u in G}
    hist = {u: ([tmin], ['S']) for u in G}
    events = []                       # (time, order, kind, u, v)
    c = itertools.count()
    def infect(u, t, first):
        status[u] = 'I'
        k = count[u]; count[u] += 1
        if first and t == tmin:
            hist[u] = ([tmin], ['I'])
        else:
            hist[u][0].append(t); hist[u][1].append('I')
        d = duration(u, k)
        if t + d < tmax:
            heapq.heappush(events, (t + d, 0, next(c), 'rec', u, None))
        for v in G.neighbors(u):
            for dl in delays(u, v, k):
                if t + dl < tmax:
                    heapq.heappush(events, (t + dl, 1, next(c), 'att', u, v))
    for s in seeds:
        infect(s, tmin, True)
    seen_times = set()
    while events:
        t, _, _, kind, u, v = heapq.heappop(events)
        if t > tmin and round(t, 9) in seen_times:
            return None               # two events at the same instant: outside the property's quantifier (distinct event times)
        seen_times.add(round(t, 9))
        if kind == 'rec':
            status[u] = 'S'
            hist[u][0].append(t); hist[u][1].append('S')
        elif status[v] == 'S':
            infect(v, t, False)
    return hist


UNSORTED = True


def c13_native(trials=400):
    import EoN
    n = 0
    rng = random.Random(13)
    for trial in range(trials):
        Nn = rng.randint(2, 6)
        G = nx.gnp_random_graph(Nn, 0.6, seed=rng.randint(0, 10 ** 6))
        if trial % 5 == 0:
            G = nx.relabel_nodes(G, {u: u + 1 for u in G})          # no node labelled 0 / falsy
        nodes = list(G.nodes())
        silent = {u for u in nodes if rng.random() < 0.3}           # nodes that never attempt a transmission
        short = {u for u in nodes if rng.random() < 0.3}            # nodes with a short infectious period
        tr = trial
        # distinct event times: incommensurable-ish deterministic values per (node, infection count) / (pair, count, index)
        def duration(u, k, short=short):
            return (0.331 if u in short else 0.731) + 0.413 * ((u * 7 + k * 3) % 5) + 0.0137 * u
        def delays(u, v, k, unsorted=(UNSORTED and trial % 3 == 0), silent=silent, tr=tr):
            if u in silent:
                return []
            base = [0.211 + 0.397 * ((u * 5 + v * 3 + k) % 4) + 0.0071 * (u + 2 * v), 1.103 + 0.291 * ((u + v + k) % 3) + 0.0053 * (2 * u + v),
                    2.377 + 0.173 * ((2 * u + v + k) % 5) + 0.0031 * (u + 3 * v)]
            m = (u + v + k + tr) % 4
            out = sorted(base)[:m]
            return out[::-1] if unsorted else out
        calls = {}
        def rec_time_fxn(u):
            k = calls.get(u, 0); calls[u] = k + 1
            return duration(u, k)
        def trans_time_fxn(u, v, dur):
            k = calls[u] - 1
            return [d for d in delays(u, v, k)]
        seeds = rng.sample(nodes, rng.randint(1, min(2, Nn)))
        tmin = rng.choice([0, 1.5, -3.25])
        tmax = tmin + rng.choice([2.0, 3.5, 5.0, 8.0])
        n += 1
        wit = dict(edges=list(G.edges()), nodes=nodes, seeds=seeds, tmin=tmin, tmax=tmax, unsorted_delay_lists=(trial % 3 == 0), silent_nodes=sorted(silent), short_period_nodes=sorted(short), trial=trial)
        def joint_fxn(u, nbrs):
            # the joint calling style: (node, its neighbours) -> ({neighbour: delay list}, duration); neighbours without attempts are omitted
            k = calls.get(u, 0); calls[u] = k + 1
            return ({v: list(delays(u, v, k)) for v in nbrs if delays(u, v, k)}, duration(u, k))
        style = 'joint function' if trial % 2 else 'separate functions'
        wit['calling_style'] = style
        try:
            if trial % 2:
                sim = EoN.fast_nonMarkov_SIS(G, trans_and_rec_time_fxn=joint_fxn, initial_infecteds=seeds, tmin=tmin, tmax=tmax, return_full_data=True)
            else:
                sim = EoN.fast_nonMarkov_SIS(G, trans_time_fxn=trans_time_fxn, rec_time_fxn=rec_time_fxn, initial_infecteds=seeds, tmin=tmin, tmax=tmax, return_full_data=True)
        except Exception as e:
            wit['observed'] = '%s: %s' % (type(e).__name__, e)
            return n, wit
        want = sis_reference(G, seeds, tmin, tmax, duration, lambda u, v, k: [d for d in delays(u, v, k) if True])
        if want is None:
            n -= 1
            continue
        for u in nodes:
            ht, hs = sim.node_history(u)
            a = [(round(float(x), 9), s) for x, s in zip(ht, hs)]
            b = [(round(float(x), 9), s) for x, s in zip(*want[u])]
            if a != b:
                wit['observed'] = 'history of node %s is %s, the reference semantics gives %s' % (u, a, b)
                return n, wit
    # ---- horizon boundary: tmax is set EXACTLY onto an event time of the run (binary fractions: float sums are exact); events
    # at or after tmax are not reported
    kept = 0
    for trial in range(600):
        if kept >= 40:
            break
        Nn = rng.randint(2, 5)
        G = nx.gnp_random_graph(Nn, 0.7, seed=rng.randint(0, 10 ** 6))
        nodes = list(G.nodes())
        dur = {(u, k): rng.randint(5, 28) / 8.0 for u in nodes for k in range(6)}
        dl = {(u, v, k): sorted(rng.sample(range(1, 30), rng.randint(0, 2))) for u in nodes for v in nodes for k in range(6)}
        duration = lambda u, k: dur[(u, min(k, 5))]
        delays = lambda u, v, k: [x / 8.0 for x in dl[(u, v, min(k, 5))]]
        seeds = [rng.choice(nodes)]
        tmin = rng.choice([0, 0.5, -2.25])
        long = sis_reference(G, seeds, tmin, tmin + 6.0, duration, delays)
        if long is None:
            continue
        ev_times = sorted({x for u in nodes for x in long[u][0] if x > tmin})
        if not ev_times:
            continue
        tmax = rng.choice(ev_times)
        want = sis_reference(G, seeds, tmin, tmax, duration, delays)
        if want is None:
            continue
        kept += 1
        n += 1
        calls = {}
        def rec_time_fxn(u):
            k = calls.get(u, 0); calls[u] = k + 1
            return duration(u, k)
        def trans_time_fxn(u, v, d):
            return list(delays(u, v, calls[u] - 1))
        wit = dict(edges=list(G.edges()), nodes=nodes, seeds=seeds, tmin=tmin, tmax=tmax, note='tmax coincides with an event time of the longer run',
                   durations={str(k): v for k, v in dur.items() if k[1] < 2}, delays={str(k): [x / 8.0 for x in v] for k, v in dl.items() if k[2] < 2 and v and G.has_edge(k[0], k[1])})
        try:
            sim = EoN.fast_nonMarkov_SIS(G, trans_time_fxn=trans_time_fxn, rec_time_fxn=rec_time_fxn, initial_infecteds=seeds, tmin=tmin, tmax=tmax, return_full_data=True)
        except Exception as e:
            wit['observed'] = '%s: %s' % (type(e).__name__, e)
            return n, wit
        for u in nodes:
            ht, hs = sim.node_history(u)
            a = [(round(float(x), 9), s) for x, s in zip(ht, hs)]
            b = [(round(float(x), 9), s) for x, s in zip(*want[u])]
            if a != b:
                wit['observed'] = 'history of node %s is %s, the reference semantics (events strictly before tmax) gives %s' % (u, a, b)
                return n, wit
    if kept < 10:
        raise RuntimeError('boundary trials: only %d tie-free trials' % kept)
    return n, None


# ------------------------------------------------------------------------------------------------ C03
class ScriptedRandom:
    """replacement for the `random` module inside EoN.simulation: records the rate of every expovariate call, returns a
    fixed waiting time, plays back `first_us` for the first uniform draws and then a seeded stream"""

    def __init__(self, seed, first_us=(), dt=0.125):
        self.rng = random.Random(seed)
        self.first = list(first_us)
        self.dt = dt
        self.rates = []

    def expovariate(self, rate):
        self.rates.append(rate)
        return self.dt

    def random(self):
        if self.first:
            return self.first.pop(0)
        return self.rng.random()

    def choice(self, seq):
        return seq[self.rng.randrange(len(seq))]

    def sample(self, pop, k):
        return self.rng.sample(list(pop), k)


def c03_specs():
    specs = []
    def dg(edges):
        D = nx.DiGraph()
        for a, b, attrs in edges:
            D.add_edge(a, b, **attrs)
        return D
    specs.append(('SIS', dg([('I', 'S', dict(rate=1.0))]), dg([(('I', 'S'), ('I', 'I'), dict(rate=2.0))]), ['S', 'I']))
    specs.append(('SIR weighted', dg([('I', 'R', dict(rate=1.5, weight_label='nw'))]), dg([(('I', 'S'), ('I', 'I'), dict(rate=0.5, weight_label='ew'))]), ['S', 'I', 'R']))
    specs.append(('SIS weighted (recurrent: items re-enter the weighted candidate lists)', dg([('I', 'S', dict(rate=2.0, weight_label='nw'))]),
                  dg([(('I', 'S'), ('I', 'I'), dict(rate=1.5, weight_label='ew'))]), ['S', 'I']))
    specs.append(('SIRS with rate functions (recurrent)', dg([('I', 'R', dict(rate=1.0, rate_function=lambda G, node: 1.0 + 0.5 * (node % 3))), ('R', 'S', dict(rate=3.0, rate_function=lambda G, node: 0.5 + 0.25 * (node % 2)))]),
                  dg([(('I', 'S'), ('I', 'I'), dict(rate=1.0, rate_function=lambda G, u, v: 0.5 + 0.3 * (u % 2) + 0.2 * (v % 3)))]), ['S', 'I', 'R']))
    specs.append(('SIRS', dg([('I', 'R', dict(rate=1.0)), ('R', 'S', dict(rate=0.25))]), dg([(('I', 'S'), ('I', 'I'), dict(rate=1.0))]), ['S', 'I', 'R']))
    specs.append(('SEIR', dg([('E', 'I', dict(rate=0.7)), ('I', 'R', dict(rate=1.0))]), dg([(('I', 'S'), ('I', 'E'), dict(rate=1.3))]), ['S', 'E', 'I', 'R']))
    specs.append(('competing', dg([('A', 'S', dict(rate=1.0)), ('B', 'S', dict(rate=0.5))]),
                  dg([(('A', 'S'), ('A', 'A'), dict(rate=1.0)), (('B', 'S'), ('B', 'B'), dict(rate=2.0)), (('A', 'B'), ('A', 'A'), dict(rate=0.3))]), ['S', 'A', 'B']))
    specs.append(('same-status pair rule', dg([('B', 'A', dict(rate=0.2))]), dg([(('A', 'A'), ('A', 'B'), dict(rate=1.0))]), ['A', 'B']))
    specs.append(('rate functions', dg([('I', 'R', dict(rate=1.0, rate_function=lambda G, node: 1.0 + G.degree(node)))]),
                  dg([(('I', 'S'), ('I', 'I'), dict(rate=1.0, rate_function=lambda G, u, v: 0.5 + 0.25 * G.degree(u) + 0.6 * G.degree(v) + 0.05 * u))]), ['S', 'I', 'R']))
    return specs


def c03_rates(G, H, J, status):
    """independent recomputation of every enabled transition and its rate from the current statuses"""
    out = {}
    for a, b, d in H.edges(data=True):
        for u in G:
            if status[u] == a:
                w = G.nodes[u][d['weight_label']] if 'weight_label' in d else (d['rate_function'](G, u) if 'rate_function' in d else 1.0)
                out[('spont', a, b, u)] = d['rate'] * w
    for (a1, a2), (b1, b2), d in J.edges(data=True):
        for u in G:
            for v in G.neighbors(u):
                if status[u] == a1 and status[v] == a2:
                    w = G.adj[u][v][d['weight_label']] if 'weight_label' in d else (d['rate_function'](G, u, v) if 'rate_function' in d else 1.0)
                    out[('ind', (a1, a2), (b1, b2), u, v)] = d['rate'] * w
    return out


def c03_native(parts=('a', 'b', 'c')):
    import EoN
    import EoN.simulation as sim_mod
    n = 0
    rng = random.Random(3)
    graphs = []
    G = nx.Graph(); G.add_edges_from([(0, 1), (1, 2), (2, 0), (2, 3)]); G.add_node(4); graphs.append(('undirected', G))
    D = nx.DiGraph(); D.add_edges_from([(0, 1), (1, 2), (2, 0), (3, 2), (1, 3), (1, 0), (2, 3), (3, 4)]); graphs.append(('directed (with reciprocal pairs)', D))
    # self-loops: (u, u) is an ordered neighbour pair like any other (it matters for rules whose source pair has two equal statuses)
    G2 = nx.Graph(); G2.add_edges_from([(0, 1), (1, 2), (2, 0), (2, 3), (1, 1), (3, 3)]); G2.add_node(4); graphs.append(('undirected with self-loops', G2))
    D2 = nx.DiGraph(); D2.add_edges_from([(0, 1), (1, 2), (2, 0), (1, 0), (2, 3), (3, 4), (2, 2), (0, 0)]); graphs.append(('directed with self-loops', D2))
    for _, g in graphs:
        for u, v in g.edges():
            g[u][v]['ew'] = 1.0 + ((u + 2 * v) % 3) * 0.5
        for u in g:
            g.nodes[u]['nw'] = 1.0 + (u % 2) * 0.5
    old = sim_mod.random
    try:
        for gname, Gx in graphs:
            for sname, H, J, statuses in c03_specs():
                for trial in range(6):
                    IC = {u: rng.choice(statuses) for u in Gx}
                    # ---- (a) every step: clock rate == total enabled rate of the CURRENT statuses; the event is an enabled transition
                    src = ScriptedRandom(trial)
                    sim_mod.random = src
                    n += 1
                    wit = dict(graph=gname, edges=list(Gx.edges()), model=sname, IC=dict(IC))
                    try:
                        sim = EoN.Gillespie_simple_contagion(Gx, H, J, dict(IC), statuses, tmax=3.0, return_full_data=True)
                    except Exception as e:
                        wit['observed'] = '%s: %s' % (type(e).__name__, e)
                        return n, wit
                    finally:
                        sim_mod.random = old
                    t = sim.t()
                    status = dict(IC)
                    events = sorted(((float(tt), u) for u in Gx for tt in sim.node_history(u)[0][1:]))
                    k = 0
                    if 'a' in parts:
                        rates = c03_rates(Gx, H, J, status)
                        for step, rate_used in enumerate(src.rates):
                            total = sum(rates.values())
                            if abs(rate_used - total) > 1e-9 * max(1.0, total):
                                wit['observed'] = 'step %d: waiting time drawn with rate %s, the enabled transitions sum to %s (statuses %s)' % (step, rate_used, total, status)
                                return n, wit
                            tt = 0.125 * (step + 1)
                            if tt >= 3.0:
                                break
                            changed = [u for u in Gx if any(abs(float(x) - tt) < 1e-12 for x in sim.node_history(u)[0][1:])]
                            if len(changed) != 1:
                                wit['observed'] = 'step %d at time %s: %d nodes change status (exactly one expected)' % (step, tt, len(changed))
                                return n, wit
                            u = changed[0]
                            idx = [i for i, x in enumerate(sim.node_history(u)[0]) if i > 0 and abs(float(x) - tt) < 1e-12][0]
                            new = sim.node_history(u)[1][idx]
                            ok = any((key[0] == 'spont' and key[3] == u and key[1] == status[u] and key[2] == new) or
                                     (key[0] == 'ind' and key[4] == u and key[1][1] == status[u] and key[2][1] == new) for key, r in rates.items() if r > 0)
                            if not ok:
                                wit['observed'] = 'step %d: node %s turns %s -> %s, which is not an enabled transition (statuses %s)' % (step, u, status[u], new, status)
                                return n, wit
                            status[u] = new
                            rates = c03_rates(Gx, H, J, status)
                        if sum(rates.values()) > 0 and len(src.rates) * 0.125 < 3.0 and False:
                            pass
                    # ---- (b) first event: over a grid of uniform draws, each transition TYPE is selected with its rate share
                    if 'b' not in parts:
                        continue
                    rates0 = c03_rates(Gx, H, J, IC)
                    total0 = sum(rates0.values())
                    if total0 <= 0:
                        continue
                    share = {}
                    for key, r in rates0.items():
                        typ = key[:3]
                        share[typ] = share.get(typ, 0.0) + r / total0
                    grid = 400
                    got = {}
                    for i in range(grid):
                        src = ScriptedRandom(i, [(i + 0.5) / grid])
                        sim_mod.random = src
                        try:
                            s1 = EoN.Gillespie_simple_contagion(Gx, H, J, dict(IC), statuses, tmax=0.2, return_full_data=True)
                        finally:
                            sim_mod.random = old
                        ch = [(u, s1.node_history(u)[1][1]) for u in Gx if len(s1.node_history(u)[0]) > 1]
                        if len(ch) != 1:
                            continue
                        u, new = ch[0]
                        tr = s1.transmissions()
                        typ = None
                        for key in rates0:
                            if key[0] == 'spont' and key[3] == u and key[2] == new and not [x for x in tr if x[2] == u and x[1] is not None]:
                                typ = key[:3]
                            if key[0] == 'ind' and key[4] == u and key[2][1] == new and [x for x in tr if x[2] == u and x[1] == key[3]]:
                                typ = key[:3]
                        got[typ] = got.get(typ, 0) + 1
                    for typ, p in share.items():
                        if abs(got.get(typ, 0) / grid - p) > 2.0 / grid + 1e-9:
                            wit['observed'] = 'first event: transition %s selected for a fraction %.4f of the uniform draws, its rate share is %.4f' % (typ, got.get(typ, 0) / grid, p)
                            return n, wit
            # ---- (c) same scripted draws, other ways of asking: plain arrays with a SUBSET of the statuses reported, tmin != 0, the initial
            # condition as a defaultdict with missing keys, the legacy wrapper Gillespie_Arbitrary: all describe the same run
            from collections import defaultdict as _dd
            for sname, H, J, statuses in (c03_specs()[:5] if 'c' in parts else []):
                IC = {u: rng.choice(statuses) for u in Gx}
                base = statuses[0]
                ICd = _dd(lambda base=base: base)
                for u, st in IC.items():
                    if st != base:
                        ICd[u] = st
                keys_before = set(ICd)
                n += 1
                wit = dict(graph=gname, edges=list(Gx.edges()), model=sname, IC=dict(IC), tmin=1.5, tmax=3.5)
                runs = {}
                try:
                    for label, call in (('full', lambda: EoN.Gillespie_simple_contagion(Gx, H, J, dict(IC), statuses, tmin=1.5, tmax=3.5, return_full_data=True)),
                                        ('plain-subset', lambda: EoN.Gillespie_simple_contagion(Gx, H, J, dict(IC), statuses[:-1], tmin=1.5, tmax=3.5)),
                                        ('plain-defaultdict', lambda: EoN.Gillespie_simple_contagion(Gx, H, J, ICd, statuses, tmin=1.5, tmax=3.5)),
                                        ('legacy-wrapper', lambda: EoN.Gillespie_Arbitrary(Gx, H, J, dict(IC), statuses, tmin=1.5, tmax=3.5))):
                        sim_mod.random = ScriptedRandom(77)
                        try:
                            runs[label] = call()
                        finally:
                            sim_mod.random = old
                except Exception as e:
                    wit['observed'] = '%s: %s' % (type(e).__name__, e)
                    return n, wit
                if set(ICd) != keys_before:
                    wit['observed'] = 'the caller\'s defaultdict initial condition gained keys %s' % sorted(set(ICd) - keys_before)
                    return n, wit
                full = runs['full']
                ft, fD = full.summary()
                for label in ('plain-subset', 'plain-defaultdict', 'legacy-wrapper'):
                    arrs = runs[label]
                    names = statuses[:-1] if label == 'plain-subset' else statuses
                    if len(arrs) != 1 + len(names) or float(arrs[0][0]) != 1.5:
                        wit['observed'] = '%s: returned %d arrays starting at time %s' % (label, len(arrs), arrs[0][0] if len(arrs) else None)
                        return n, wit
                    for k, st in enumerate(names):
                        for tt, val in zip(arrs[0], arrs[1 + k]):
                            want = sum(1 for u in Gx if full.node_status(u, tt) == st)
                            if int(val) != want:
                                wit['observed'] = '%s: count of %s at time %s is %s; the full-data run with the same draws has %d nodes in that status' % (label, st, tt, val, want)
                                return n, wit
    finally:
        sim_mod.random = old
    return n, None


# ------------------------------------------------------------------------------------------------ C02
def sis_master_equation(G, tau_uv, gamma_u, init, T):
    """exact state distribution at time T of the network SIS chain (all 2^n states; n <= 4)"""
    from scipy.linalg import expm
    nodes = list(G.nodes())
    n = len(nodes)
    idx = {u: i for i, u in enumerate(nodes)}
    Qm = np.zeros((2 ** n, 2 ** n))
    for s in range(2 ** n):
        for u in nodes:
            i = idx[u]
            if s >> i & 1:
                Qm[s, s & ~(1 << i)] += gamma_u(u)
            else:
                r = sum(tau_uv(v, u) for v in (G.predecessors(u) if G.is_directed() else G.neighbors(u)) if s >> idx[v] & 1)
                if r:
                    Qm[s, s | (1 << i)] += r
        Qm[s, s] = -Qm[s].sum()
    s0 = sum(1 << idx[u] for u in init)
    p = np.zeros(2 ** n); p[s0] = 1.0
    return p @ expm(Qm * T), idx


def c02_native(runs=6000):
    """(1) Gillespie_SIS under a scripted random source: every waiting time is drawn with the total rate of the CURRENT
    state; (2) fast_SIS and Gillespie_SIS: empirical state distribution at time tmin+T against the master equation
    (fixed seeds; tolerance 6 standard errors)"""
    import EoN
    import EoN.simulation as sim_mod
    n = 0
    G = nx.Graph(); G.add_edges_from([(0, 1), (1, 2), (2, 3), (1, 3)])
    ew = {(0, 1): 1.0, (1, 2): 2.0, (2, 3): 0.5, (1, 3): 1.5}
    for (u, v), w in ew.items():
        G[u][v]['w'] = w
    for u in G:
        G.nodes[u]['r'] = 1.0 + 0.5 * (u % 2)
    tau, gamma = 0.8, 1.1
    # ---- (1)
    old = sim_mod.random
    try:
        for weighted in (False, True):
            for trial in range(8):
                n += 1
                src = ScriptedRandom(100 + trial)
                sim_mod.random = src
                kw = dict(transmission_weight='w', recovery_weight='r') if weighted else {}
                wit = dict(simulator='Gillespie_SIS', weighted=weighted, edges=list(G.edges(data='w')), initial_infecteds=[0, 2], tau=tau, gamma=gamma)
                try:
                    sim = EoN.Gillespie_SIS(G, tau, gamma, initial_infecteds=[0, 2], tmin=-1.0, tmax=4.0, return_full_data=True, **kw)
                except Exception as e:
                    wit['observed'] = '%s: %s' % (type(e).__name__, e)
                    return n, wit
                finally:
                    sim_mod.random = old
                for step, rate_used in enumerate(src.rates):
                    tt = -1.0 + 0.125 * step
                    st = sim.get_statuses(time=tt)
                    tw = (lambda a, b: G[a][b]['w']) if weighted else (lambda a, b: 1.0)
                    rw = (lambda a: G.nodes[a]['r']) if weighted else (lambda a: 1.0)
                    total = gamma * sum(rw(u) for u in G if st[u] == 'I') + tau * sum(tw(u, v) for u in G for v in G.neighbors(u) if st[u] == 'I' and st[v] == 'S')
                    if abs(rate_used - total) > 1e-9 * max(1, total):
                        wit['observed'] = 'step %d: waiting time drawn with rate %s, the current state %s has total rate %s' % (step, rate_used, st, total)
                        return n, wit
    finally:
        sim_mod.random = old
    # ---- (2)
    P = nx.path_graph(3)
    P[0][1]['w'] = 1.0; P[1][2]['w'] = 2.0
    for u in P:
        P.nodes[u]['r'] = 1.0 + 0.5 * (u % 2)
    T = 1.2
    sims = {'fast_SIS': EoN.fast_SIS, 'Gillespie_SIS': EoN.Gillespie_SIS}
    for name, f in sims.items():
        for weighted in (False, True):
            for tmin in (0, -6, 2.5):
                n += 1
                kw = dict(transmission_weight='w', recovery_weight='r') if weighted else {}
                tw = (lambda a, b: tau * P[a][b]['w']) if weighted else (lambda a, b: tau)
                rw = (lambda a: gamma * P.nodes[a]['r']) if weighted else (lambda a: gamma)
                want, idx = sis_master_equation(P, tw, rw, [1], T)
                got = np.zeros(8)
                random.seed(12345 + n); np.random.seed(12345 + n)
                for _ in range(runs):
                    sim = f(P, tau, gamma, initial_infecteds=[1], tmin=tmin, tmax=tmin + T + 0.5, return_full_data=True, **kw)
                    st = sim.get_statuses(time=tmin + T)
                    got[sum(1 << idx[u] for u in P if st[u] == 'I')] += 1
                got /= runs
                se = np.sqrt(np.maximum(want * (1 - want), 1e-4) / runs)
                worst = int(np.argmax(np.abs(got - want) / se))
                if abs(got[worst] - want[worst]) > 6 * se[worst]:
                    return n, dict(simulator=name, weighted=weighted, tmin=tmin, horizon=T, tau=tau, gamma=gamma, graph='path 0-1-2 (weights 1, 2; node weights 1, 1.5, 1)', runs=runs,
                                   observed='state %s (bit i = node i infected) at time tmin+%s has empirical probability %.4f, the master equation gives %.4f (6 standard errors = %.4f)' % (
                                       format(worst, '03b')[::-1], T, got[worst], want[worst], 6 * se[worst]))
    return n, None


# ------------------------------------------------------------------------------------------------ C01
def c01_native(runs=6000):
    """fast_SIR (constant-rate fast path, weighted path, zero-rate path) and Gillespie_SIR: empirical distribution of the full state
    vector at time tmin+T on a 4-node graph against the 81-state SIR master equation (fixed seeds; tolerance 6 standard errors), with
    and without edge / node weights, with an initially recovered node, tmin in {0, -3.5}"""
    import EoN
    from . import tree_exact_native as TE
    from scipy.linalg import expm
    n = 0
    G = nx.Graph(); G.add_edges_from([(0, 1), (1, 2), (2, 0), (2, 3)])
    for (u, v), w in {(0, 1): 1.0, (1, 2): 2.0, (2, 0): 0.5, (2, 3): 1.5}.items():
        G[u][v]['w'] = w
    for u in G:
        G.nodes[u]['r'] = 1.0 + 0.75 * (u % 2)
    nodes = list(G.nodes())
    idx = {u: i for i, u in enumerate(nodes)}
    states = list(itertools.product((0, 1, 2), repeat=len(nodes)))
    sid = {s: k for k, s in enumerate(states)}

    def exact(rate_uv, rate_u, inf, rec, T):
        Q = np.zeros((len(states), len(states)))
        for s in states:
            k = sid[s]
            for u in nodes:
                i = idx[u]
                if s[i] == 1:
                    Q[k, sid[s[:i] + (2,) + s[i + 1:]]] += rate_u(u)
                elif s[i] == 0:
                    r = sum(rate_uv(v, u) for v in G.neighbors(u) if s[idx[v]] == 1)
                    if r:
                        Q[k, sid[s[:i] + (1,) + s[i + 1:]]] += r
            Q[k, k] = -Q[k].sum()
        s0 = tuple(1 if u in inf else (2 if u in rec else 0) for u in nodes)
        p0 = np.zeros(len(states)); p0[sid[s0]] = 1.0
        return p0 @ expm(Q * T)
    T = 1.6
    configs = [('unweighted', 0.8, 1.1, {}), ('edge and node weights', 0.8, 1.1, dict(transmission_weight='w', recovery_weight='r')),
               ('node weights only (constant-rate fast path of fast_SIR)', 0.8, 1.1, dict(recovery_weight='r')),
               ('gamma = 0', 0.8, 0.0, {}), ('edge weights only', 0.6, 1.0, dict(transmission_weight='w'))]
    for simname in ('fast_SIR', 'Gillespie_SIR'):
        f = getattr(EoN, simname)
        for cname, tau, gamma, kw in configs:
            for tmin, inf, rec in ((0, [0], []), (-3.5, [1], [3]), (0.5, [0, 1], [])):
                n += 1
                ruv = (lambda a, b: tau * G[a][b]['w']) if 'transmission_weight' in kw else (lambda a, b: tau)
                ru = (lambda a: gamma * G.nodes[a]['r']) if 'recovery_weight' in kw else (lambda a: gamma)
                want = exact(ruv, ru, set(inf), set(rec), T)
                got = np.zeros(len(states))
                random.seed(4242 + n); np.random.seed(4242 + n)
                for _ in range(runs):
                    sim = f(G, tau, gamma, initial_infecteds=list(inf), initial_recovereds=list(rec), tmin=tmin, tmax=tmin + T + 0.5, return_full_data=True, **kw)
                    st = sim.get_statuses(time=tmin + T)
                    got[sid[tuple({'S': 0, 'I': 1, 'R': 2}[st[u]] for u in nodes)]] += 1
                got /= runs
                se = np.sqrt(np.maximum(want * (1 - want), 1e-4) / runs)
                worst = int(np.argmax(np.abs(got - want) / se))
                if abs(got[worst] - want[worst]) > 6 * se[worst]:
                    return n, dict(simulator=simname, configuration=cname, tau=tau, gamma=gamma, tmin=tmin, initial_infecteds=inf, initial_recovereds=rec, horizon=T, runs=runs,
                                   graph='triangle 0-1-2 with a pendant node 3 (edge weights 1, 2, 0.5, 1.5; node weights 1, 1.75, 1, 1.75)',
                                   observed='state %s (S/I/R per node 0..3) at time tmin+%s has empirical probability %.4f, the master equation gives %.4f (6 standard errors = %.4f)' % (
                                       ''.join('SIR'[x] for x in states[worst]), T, got[worst], want[worst], 6 * se[worst]))
    return n, None


# ------------------------------------------------------------------------------------------------ C15
def c15_native():
    """Gillespie_complex_contagion under a scripted random source: at EVERY step the waiting time is drawn with the sum of the user's
    rate function over the CURRENT statuses (recomputed independently), the node that changes had a positive rate and takes the
    chooser's status.  Models: SIR and SIRS as complex contagions, a threshold model, cumulative exposure; influence sets returned as
    list / set / one-shot iterator (G.neighbors) / generator; an influence function that depends on the node's NEW status; isolated
    nodes with a positive rate; tmin != 0."""
    import EoN
    import EoN.simulation as sim_mod
    n = 0
    G = nx.Graph(); G.add_edges_from([(0, 1), (1, 2), (2, 0), (2, 3), (3, 4)]); G.add_nodes_from([5, 6])

    def sir_rate(G_, node, status, par):
        tau, gamma = par
        if status[node] == 'S':
            return tau * sum(1 for nb in G_.neighbors(node) if status[nb] == 'I')
        return gamma * (1.0 + 0.5 * (node % 2)) if status[node] == 'I' else 0.0

    def sirs_rate(G_, node, status, par):
        tau, gamma = par
        if status[node] == 'R':
            return 0.7
        return sir_rate(G_, node, status, par)

    def expo_rate(G_, node, status, par):           # cumulative exposure: neighbours in I or R count
        tau, gamma = par
        if status[node] == 'S':
            return tau * sum(1 for nb in G_.neighbors(node) if status[nb] in ('I', 'R'))
        return gamma if status[node] == 'I' else 0.0

    def thr_rate(G_, node, status, par):            # threshold: needs 2 infected neighbours; infected never recover
        return 1.5 if status[node] == 'S' and sum(1 for nb in G_.neighbors(node) if status[nb] == 'I') >= 2 else 0.0

    def choose(G_, node, status, par):
        return {'S': 'I', 'I': 'R', 'R': 'S'}[status[node]]
    infl = {
        'list': lambda G_, node, status, par: list(G_.neighbors(node)),
        'set': lambda G_, node, status, par: set(G_.neighbors(node)),
        'one-shot iterator G.neighbors(node)': lambda G_, node, status, par: G_.neighbors(node),
        'generator': lambda G_, node, status, par: (nb for nb in G_.neighbors(node)),
        # only a node that has just become infected or recovered changes its neighbours' rates in the exposure model: depends on the NEW status
        'depends on the new status': lambda G_, node, status, par: [nb for nb in G_.neighbors(node) if status[nb] == 'S'] if status[node] == 'I' else [],
    }
    models = [('SIR', sir_rate, ['list', 'set', 'one-shot iterator G.neighbors(node)', 'generator']), ('SIRS', sirs_rate, ['list', 'one-shot iterator G.neighbors(node)']),
              ('threshold', thr_rate, ['set', 'generator']), ('cumulative exposure', expo_rate, ['depends on the new status', 'list'])]
    old = sim_mod.random
    rng = random.Random(15)
    try:
        for mname, rate, kinds in models:
            for kind in kinds:
                for trial in range(5):
                    n += 1
                    IC = {u: rng.choice(['S', 'S', 'I', 'R'] if mname != 'threshold' else ['S', 'I']) for u in G}
                    tmin = rng.choice([0, 2.5, -1.0])
                    src = ScriptedRandom(1000 + n)
                    sim_mod.random = src
                    wit = dict(model=mname, influence_set=kind, edges=list(G.edges()), isolated=[5, 6], IC=dict(IC), tmin=tmin, parameters=(0.9, 1.2))
                    try:
                        sim = EoN.Gillespie_complex_contagion(G, rate, choose, infl[kind], dict(IC), ['S', 'I', 'R'], parameters=(0.9, 1.2), tmin=tmin, tmax=tmin + 3.0, return_full_data=True)
                    except Exception as e:
                        wit['observed'] = '%s: %s' % (type(e).__name__, e)
                        return n, wit
                    finally:
                        sim_mod.random = old
                    status = dict(IC)
                    for step, used in enumerate(src.rates):
                        rates = {u: rate(G, u, status, (0.9, 1.2)) for u in G}
                        total = sum(rates.values())
                        if abs(used - total) > 1e-9 * max(1.0, total):
                            wit['observed'] = 'step %d: waiting time drawn with rate %s, the rates of the current statuses %s sum to %s' % (step, used, status, total)
                            return n, wit
                        tt = tmin + 0.125 * (step + 1)
                        if tt >= tmin + 3.0:
                            break
                        changed = [u for u in G if any(abs(float(x) - tt) < 1e-12 for x in sim.node_history(u)[0][1:])]
                        if len(changed) != 1:
                            wit['observed'] = 'step %d at time %s: %d nodes change status' % (step, tt, len(changed))
                            return n, wit
                        u = changed[0]
                        i = [k for k, x in enumerate(sim.node_history(u)[0]) if k > 0 and abs(float(x) - tt) < 1e-12][0]
                        new = sim.node_history(u)[1][i]
                        if rates[u] <= 0 or new != choose(G, u, status, None):
                            wit['observed'] = 'step %d: node %s (rate %s) moves %s -> %s; the chooser says %s' % (step, u, rates[u], status[u], new, choose(G, u, status, None))
                            return n, wit
                        status[u] = new
                    # the run may only stop before tmax when nothing can happen any more
                    last_t = tmin + 0.125 * len(src.rates)
                    if last_t < tmin + 3.0 and sum(rate(G, u, status, (0.9, 1.2)) for u in G) > 0:
                        wit['observed'] = 'the run stops at %s < tmax although the rates of the final statuses %s are positive' % (last_t, status)
                        return n, wit
    finally:
        sim_mod.random = old
    return n, None
