"""usage: mkmeta_r7.py <seeded-id> <detected_by> <history> [props-run]  -- writes seeded/<id>/meta.json from the sub-agent's notes.json"""
import json, sys, os
sid, det, hist = sys.argv[1], sys.argv[2], sys.argv[3]
d = '/verif/seeded/' + sid
n = json.load(open(d + '/notes.json')) if os.path.exists(d + '/notes.json') else {}
prop = sid.split('_')[0]
meta = {
    'property': n.get('property', prop),
    'summary': n.get('summary', ''),
    'needs': n.get('needs', ''),
    'tests_run': n.get('tests_run', ''),
    'author': 'independent sub-agent (round 7: given only the property text and a scratch worktree; asked for changes that need something specific to manifest)',
    'confirmed': 'demo.py exits 0 on a scratch copy of the unchanged tree and 1 with patch.diff applied (tools/try_seeded2.sh)',
    'detected_by': det,
    'history': hist,
    'how_to_run': 'git -C /repo apply /verif/seeded/%s/patch.diff; ./check %s --tier quick; git -C /repo checkout -- .' % (sid, prop),
}
json.dump(meta, open(d + '/meta.json', 'w'), indent=1)
if os.path.exists(d + '/notes.json'):
    os.remove(d + '/notes.json')
print('meta written for', sid)
