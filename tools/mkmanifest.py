#!/usr/bin/env python3
"""Regenerates /verif/MANIFEST.json from the table below (kept in one place so that it stays valid)."""
import json, os
HERE = os.path.dirname(os.path.dirname(os.path.abspath(__file__)))
PROP_IDS = ['C%02d' % i for i in range(1, 21)]

CHECKS = {
 'C16': dict(
    category='proof',
    text='Every _ListDict_ method (both key sorts used by the simulators) is verified against a whole-view contract: the '
         'representation invariant (position map inverse of the item list, 0<=weight<=max_weight, total = sum of weights) is '
         'established by __init__ and preserved by insert/update/remove for ALL states and arguments (unbounded: node sort '
         'uninterpreted, quantified VCs discharged by z3), so it holds after any history; choose_random draws uniformly from '
         'exactly the candidate list and accepts with weight/normaliser in [0,1]; lemma REJ turns that into weight/sum.',
    design_ref='DESIGN.md section 5 "C16", sections 3.1, 3.9',
    note='Trusted: own VC generator; reals for floats; assumed library contracts (random.choice/random, Counter, max); '
         'finite-sum update lemmas; geometric-series step cited (M); termination of the rejection loop not proved; '
         'negative increments outside the property.',
    technique='contract-based deductive verification: AST->VC symbolic execution of the real methods, z3 (quantified, unbounded), finite-scope counter-models + native replay'),
 'C20': dict(
    category='other',
    text='subsample (one/two/three series, recursion checked against its own contract), get_time_shift, get_Pk and estimate_R0 '
         'are verified for all inputs by VC generation from the real source + z3 (lists of any length, graphs of any order; '
         'spec function lastidx = last observation at or before a report time); the generating-function helpers by term-wise '
         'obligations over a symbolic integer k (any maxk: summand = spec, each function the term-wise derivative of the previous); '
         'get_Pnk only by a bounded native stand-in (all labelled graphs <= 5 nodes), labelled bounded and not counted as proved - hence level other.',
    design_ref='DESIGN.md section 5 "C20"',
    note='Trusted: own VC generator; numpy contracts (array copy, linspace(0,m,m+1)=[0..m], dot, elementwise ops); Counter/dict(G.degree()) '
         'contracts; sum_k #{deg=k}=N and <k> > 0 iff an edge exists are cited finite-sum facts; estimate_R0 requires an edge and tau+gamma>0.',
    technique='contract-based deductive verification (AST->VC + z3, loop invariants, spec functions); term-wise AST obligations for the PGF lambdas; bounded native enumeration for get_Pnk'),
}

NOT_APPLICABLE = {}

def main():
    checks = []
    for pid in PROP_IDS:
        if pid not in CHECKS:
            continue
        c = CHECKS[pid]
        checks.append(dict(
            property_id=pid,
            quick_cmd='./check %s --tier quick' % pid,
            thorough_cmd='./check %s --tier thorough' % pid,
            evidence_file='/verif/evidence/%s.json' % pid,
            replay_cmd_template='./check %s --replay {path}' % pid,
            engine='pyvc',
            level_claimed=dict(category=c['category'], text=c['text'], design_ref=c['design_ref']),
            level_note=c['note'],
            technique=c['technique']))
    na = []
    for pid in PROP_IDS:
        if pid not in CHECKS:
            na.append(dict(property_id=pid, reason=NOT_APPLICABLE.get(pid, 'contracts for this property are not completed yet (build in progress, see DESIGN.md section 8); nothing is claimed')))
    m = dict(
        version=1,
        setup_cmd='./setup.sh',
        hooks=dict(guard='FABMAZZ_EPIDEMICS_ON_NETWORKS_VERIF', enable='no source hooks are needed: contracts are sidecar files under /verif/vlib/contracts and the checks read /repo sources directly',
                   baseline_off_cmd='cd /repo && /venv/bin/python -m pytest -ra -q -p no:cacheprovider --timeout=900 --continue-on-collection-errors',
                   source_commits=[], add_only=True),
        engines=[
            dict(name='pyvc', path='/verif/vlib/pyvc', serves_properties=sorted(CHECKS), kind_free_text='E1: own AST->z3 verification-condition generator for the real Python functions, sidecar contracts, proof mode (uninterpreted node sort, quantifiers) + finite-scope refutation mode'),
        ],
        checks=checks,
        notes='All checks: exit 0 = every obligation discharged; 1 = refuted obligation (VIOLATION line); 2 = undecided (never a VIOLATION line); 3 = checker crash. See DESIGN.md section 2.',
        not_applicable=na)
    with open(os.path.join(HERE, 'MANIFEST.json'), 'w') as fh:
        json.dump(m, fh, indent=1)
    try:
        import jsonschema
        jsonschema.validate(m, json.load(open('/root/.vp/MANIFEST.schema.json')))
        print('MANIFEST.json written and valid: %d checks, %d not_applicable' % (len(checks), len(na)))
    except ImportError:
        print('MANIFEST.json written (jsonschema not available to validate)')

if __name__ == '__main__':
    main()
