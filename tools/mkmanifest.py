#!/usr/bin/env python3
"""Regenerates /verif/MANIFEST.json from the table below (kept in one place so that it stays valid)."""
import json, os
HERE = os.path.dirname(os.path.dirname(os.path.abspath(__file__)))
PROP_IDS = ['C%02d' % i for i in range(1, 21)]

CHECKS = {
 'C16': dict(
    category='proof',
    text='Every _ListDict_ method (both key sorts used by the simulators) is verified against a whole-view contract: the '
         'representation invariant (position map inverse of the item list, 0<=weight<=max_weight, total = sum of weights) is '
         'established by __init__ and preserved by insert/update/remove for ALL states and arguments (unbounded: node sort '
         'uninterpreted, quantified VCs discharged by z3), so it holds after any history; choose_random draws uniformly from '
         'exactly the candidate list and accepts with weight/normaliser in [0,1]; lemma REJ turns that into weight/sum.',
    design_ref='DESIGN.md section 5 "C16", sections 3.1, 3.9',
    note='Trusted: own VC generator; reals for floats; assumed library contracts (random.choice/random, Counter, max); '
         'finite-sum update lemmas; geometric-series step cited (M); termination of the rejection loop not proved; '
         'negative increments outside the property.',
    technique='contract-based deductive verification: AST->VC symbolic execution of the real methods, z3 (quantified, unbounded), finite-scope counter-models + native replay'),
 'C01': dict(
    category='proof',
    text='Gillespie_SIR: the view/rate loop invariants (infecteds = {u->w_u | I}, IS_links = {(u,v)->w_uv | adj,I,S}, rates = gamma*sum, tau*sum) '
         'are established and preserved for graphs of any order (node sort uninterpreted), so in EVERY reachable state the expovariate '
         'argument is the chain\'s total rate and the branch threshold recovery/total; actors are drawn through the _ListDict_ contracts, whose units (C16) are re-verified inside this check. fast_SIR: '
         'delegation-site obligations (delay rules draw Exp(tau*w_uv), Exp(gamma*w_u), infinite for rate 0; fast path = binomial + sample + truncated '
         'exponential), handler contracts, queue rule (lemma unit: one event-loop step preserves the global invariant). The step from these '
         'per-state facts to equality in law is cited (Gillespie direct method, thinning, Sellke/Dijkstra), not machine-checked; a bounded native comparison of the state distribution '
         'on a 4-node graph with the 81-state master equation backs it up (supplementary).',
    design_ref='DESIGN.md section 5 "C01", 3.1 (queue rule), 3.4',
    note='Trusted: own VC generator; reals for floats; positive weights; distinct/disjoint initial sets; assumed random/numpy/heapq/networkx contracts; '
         'finite-sum lemmas; M-steps (Gillespie direct method, thinning, Sellke) cited; termination not proved.',
    technique='contract-based deductive verification: loop invariants + draw-site obligations on the real simulators, modular callee contracts, z3 (quantified, unbounded) + finite-scope refutation'),
 'C02': dict(
    category='proof',
    text='Gillespie_SIS: view/rate loop invariants with link re-insertion on recovery, draw-site obligations, all ways of passing the initial condition, weighted and unweighted, '
         'graphs of any order (the _ListDict_ units it relies on are re-verified inside this check). fast_SIS: the three handlers under contract (_find_next_trans_SIS_Markov: queued time = now + Exp(rate), re-drawn from the target\'s recovery time '
         'when it falls before it, queued only if before the source\'s recovery and tmax; _process_trans_SIS_Markov: infect iff susceptible, recovery ~ Exp(rec rate), one attempt chain '
         'started per neighbour and the source\'s chain continued exactly once, event arguments bound onto the handler\'s own signature; _process_rec_SIS_), and the event loop by the queue rule '
         '(lemma unit event_step_SIS: one step preserves the global invariant: rows, pending events in [now, tmax), a pending recovery sits at rec_time of an infected node, a pending attempt u->v '
         'comes from an infected u strictly before rec_time[u], a susceptible node\'s rec_time is not in the future, initial infections first). A bounded native comparison with the master '
         'equation backs this up (supplementary).',
    design_ref='DESIGN.md section 5 "C02", 9.3',
    note='As C01. Memorylessness of the re-draw and the step from per-event facts to equality in law are cited (M). "Every infected node has its recovery pending" is not part of the proved invariant.',
    technique='contract-based deductive verification: loop invariants + draw-site and call-site obligations, queue-rule lemma over handler contracts, z3 (quantified, unbounded) + finite-scope refutation'),
 'C03': dict(
    category='other',
    text='Bounded stand-in only (labelled bounded): Gillespie_simple_contagion runs unmodified under a scripted random source on 9 model specifications x directed/undirected '
         '5-node graphs (with and without self-loops) x 6 initial conditions; at EVERY step the rate handed to expovariate equals the sum of the rates of the transitions enabled in the current statuses '
         '(recomputed from the two specification graphs, weights and rate functions), exactly one node changes per event and the change is an enabled transition; over a grid '
         'of the selecting uniform draw each transition type is chosen with its rate share.',
    design_ref='DESIGN.md section 5 "C03"',
    note='No unbounded contract: the candidate bookkeeping (dicts keyed by specification edges, nested closures) is outside the VC generator\'s subset. Gillespie direct method cited.',
    technique='bounded check of the real function against an independent rate oracle with a scripted random source (stand-in for contracts out of reach)'),
 'C04': dict(
    category='proof',
    text='The row invariant (equal lengths, times[0]=tmin, non-decreasing, < tmax, counts >= 0 summing to N, consecutive rows differ by one legal move) '
         'is a conjunct of the proved loop invariants of Gillespie_SIR/SIS and of the global event-loop invariants of fast_nonMarkov_SIR, fast_SIS and fast_nonMarkov_SIS '
         '(queue rule), and implies the postcondition over the returned, trimmed arrays, for all graphs/rates/horizons/initial sets; the discrete-time rows (t[j] = tmin + j <= tmax, '
         'counts >= 0 summing to N) are loop invariants of discrete_SIR and basic_discrete_SIS. '
         'Crash-freedom obligations (expovariate rate > 0, index/key safety, definite assignment) are discharged on the same paths. '
         'Other simulators are listed as not covered.',
    design_ref='DESIGN.md section 5 "C04"',
    note='As C01. Partial in the set of simulators (see evidence.not_covered). Termination not proved.',
    technique='contract-based deductive verification: loop / global invariants, safety VCs, queue-rule lemma, z3'),
 'C05': dict(
    category='proof',
    text='Row 0 = (N-k-r0, k, r0) with k = len(collection) | 1 (single node) | int(round(N*rho)) (site obligation on random.sample: that many '
         'distinct nodes of G), initially recovered nodes stay recovered, EoNError exactly when rho and initial_infecteds are both given '
         '(is-not-None semantics), for Gillespie_SIR, Gillespie_SIS, fast_nonMarkov_SIR, fast_SIR, fast_SIS, fast_nonMarkov_SIS, discrete_SIR, basic_discrete_SIS (plain arrays); every internal call site of simulation.py '
         'binds its wrapper parameters to the callee parameters of the same name (delegation-binding analysis, all inputs).',
    design_ref='DESIGN.md section 5 "C05", 3.2',
    note='As C01; binding schema restricted to the named forwarding parameters. Wrappers (basic_discrete_SIR, percolation_based_discrete_SIR, Gillespie_Arbitrary): binding only.',
    technique='contract-based deductive verification (postconditions, raises clauses, site obligations) + delegation-binding flow analysis'),
 'C06': dict(
    category='other',
    text='Unbounded: every internal call site of analytic.py binds the wrapper parameters to the callee parameters of the same name (delegation binding) and no '
         'function loads a never-bound name ("accepted rather than crashing"). Bounded stand-in (labelled bounded): every graph-based entry point is executed '
         'unmodified on small graphs with symbolic tau/gamma/rho and the odeint contract stub: times == linspace, row 0 == the requested initial state, '
         'S+I(+R) == N in every row (identically, or because the gradient of the total annihilates the model\'s own right-hand side); each full-data series '
         'named X starts from the input X0 for the direct models. Compartments within [0,N] and monotone S/R are NOT decided.',
    design_ref='DESIGN.md section 5 "C06", 3.3',
    note='odeint contract stub; sympy; bounded in graphs / array shapes / tcount; orthant invariance assumed; level other because the deciding part is bounded.',
    technique='delegation-binding + definite-assignment flow analyses (all inputs); symbolic execution of the real numpy code against the odeint contract (bounded)'),
 'C07': dict(
    category='other',
    text='Bounded stand-in: for the SIR hierarchy (EBCM, compact and super-compact pairwise) on a non-regular graph, the pairwise and mean-field families on a '
         'regular graph (SIS and SIR), and preferential-mixing EBCM with uncorrelated mixing vs EBCM, the exact Lie derivatives of S, I, R at tmin up to order 2 '
         '(thorough: 3) - computed from the real right-hand sides and initial-condition code with the odeint contract stub - coincide as symbolic expressions in '
         'tau, gamma, rho. Necessary condition only; effective-degree and node-level models are not covered (right-hand sides not evaluable on exact values).',
    design_ref='DESIGN.md section 5 "C07"',
    note='M (cited): semiconjugacy + uniqueness of ODE solutions give equality of whole curves. Bounded in order and graphs.',
    technique='symbolic execution of the real right-hand sides (sympy Lie derivatives) against the odeint contract + real numeric solves for the models not evaluable on exact values + body of _my_odeint_ against the assumed scipy.integrate.ode contract (all bounded)'),
 'C08': dict(
    category='other',
    text='Bounded stand-ins: tau=0 gives I\'=-gamma I, I\'\'=gamma^2 I (S constant for SIR models, S=N-I for SIS) from the exact Lie derivatives of every evaluable '
         'ODE wrapper; gamma=0: SIS and SIR versions have identical Lie derivatives of S up to order 3; EBCM_discrete satisfies R(t+1)=R(t)+I(t) exactly for symbolic '
         'p, rho; attack rates agree numerically with the long-time limits of EBCM / EBCM_discrete; SIR_pair_based_pure_IC equals the 3^N-state master-equation expectation on small trees '
         '(<= 6 nodes, all single seeds, weights on edges and nodes, tmin != 0; tolerance 2e-4).',
    design_ref='DESIGN.md section 5 "C08"',
    note='The tree-exactness clause is a theorem about the closure and is only checked up to a stated bound. Bounded in order / graphs / degree distributions.',
    technique='symbolic execution of the real right-hand sides (sympy) + bounded native numeric comparisons (final sizes; 3^N master equation on small trees) + body of _my_odeint_ against the assumed scipy.integrate.ode contract'),
 'C14': dict(
    category='other',
    text='Unbounded: opacity analysis - in no function of analytic.py does a name bound by iterating over nodes subscript an array, so node labels are only hashed and '
         'compared (relabelling commutes with the code up to iteration order). Bounded stand-in: every graph-based ODE entry point is executed on graphs and on '
         'relabelled / re-ordered copies (string labels, permuted integers, reversed insertion order, explicit nodelist in another order) and S, I, R and their '
         'time derivatives at tmin are compared exactly; deterministic-rule simulators are compared natively through per-node histories.',
    design_ref='DESIGN.md section 5 "C14"',
    note='First-order comparison at tmin; iteration order only affects floating-point rounding (as the property allows).',
    technique='opacity typing analysis (all inputs) + relational symbolic execution of the real code on relabelled graphs (bounded)'),
 'C09': dict(
    category='other',
    text='Unbounded for the event-driven SIR simulators: _process_trans_SIR_ appends (time, source, target) exactly when the target turns S->I at that time; the global event-loop '
         'invariant (queue rule lemma) keeps one entry per infection, source-less entries = the initial nodes at tmin, sourced entries along an edge from an already infected node '
         'not after its recovery, non-decreasing times, every node target of at most one entry (forest). Gillespie_SIR: candidate-set invariants and, with return_full_data=True, the same per-entry '
         'validity / completeness / forest facts as a loop invariant over the recorded infection and recovery times; exactly that list is handed to the object. '
         'Gillespie_SIS with return_full_data=True: per node the recorded infection / recovery lists alternate inside [tmin, now] and agree with the status; every sourced entry goes along an edge and names '
         '(ghost index maps) the infection of its target at that time and an infection of its source covering that time; different entries name different infections; #sourced entries = #infection events; '
         'exactly these objects are handed on. Constructor binding of every '
         'Simulation_Investigation(...) call. fast_SIS / fast_nonMarkov_SIS, simple contagion and discrete simulators only by the bounded native stand-in - hence level other.',
    design_ref='DESIGN.md section 5 "C09"',
    note='As C01/C11; transmissions()/transmission_tree() accessors checked natively.',
    technique='contract-based deductive verification (handler postcondition + global invariant via queue-rule lemma, z3) + constructor-binding analysis + bounded native stand-in'),
 'C10': dict(
    category='other',
    text='_transform_to_node_history_ (SIR branch) under unbounded contract: every node gets a history starting at tmin, infection/recovery entries in time order; constructor binding; Gillespie_SIR (return_full_data=True): the recorded times are linked to the '
         'statuses and rows of the run by the loop invariant and the histories handed over are built from exactly these; Gillespie_SIS (return_full_data=True): the per-node lists of infection / recovery times alternate, '
         'lie in [tmin, now] and agree with the statuses, and exactly these lists go to the history builder (whose SIS branch is not under contract). '
         'summary/t/S/I/R/node_status/get_statuses against brute-force head counts on all short histories (bounded, exhaustive over a small alphabet); both return modes of '
         'every simulator agree under the same seeds (bounded).',
    design_ref='DESIGN.md section 5 "C10"',
    note='The accessor methods use numpy searchsorted/cumsum pipelines that are only checked by the bounded stand-in.',
    technique='contract-based deductive verification of the history builder (z3) + constructor-binding analysis + bounded exhaustive native check of the accessors'),
 'C11': dict(
    category='proof',
    text='Local semantic contracts of the real handlers and queue, for all states: L1 no lost relaxation, L2 no spurious event (edge, time = infection + delay, '
         '<= source recovery, < tmax), L3 infect iff susceptible at the event time with recovery = time + duration and the recorded source; myQueue stores '
         'exactly events before tmax and pops a minimal one, calling function(t,*args); event tuples bind by identity onto the handler signature. '
         'The step from L1-L3 to "infection time = shortest-path distance" is Dijkstra\'s theorem, cited. Percolation builders are not yet under contract.',
    design_ref='DESIGN.md section 5 "C11"',
    note='Trusted as C01 + assumed heapq contract. Partial: nonMarkov_directed_percolate_network_with_timing / get_infected_nodes not yet covered.',
    technique='contract-based deductive verification of the handlers (loop invariant over the scheduling loop, whole-queue postconditions), z3'),
 'C12': dict(
    category='proof',
    text='discrete_SIR (all ways of passing the initial condition, with and without a recovery rule, graphs of any order): the generation loops carry '
         'the invariant "new_infecteds = nodes susceptible at step start reached by a successful contact from an infectious node" (BFS layer recurrence; '
         'the rule is asked with (u, v, *args) only about susceptible v), one-step infectiousness unless the recovery rule keeps the node, S+I+R=N, '
         'unit time steps; _simple_test_transmission_ = one U01 draw compared with p; percolate_network = same nodes, symmetric sub-graph, each edge '
         'decided by its own draw; wrappers by delegation binding. basic_discrete_SIS (plain arrays): generation-loop invariants over the named contact draws, a two-state postcondition of one pass of the main loop '
         '(new infectious set = non-infectious nodes with a successful contact from an infectious neighbour, one row, time + 1), rows and stop condition; its full-data path only by the bounded stand-in.',
    design_ref='DESIGN.md section 5 "C12"',
    note='Trusted as C01; M (cited): layer recurrence => BFS distance, independent Bernoulli contacts => Reed-Frost chain; the transmission rule is a function of the ordered pair within a step.',
    technique='contract-based deductive verification: nested loop invariants over the generation step, call-back argument obligations, z3; delegation-binding analysis'),
 'C13': dict(
    category='other',
    text='Unbounded (own VC generator + z3, sidecar contracts on the real functions): the adapter _find_trans_and_rec_delays_SIS_; the event handler _process_trans_SIS_nonMarkov_ '
         '(one event: infect iff susceptible, rec_time = time + the user\'s duration, recovery queued iff < tmax, per neighbour exactly one event whose head/payload are listed attempt times in order '
         'containing every admissible one, the source chain continued with the attempts after rec_time[target], nothing else touched; sorted()/filter/slice reasoning through named proof steps); '
         'the queue rule (lemma unit event_step_nmSIS: one loop step preserves the global invariant GI_NM); fast_nonMarkov_SIS itself (argument checks, initial events, loop body, rule binding, returned rows). '
         'Bounded (labelled): equality of whole histories with a plain reference semantics on 400 random graphs <= 6 nodes with table-driven, tie-free durations and delay lists.',
    design_ref='DESIGN.md section 5 "C13", 9.3',
    note='Equality in law with fast_SIS under exponential rules is not decided. The composition of the per-event contracts into whole-history equality is only observed by the bounded stand-in.',
    technique='contract-based deductive verification (handler contract with ghost payload map, opaque abbreviations, queue-rule lemma, z3); bounded check of the real simulator against an independent reference semantics for whole histories'),
 'C15': dict(
    category='proof',
    text='Gillespie_complex_contagion: loop invariant "rates[u] = rate_function(G,u,status,parameters) for every node with positive rate, total = their sum" established by the '
         'initialisation loop and preserved by the main loop provided the influence set covers every node whose rate changes (the documented precondition); the waiting time is drawn '
         'with the total rate; the actor through the _ListDict_ contracts (units re-verified inside this check); the new status comes from transition_choice; rows consistent; for graphs of any order. '
         'Both return modes: with return_full_data=True the same obligations are discharged, the per-node histories start at tmin, are time-ordered and end with the current status, and exactly these are handed to the object.',
    design_ref='DESIGN.md section 5 "C15"',
    note='As C01. User call-backs modelled as uninterpreted functions of (node, status map); influence-set precondition is the documented one.',
    technique='contract-based deductive verification: loop invariants with call-back contracts, draw-site obligations, z3'),
 'C17': dict(
    category='proof',
    text='estimate_SIR_prob_size_from_dir_perc: the component used is a largest SCC (assumed networkx contract), PE*N = #{x | x reaches u}, AR*N = #{x | reachable from u} '
         'for a node u of it, both in [0,1]; _in_component_/_out_component_ by loop invariants over the union of ancestor/descendant sets; '
         'estimate_SIR_prob_size: both outputs = largest component of percolate_network(G,p) / N; the percolation builders produce the same node set and '
         'edge u->v iff delay<=duration, resp. transmission(xi[u],zeta[v]), with the documented attributes - all for graphs of any order.',
    design_ref='DESIGN.md section 5 "C17"',
    note='Assumed networkx contracts (descendants/ancestors/SCC/connected components/add_edge adds end points); finite-cardinality lemmas instantiated; order(H)>=1; directed_percolate_network/get_infected_nodes bodies: binding only.',
    technique='contract-based deductive verification with assumed library contracts for reachability, loop invariants, z3'),
 'C18': dict(
    category='other',
    text='Flow analyses over the real AST, for all inputs: randomness only from random/np.random and never re-seeded; no global/nonlocal/module-level mutable state; '
         'in the continuous-time simulators and everything they reach no draw is control-dependent on return_full_data and no loop with an order-sensitive '
         'effect iterates a set. A bounded native cross-process run (PYTHONHASHSEED 0-2, string node names) is added as a labelled stand-in.',
    design_ref='DESIGN.md section 5 "C18", 3.2',
    note='Library iteration orders assumed insertion-ordered; deterministic user call-backs; discrete-time simulators excluded from the flag clause by the statement.',
    technique='frame/determinism flow analysis (contracts of the ownership kind) + bounded native cross-process comparison'),
 'C19': dict(
    category='proof',
    text='For every public function of simulation.py, analytic.py, auxiliary.py and each parameter: modifies(f) does not intersect what is reachable from the '
         'parameter (flow-sensitive may-alias analysis with numpy view table and callee summaries to a fixpoint); analytic.py has no draw site or global state, '
         'so a repeated call returns identical results. Supplementary bounded backup (never counted as proved): about 85 native calls with '
         'before/after snapshots of every argument and a second call.',
    design_ref='DESIGN.md section 5 "C19", 3.2',
    note='Trusted: the alias/mutator tables; library functions not tabulated as mutating; in-place operators on bare names are mutations only for array-like parameters.',
    technique='frame (modifies-clause) analysis over the AST with callee summaries'),
 'C20': dict(
    category='other',
    text='subsample (one/two/three series, recursion checked against its own contract), get_time_shift, get_Pk and estimate_R0 '
         'are verified for all inputs by VC generation from the real source + z3 (lists of any length, graphs of any order; '
         'spec function lastidx = last observation at or before a report time); the generating-function helpers by term-wise '
         'obligations over a symbolic integer k (any maxk: summand = spec, each function the term-wise derivative of the previous); '
         'get_Pnk only by a bounded native stand-in (all labelled graphs <= 5 nodes), labelled bounded and not counted as proved - hence level other.',
    design_ref='DESIGN.md section 5 "C20"',
    note='Trusted: own VC generator; numpy contracts (array copy, linspace(0,m,m+1)=[0..m], dot, elementwise ops); Counter/dict(G.degree()) '
         'contracts; sum_k #{deg=k}=N and <k> > 0 iff an edge exists are cited finite-sum facts; estimate_R0 requires an edge and tau+gamma>0.',
    technique='contract-based deductive verification (AST->VC + z3, loop invariants, spec functions); term-wise AST obligations for the PGF lambdas; bounded native enumeration for get_Pnk'),
}

NOT_APPLICABLE = {}

def main():
    checks = []
    for pid in PROP_IDS:
        if pid not in CHECKS:
            continue
        c = CHECKS[pid]
        checks.append(dict(
            property_id=pid,
            quick_cmd='./check %s --tier quick' % pid,
            thorough_cmd='./check %s --tier thorough' % pid,
            evidence_file='/verif/evidence/%s.json' % pid,
            replay_cmd_template='./check %s --replay {path}' % pid,
            engine='pyvc',
            level_claimed=dict(category=c['category'], text=c['text'], design_ref=c['design_ref']),
            level_note=c['note'],
            technique=c['technique']))
    na = []
    for pid in PROP_IDS:
        if pid not in CHECKS:
            na.append(dict(property_id=pid, reason=NOT_APPLICABLE.get(pid, 'contracts for this property are not completed yet (build in progress, see DESIGN.md section 8); nothing is claimed')))
    m = dict(
        version=1,
        setup_cmd='./setup.sh',
        hooks=dict(guard='FABMAZZ_EPIDEMICS_ON_NETWORKS_VERIF', enable='no source hooks are needed: contracts are sidecar files under /verif/vlib/contracts and the checks read /repo sources directly',
                   baseline_off_cmd='cd /repo && /venv/bin/python -m pytest -ra -q -p no:cacheprovider --timeout=900 --continue-on-collection-errors',
                   source_commits=[], add_only=True),
        engines=[
            dict(name='pyvc', path='/verif/vlib/pyvc', serves_properties=sorted(CHECKS), kind_free_text='E1: own AST->z3 verification-condition generator for the real Python functions, sidecar contracts, proof mode (uninterpreted node sort, quantifiers) + finite-scope refutation mode'),
        ],
        checks=checks,
        notes='All checks: exit 0 = every obligation discharged; 1 = refuted obligation (VIOLATION line); 2 = undecided (never a VIOLATION line); 3 = checker crash. See DESIGN.md section 2.',
        not_applicable=na)
    with open(os.path.join(HERE, 'MANIFEST.json'), 'w') as fh:
        json.dump(m, fh, indent=1)
    try:
        import jsonschema
        jsonschema.validate(m, json.load(open('/root/.vp/MANIFEST.schema.json')))
        print('MANIFEST.json written and valid: %d checks, %d not_applicable' % (len(checks), len(na)))
    except ImportError:
        print('MANIFEST.json written (jsonschema not available to validate)')

if __name__ == '__main__':
    main()
