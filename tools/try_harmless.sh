#!/bin/bash
# usage: tools/try_harmless.sh <dir with change_i.diff> <i> "<props>"   applies a behaviour-preserving edit to a scratch copy; every check must exit 0
D=$1; I=$2; PROPS=$3
TAG=$(basename $(dirname $D))_h$I
S=/tmp/scratch/harm_$TAG
rm -rf $S; mkdir -p $S; rsync -a --exclude .git --exclude '*.pyc' /repo/ $S/
cd $S; git apply $D/change_$I.diff 2>/dev/null || { echo "$TAG: diff does not apply"; rm -rf $S; exit 9; }
cd /verif
for p in $PROPS; do
  out=$(VERIF_REPO=$S VERIF_NPROC=${NP:-5} ./check $p 2>&1); code=$?
  echo "$TAG check $p exit=$code :: $(echo "$out" | grep -m3 'VIOLATION\|UNDECIDED\|CRASH' | cut -c1-300 | tr '\n' ' ')"
done
rm -rf $S
