#!/bin/bash
# usage: tools/try_seeded2.sh <seeded-id e.g. C13_agent_1> "<props to check>"
# works on a scratch copy of /repo's working tree (so several can run in parallel); removes the copy afterwards
ID=$1; PROPS=$2
D=/verif/seeded/$ID
S=/tmp/scratch/seedrepo_$ID
rm -rf $S; mkdir -p $S; rsync -a --exclude .git --exclude '*.pyc' /repo/ $S/
cd $S
PYTHONPATH=$S /venv/bin/python -W ignore $D/demo.py > /tmp/scratch/demo_clean_$ID.log 2>&1; c0=$?
git apply $D/patch.diff 2>/tmp/scratch/apply_$ID.log || { echo "$ID: diff does not apply"; rm -rf $S; exit 9; }
PYTHONPATH=$S /venv/bin/python -W ignore $D/demo.py > /tmp/scratch/demo_changed_$ID.log 2>&1; c1=$?
echo "$ID demo: clean exit=$c0, with change exit=$c1   ($(tail -1 /tmp/scratch/demo_changed_$ID.log | cut -c1-160))"
cd /verif
for p in $PROPS; do
  out=$(VERIF_REPO=$S VERIF_NPROC=${NP:-5} ./check $p 2>&1); code=$?
  echo "$ID check $p exit=$code :: $(echo "$out" | grep -m2 'VIOLATION\|UNDECIDED\|CRASH' | cut -c1-260 | tr '\n' ' ')"
done
rm -rf $S
