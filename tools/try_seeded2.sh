#!/bin/bash
# usage: tools/try_seeded2.sh <dir-with-change_i.diff-and-demo_i.py> <i> "<props to check>"
# works on a scratch copy of /repo's working tree (so several can run in parallel); removes the copy afterwards
D=$1; I=$2; PROPS=$3
TAG=$(basename $(dirname $D))_$I
S=/tmp/scratch/seedrepo_$TAG
rm -rf $S; mkdir -p $S; rsync -a --exclude .git --exclude '*.pyc' /repo/ $S/
cd $S
PYTHONPATH=$S /venv/bin/python -W ignore $D/demo_$I.py > /tmp/scratch/demo_clean_$TAG.log 2>&1; c0=$?
git apply $D/change_$I.diff 2>/tmp/scratch/apply_$TAG.log || patch -p1 -s < $D/change_$I.diff || { echo "$TAG: diff does not apply"; rm -rf $S; exit 9; }
PYTHONPATH=$S /venv/bin/python -W ignore $D/demo_$I.py > /tmp/scratch/demo_changed_$TAG.log 2>&1; c1=$?
echo "$TAG demo: clean exit=$c0, with change exit=$c1   ($(tail -1 /tmp/scratch/demo_changed_$TAG.log | cut -c1-160))"
cd /verif
for p in $PROPS; do
  out=$(VERIF_REPO=$S VERIF_NPROC=${NP:-5} ./check $p 2>&1); code=$?
  echo "$TAG check $p exit=$code :: $(echo "$out" | grep -m2 'VIOLATION\|UNDECIDED\|CRASH' | cut -c1-260 | tr '\n' ' ')"
done
rm -rf $S
