#!/usr/bin/env python3
"""Mutation self-test (DESIGN 3.7): every entry of selftest/mutants.json is applied to a scratch copy of the
repository package (created under a fresh temporary directory and removed afterwards), the owning check is
run against the copy (VERIF_REPO) and must exit 1 for 'violation' entries and 0 for 'pass' (harmless) entries.
usage: tools/selftest.py [id-or-property ...] [-j N]"""
import json, os, shutil, subprocess, sys, tempfile, time
from concurrent.futures import ThreadPoolExecutor
HERE = os.path.dirname(os.path.dirname(os.path.abspath(__file__)))
REPO = os.environ.get('VERIF_REPO', '/repo')

def run_one(m, keep=False):
    tmp = tempfile.mkdtemp(prefix='eon_mut_')
    try:
        shutil.copytree(os.path.join(REPO, 'EoN'), os.path.join(tmp, 'EoN'), ignore=shutil.ignore_patterns('__pycache__', 'tests'))
        p = os.path.join(tmp, m['file'])
        s = open(p).read()
        edits = m['edits'] if 'edits' in m else [dict(old=m['old'], new=m['new'])]
        for e in edits:
            if s.count(e['old']) < 1:
                return m, None, 'pattern not found: %r' % e['old'][:60], 0
            if 'nth' in e:
                i = -1
                for _ in range(e['nth'] + 1):
                    i = s.find(e['old'], i + 1)
                if i < 0:
                    return m, None, 'occurrence %d not found: %r' % (e['nth'], e['old'][:60]), 0
            else:
                i = s.rfind(e['old']) if e.get('last', True) else s.find(e['old'])
            s = s[:i] + e['new'] + s[i + len(e['old']):]
        open(p, 'w').write(s)
        env = dict(os.environ, VERIF_REPO=tmp, VERIF_NPROC=os.environ.get('VERIF_NPROC', '6'))
        t = time.time()
        out = []
        code = 0
        for prop in m['property'].split(','):
            r = subprocess.run([os.path.join(HERE, 'check'), prop, '--tier', 'quick'], env=env, capture_output=True, text=True, timeout=3600)
            out.append(r.stdout[-1500:] + r.stderr[-500:])
            code = max(code, r.returncode) if r.returncode in (0, 1) else r.returncode
            if r.returncode == 1:
                code = 1
                break
        return m, code, '\n'.join(out), time.time() - t
    finally:
        shutil.rmtree(tmp, ignore_errors=True)

def main():
    args = [a for a in sys.argv[1:] if not a.startswith('-j')]
    j = [int(a[2:]) for a in sys.argv[1:] if a.startswith('-j')]
    muts = json.load(open(os.path.join(HERE, 'selftest', 'mutants.json')))
    if args:
        muts = [m for m in muts if m['id'] in args or any(p in args for p in m['property'].split(','))]
    bad = 0
    with ThreadPoolExecutor(max_workers=(j[0] if j else 3)) as ex:
        for m, code, out, dt in ex.map(run_one, muts):
            want = 1 if m['expect'] == 'violation' else 0
            ok = (code == want)
            bad += 0 if ok else 1
            print('%-4s %-38s %-10s expect=%-9s exit=%s %.0fs' % ('ok' if ok else 'FAIL', m['id'], m['property'], m['expect'], code, dt))
            if not ok:
                print('     ' + out.strip().replace('\n', '\n     ')[-1200:])
    print('%d mutants, %d unexpected' % (len(muts), bad))
    return 1 if bad else 0

if __name__ == '__main__':
    sys.exit(main())
