#!/bin/bash
# usage: tools/import_r7.sh <Cxx>   -- copies /tmp/scratch/r7/out_<Cxx>/{a,b} to /verif/seeded/<Cxx>_agent_<n>/ (next free numbers)
P=$1
for x in a b; do
  src=/tmp/scratch/r7/out_$P/$x
  [ -f $src/patch.diff ] && [ -f $src/demo.py ] || { echo "$P/$x incomplete"; continue; }
  n=1; while [ -d /verif/seeded/${P}_agent_$n ]; do n=$((n+1)); done
  d=/verif/seeded/${P}_agent_$n
  mkdir -p $d; cp $src/patch.diff $src/demo.py $d/; cp $src/notes.json $d/notes.json 2>/dev/null
  echo "$P/$x -> ${P}_agent_$n"
done
