#!/bin/sh
# runs the quick command of every registered check against /repo, refreshing /verif/evidence; prints exit codes
cd "$(dirname "$0")/.."
rc=0
for p in $(.venv/bin/python -c "import json; print(' '.join(c['property_id'] for c in json.load(open('MANIFEST.json'))['checks']))"); do
  out=$(./check $p --tier ${1:-quick} 2>&1); code=$?
  echo "$p exit=$code  $(echo "$out" | tail -1)"
  if [ $code -ne 0 ]; then rc=1; echo "$out" | grep -v "^$" | head -8; fi
done
.venv/bin/python - <<'PY'
import json, jsonschema, glob
sch = json.load(open('/root/.vp/EVIDENCE.schema.json'))
m = json.load(open('MANIFEST.json'))
for c in m['checks']:
    ev = json.load(open(c['evidence_file']))
    jsonschema.validate(ev, sch)
    lvl = c['level_claimed']['category']
    if ev['level'] != lvl:
        print('LEVEL MISMATCH', c['property_id'], 'manifest', lvl, 'evidence', ev['level'])
    cov = ev['coverage']
    if ev['level'] == 'proof' and cov.get('obligations') != cov.get('discharged'):
        print('PROOF COUNT MISMATCH', c['property_id'], cov.get('obligations'), cov.get('discharged'))
print('evidence files validated')
PY
exit $rc
