"""dev helper: finite-mode counter-model of one obligation.  usage: dbg.py <contracts-module> <qualname> <case> <label-substring> [ordinal]"""
import sys, importlib
sys.path.insert(0, '/verif')
import z3
from vlib.pyvc import verify as V, sorts as so
mod, qual, case, lab = sys.argv[1:5]
ordn = int(sys.argv[5]) if len(sys.argv) > 5 else None
m = importlib.import_module('vlib.contracts.' + mod)
def regf():
    r = V.Registry()
    for c in m.contracts(): r.add(c)
    if hasattr(m, 'install'): r.lib_install.append(m.install)
    return r
so.set_mode(True, 3, 3)
reg = regf()
c = reg.get(qual)
unit = V.Unit(c, [x for x in c.cases if x.name == case][0], reg)
obls, npaths, reached, entry, finals = V.explore(unit, reg.make_lib())
for ob in obls:
    if (lab in ob.label or lab == "ALL") and (ordn is None or ob.ordinal == ordn):
        parts = V.flatten_and(ob.goal)
        for k, g in enumerate(parts):
            sol = z3.Solver(); sol.set('timeout', 20000)
            for f in ob.pc: sol.add(f)
            sol.add(z3.Not(g))
            r = sol.check()
            print('==', ob.id, '#%d' % ob.ordinal, 'L%d' % ob.lineno, 'conjunct', k, r)
            if r == z3.sat:
                print('   GOAL:', str(g)[:1500])
                mdl = sol.model()
                for d in sorted(mdl.decls(), key=lambda d: d.name()):
                    v = str(mdl[d]).replace('\n', ' ')
                    if len(v) < 300: print('    ', d.name(), '=', v)
                if lab != "ALL": sys.exit(0)
                break
