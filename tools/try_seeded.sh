#!/bin/bash
# usage: tools/try_seeded.sh <worktree-id> <i> "<props to check>" [pytest -k pattern]
# 1. confirms in the scratch worktree that demo_i passes on the clean tree and fails with change_i applied
# 2. (optional) runs the named tests with the change applied
# 3. applies the change to /repo, runs the named checks, reverts /repo
ID=$1; I=$2; PROPS=$3; PAT=$4
WT=/tmp/wt_$ID
cd $WT || exit 9
git checkout -q -- EoN
PYTHONPATH=$WT /venv/bin/python -W ignore out/demo_$I.py > /tmp/scratch/demo_clean.log 2>&1; c0=$?
git apply out/change_$I.diff || { echo "diff does not apply in worktree"; exit 9; }
PYTHONPATH=$WT /venv/bin/python -W ignore out/demo_$I.py > /tmp/scratch/demo_changed.log 2>&1; c1=$?
echo "demo: clean exit=$c0, with change exit=$c1   ($(tail -1 /tmp/scratch/demo_changed.log | cut -c1-160))"
if [ -n "$PAT" ]; then
  PYTHONPATH=$WT timeout 1500 /venv/bin/python -m pytest -q -p no:cacheprovider --timeout=900 EoN/tests -k "$PAT" 2>&1 | tail -2
fi
git checkout -q -- EoN
cd /verif
git -C /repo apply $WT/out/change_$I.diff || { echo "diff does not apply to /repo"; exit 9; }
for p in $PROPS; do
  out=$(VERIF_NPROC=10 ./check $p 2>&1); code=$?
  echo "check $p exit=$code :: $(echo "$out" | grep -m2 'VIOLATION\|UNDECIDED\|CRASH' | cut -c1-230 | tr '\n' ' ')"
done
git -C /repo checkout -- .
git -C /repo status --short | grep -v '^??' | head -3
