"""dev helper: find the first assumption that makes a path's pc unsatisfiable (finite mode)"""
import sys, importlib
sys.path.insert(0, '/verif')
import z3
from vlib.pyvc import verify as V, sorts as so
mod, qual, case = sys.argv[1:4]
m = importlib.import_module('vlib.contracts.' + mod)
def regf():
    r = V.Registry()
    for c in m.contracts(): r.add(c)
    if hasattr(m, 'install'): r.lib_install.append(m.install)
    return r
so.set_mode(True, 3, 3)
reg = regf()
c = reg.get(qual)
unit = V.Unit(c, [x for x in c.cases if x.name == case][0], reg)
obls, npaths, reached, entry, finals = V.explore(unit, reg.make_lib())
print('paths', npaths, 'reached', reached)
for fpc in finals:
    sol = z3.Solver(); sol.set('timeout', 10000)
    for i, f in enumerate(fpc):
        sol.add(f)
        r = sol.check()
        if r != z3.sat:
            print('pc becomes', r, 'at assumption', i, 'of', len(fpc)); print(str(f)[:3000]); break
    else:
        print('path pc sat')
