#!/bin/bash
# usage: tools/import_seeded.sh <worktree-dir> <PROP> <first-new-index>   copies out/change_{1,2}.diff etc. into /verif/seeded/<PROP>_agent_<k>/
WT=$1; P=$2; K=$3
for i in 1 2; do
  d=/verif/seeded/${P}_agent_$((K+i-1)); mkdir -p $d
  cp $WT/out/change_$i.diff $d/patch.diff; cp $WT/out/demo_$i.py $d/demo.py; cp $WT/out/meta_$i.json $d/meta.json
  git -C /repo apply --check $d/patch.diff || echo "WARNING: $d/patch.diff does not apply to /repo"
done
