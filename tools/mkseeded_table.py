"""regenerates the table "All seeded changes" of DESIGN.md (section 9.6) from seeded/*/meta.json"""
import json, os, re
HERE = os.path.dirname(os.path.dirname(os.path.abspath(__file__)))
rows = []
def key(d):
    p, _, k = d.split('_')
    return (p, int(k))
first = 0
ids = sorted([d for d in os.listdir(os.path.join(HERE, 'seeded')) if re.match(r'C\d\d_agent_\d+$', d)], key=key)
for d in ids:
    m = json.load(open(os.path.join(HERE, 'seeded', d, 'meta.json')))
    h = m.get('history', '')
    fr = 'yes' if h.startswith('detected at first run') else 'no'
    first += fr == 'yes'
    rows.append('| %s | %s | %s | %s |' % (d, m.get('summary', '')[:120].replace('|', '/').replace('\n', ' '), m.get('detected_by', '')[:220].replace('|', '/'), fr))
p = os.path.join(HERE, 'DESIGN.md')
s = open(p).read()
a = s.index('| id | what the change does | reported by | first run |')
b = s.index('\n\n', a)
s = s[:a] + '| id | what the change does | reported by | first run |\n|---|---|---|---|\n' + '\n'.join(rows) + s[b:]
s = re.sub(r'#### All seeded changes \(generated from `seeded/\*/meta.json`; \d+ changes, \d+ caught by the target property\'s check at first run, all caught now\)',
           '#### All seeded changes (generated from `seeded/*/meta.json`; %d changes, %d caught by the target property\'s check at first run, all caught now)' % (len(rows), first), s)
open(p, 'w').write(s)
print(len(rows), first)
