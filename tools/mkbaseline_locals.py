#!/usr/bin/env python3
"""Records, for every function / method of the package at the pinned tree, the local names in order of first binding
(-> /verif/baseline_locals.json).  The VC generator uses it to recognise a PURE RENAMING of local variables in a later
version of the code (same sequence of bindings, some names replaced by new ones) and then reads the sidecar contract
through that renaming instead of failing to bind (vlib/pyvc/verify.py: local_renaming)."""
import ast, json, os, sys
HERE = os.path.dirname(os.path.dirname(os.path.abspath(__file__)))
sys.path.insert(0, HERE)
from vlib.pyvc.verify import ordered_locals, loop_headers
REPO = os.environ.get('VERIF_REPO', '/repo')
out = {}
loops = {}
for rel in ('EoN/simulation.py', 'EoN/analytic.py', 'EoN/auxiliary.py', 'EoN/__init__.py', 'EoN/simulation_investigation.py'):
    tree = ast.parse(open(os.path.join(REPO, rel)).read())
    d = {}
    L = {}
    for n in tree.body:
        if isinstance(n, ast.FunctionDef):
            d[n.name] = ordered_locals(n)
            L[n.name] = loop_headers(n)
        elif isinstance(n, ast.ClassDef):
            for m in n.body:
                if isinstance(m, ast.FunctionDef):
                    d['%s.%s' % (n.name, m.name)] = ordered_locals(m)
                    L['%s.%s' % (n.name, m.name)] = loop_headers(m)
    out[rel] = d
    loops[rel] = L
json.dump(out, open(os.path.join(HERE, 'baseline_locals.json'), 'w'), indent=0, sort_keys=True)
json.dump(loops, open(os.path.join(HERE, 'baseline_loops.json'), 'w'), indent=0, sort_keys=True)
print('recorded', sum(len(v) for v in out.values()), 'functions')
