"""dev helper: python tools/runc.py <contracts-module> [name-filter ...]  -- verifies the units and prints a table"""
import sys, time, importlib
sys.path.insert(0, '/verif')
from vlib.pyvc import verify as V
MOD = None
def regf():
    r = V.Registry()
    m = importlib.import_module('vlib.contracts.' + MOD)
    for c in m.contracts():
        r.add(c)
    if hasattr(m, 'install'):
        r.lib_install.append(m.install)
    return r
if __name__ == '__main__':
    MOD = sys.argv[1]
    only = sys.argv[2:]
    r = regf()
    jobs = []
    for q, c in r.contracts.items():
        if not c.verify: continue
        for case in c.cases:
            if only and not any(o in q + '[' + case.name for o in only): continue
            jobs.append(((q, case.name, regf), dict(proof_timeout_ms=15000)))
    t = time.time()
    res = V.verify_many(jobs, nproc=14)
    for x in res:
        nd = sum(1 for o in x['obligations'] if o['status'] == 'discharged')
        print('%-50s %-9s paths=%-3d obl=%-3d ok=%-3d %.1fs %s' % (x['unit'], x['status'], x['paths'], len(x['obligations']), nd, x['seconds'], x['error'][:3000]))
        for o in x['obligations']:
            if o['status'] != 'discharged':
                print('     ', o['status'], o['id'], '#%d' % o['ordinal'], 'L%d' % o['lineno'], o['result'], o['reason'][:40], '|', o['goal'][:200].replace('\n', ' '))
        print('      vac', x['vacuity'], 'explore_proof', x.get('t_explore_proof'), 'discharge', x.get('t_discharge'), 'explore_finite', x.get('t_explore_finite'))
    for x in res:
        for o in x['obligations']:
            if o['seconds'] > 1.5: print('SLOW %.1fs' % o['seconds'], o['id'], o['ordinal'], 'L%d' % o['lineno'], o['result'], o['goal'][:260].replace(chr(10), ' '))
    print('total %.1fs' % (time.time() - t))
